import FlVerif.Op.ConsequentLoad

/-! `Consequent.load` accepts exactly `v is h* t (and v is h* t)*` over the engine's output variables. -/

namespace Op
open Lang

/-- the words of one conclusion -/
def concWords (c : Conclusion) : List String :=
  [c.v, "is"] ++ c.hs ++ (match c.t with | some t => [t] | none => [])

/-- conclusions joined by `and` -/
def consTokens : List Conclusion → List String
  | [] => []
  | c :: cs => concWords c ++ (match cs with | [] => [] | _ :: _ => "and" :: consTokens cs)

/-- what has been read when the next conclusion may start -/
def sepTokens (cs : List Conclusion) : List String :=
  match cs with | [] => [] | _ :: _ => consTokens cs ++ ["and"]

/-- a conclusion over the engine: output variable (found by `findOut`, i.e. with at least one term), registered hedges,
    a term of that variable -/
def ConcValid (e : EngineInfo) (c : Conclusion) : Prop :=
  (e.findOut c.v).isSome = true ∧ (∀ h ∈ c.hs, e.hedges.contains h = true) ∧
  ∃ t, c.t = some t ∧ (((e.findOut c.v).map (·.terms)).getD []).contains t = true

theorem consTokens_cons2 (d d' : Conclusion) (ds : List Conclusion) :
    consTokens (d :: d' :: ds) = concWords d ++ "and" :: consTokens (d' :: ds) := rfl
theorem sepTokens_cons (d : Conclusion) (ds : List Conclusion) : sepTokens (d :: ds) = consTokens (d :: ds) ++ ["and"] := rfl

theorem consTokens_snoc : ∀ (cs : List Conclusion) (c : Conclusion),
    consTokens (cs ++ [c]) = sepTokens cs ++ concWords c
  | [], c => by simp [consTokens, sepTokens]
  | [d], c => by simp [consTokens, sepTokens]
  | d :: d' :: ds, c => by
    have ih := consTokens_snoc (d' :: ds) c
    rw [List.cons_append] at ih
    rw [List.cons_append, List.cons_append, consTokens_cons2, ih, sepTokens_cons, sepTokens_cons, consTokens_cons2]
    simp [List.append_assoc]

theorem sepTokens_ne_nil {cs : List Conclusion} (h : cs ≠ []) : sepTokens cs = consTokens cs ++ ["and"] := by
  cases cs with
  | nil => exact absurd rfl h
  | cons c cs => rfl

theorem updLast_snoc (f : Conclusion → Conclusion) : ∀ (cs : List Conclusion) (c : Conclusion),
    updLast f (cs ++ [c]) = cs ++ [f c]
  | [], c => rfl
  | [d], c => rfl
  | d :: d' :: ds, c => by
    have ih := updLast_snoc f (d' :: ds) c
    simp only [List.cons_append] at ih ⊢
    simp only [updLast, ih]

theorem lastTerms_snoc (e : EngineInfo) : ∀ (cs : List Conclusion) (c : Conclusion),
    lastTerms e (cs ++ [c]) = ((e.findOut c.v).map (·.terms)).getD []
  | [], c => rfl
  | [d], c => rfl
  | d :: d' :: ds, c => by
    have ih := lastTerms_snoc e (d' :: ds) c
    simp only [List.cons_append] at ih ⊢
    simp only [lastTerms, ih]

/-- the reachable configurations of the loop and what has been read to reach them -/
inductive CInv (e : EngineInfo) : CFlags → List Conclusion → List String → Prop where
  | start (cs : List Conclusion) : (∀ c ∈ cs, ConcValid e c) → CInv e cVariable cs (sepTokens cs)
  | var (cs0 : List Conclusion) (v : String) : (∀ c ∈ cs0, ConcValid e c) → (e.findOut v).isSome = true →
      CInv e cIs (cs0 ++ [⟨v, [], none⟩]) (sepTokens cs0 ++ [v])
  | hedges (cs0 : List Conclusion) (v : String) (hs : List String) : (∀ c ∈ cs0, ConcValid e c) →
      (e.findOut v).isSome = true → (∀ h ∈ hs, e.hedges.contains h = true) →
      CInv e cHedgeTerm (cs0 ++ [⟨v, hs, none⟩]) (sepTokens cs0 ++ [v, "is"] ++ hs)
  | done (cs : List Conclusion) : cs ≠ [] → (∀ c ∈ cs, ConcValid e c) → CInv e cAndWith cs (consTokens cs)

theorem cStep_inv (e : EngineInfo) {st st' : CFlags} {cs cs' : List Conclusion} {pre : List String} {t : String}
    (hi : CInv e st cs pre) (h : cStep e st cs t = .ok (st', cs')) : CInv e st' cs' (pre ++ [t]) := by
  cases hi with
  | start cs hv =>
    by_cases hf : (e.findOut t).isSome = true
    · simp only [cStep, cVariable, hf, Bool.true_and, if_true, Except.ok.injEq, Prod.mk.injEq] at h
      obtain ⟨rfl, rfl⟩ := h
      show CInv e cIs _ _
      exact CInv.var cs t hv hf
    · simp [cStep, cVariable, hf] at h
  | var cs0 v hv hf =>
    by_cases ht : t = "is"
    · subst ht
      simp only [cStep, cIs, Bool.false_and, Bool.false_eq_true, if_false, beq_self_eq_true, Bool.true_and, if_true,
        Except.ok.injEq, Prod.mk.injEq] at h
      obtain ⟨rfl, rfl⟩ := h
      have := CInv.hedges cs0 v [] hv hf (by simp)
      show CInv e cHedgeTerm _ _
      simpa [List.append_assoc] using this
    · simp [cStep, cIs, ht] at h
  | hedges cs0 v hs hv hf hh =>
    by_cases hc : e.hedges.contains t = true
    · simp only [cStep, cHedgeTerm, Bool.false_and, Bool.false_eq_true, if_false, Bool.true_and, hc, if_true,
        Except.ok.injEq, Prod.mk.injEq] at h
      obtain ⟨rfl, rfl⟩ := h
      rw [updLast_snoc]
      have := CInv.hedges cs0 v (hs ++ [t]) hv hf (by
        intro x hx; rcases List.mem_append.1 hx with hx | hx
        · exact hh x hx
        · simp at hx; subst hx; exact hc)
      show CInv e cHedgeTerm _ _
      simpa [List.append_assoc] using this
    · by_cases htm : (lastTerms e (cs0 ++ [⟨v, hs, none⟩])).contains t = true
      · simp only [cStep, cHedgeTerm, Bool.false_and, Bool.false_eq_true, if_false, Bool.true_and, hc, htm, if_true,
          Except.ok.injEq, Prod.mk.injEq] at h
        obtain ⟨rfl, rfl⟩ := h
        rw [updLast_snoc]
        rw [lastTerms_snoc] at htm
        have hvalid : ∀ c ∈ cs0 ++ [(⟨v, hs, some t⟩ : Conclusion)], ConcValid e c := by
          intro c hcm; rcases List.mem_append.1 hcm with hcm | hcm
          · exact hv c hcm
          · simp at hcm; subst hcm; exact ⟨hf, hh, t, rfl, htm⟩
        have := CInv.done (e := e) (cs0 ++ [⟨v, hs, some t⟩]) (by simp) hvalid
        rw [consTokens_snoc] at this
        show CInv e cAndWith _ _
        simpa [concWords, List.append_assoc] using this
      · have hc' : t ∉ e.hedges := by simpa using hc
        have htm' : t ∉ lastTerms e (cs0 ++ [⟨v, hs, none⟩]) := by simpa using htm
        simp [cStep, cHedgeTerm, hc', htm'] at h
  | done cs hne hv =>
    by_cases ht : t = "and"
    · subst ht
      simp only [cStep, cAndWith, Bool.false_and, Bool.false_eq_true, if_false, beq_self_eq_true, Bool.true_and, if_true,
        Except.ok.injEq, Prod.mk.injEq] at h
      obtain ⟨rfl, rfl⟩ := h
      have := CInv.start (e := e) cs hv
      rw [sepTokens_ne_nil hne] at this
      show CInv e cVariable _ _
      exact this
    · simp [cStep, cAndWith, ht] at h

theorem cLoop_inv (e : EngineInfo) : ∀ (ts : List String) {st st' : CFlags} {cs cs' : List Conclusion} {pre : List String},
    CInv e st cs pre → cLoop e ts st cs = .ok (st', cs') → CInv e st' cs' (pre ++ ts)
  | [], _, _, _, _, _, hi, h => by
    simp only [cLoop, Except.ok.injEq, Prod.mk.injEq] at h
    obtain ⟨rfl, rfl⟩ := h
    simpa using hi
  | t :: ts, st, st', cs, cs', pre, hi, h => by
    simp only [cLoop] at h
    cases hs : cStep e st cs t with
    | error k => rw [hs] at h; cases h
    | ok r =>
      obtain ⟨st1, cs1⟩ := r
      rw [hs] at h
      have := cLoop_inv e ts (cStep_inv e hi hs) h
      simpa [List.append_assoc] using this

/-- **soundness**: whatever the consequent machine accepts is a non-empty `and`-separated list of conclusions over
    the engine's output variables, hedges and terms, and the loaded conclusions are exactly the ones written -/
theorem consequentLoad_sound (e : EngineInfo) (ts : List String) (cs : List Conclusion)
    (h : consequentLoadTokens e ts = .ok cs) : cs ≠ [] ∧ ts = consTokens cs ∧ ∀ c ∈ cs, ConcValid e c := by
  unfold consequentLoadTokens at h
  cases hl : cLoop e ts cVariable [] with
  | error k => rw [hl] at h; cases h
  | ok r =>
    obtain ⟨st, cs1⟩ := r
    rw [hl] at h
    have hi := cLoop_inv e ts (CInv.start (e := e) [] (by simp)) hl
    simp only [sepTokens, List.nil_append] at hi
    by_cases hfin : (st.and_ || st.with_) = true
    · simp only [hfin, if_true, Except.ok.injEq] at h
      subst h
      cases hi with
      | start cs _ => simp [cVariable] at hfin
      | var cs0 v _ _ => simp [cIs] at hfin
      | hedges cs0 v hs _ _ _ => simp [cHedgeTerm] at hfin
      | done cs hne hv => exact ⟨hne, rfl, hv⟩
    · simp [hfin] at h

theorem cStep_error (e : EngineInfo) {st : CFlags} {cs : List Conclusion} {t : String} {k : ErrKind}
    (h : cStep e st cs t = .error k) : k = .syntax := by
  unfold cStep at h
  split at h; · cases h
  split at h; · cases h
  split at h; · cases h
  split at h; · cases h
  split at h; · cases h
  simp only [Except.error.injEq] at h; exact h.symm

theorem cLoop_error (e : EngineInfo) : ∀ (ts : List String) (st : CFlags) (cs : List Conclusion) (k : ErrKind),
    cLoop e ts st cs = .error k → k = .syntax
  | [], _, _, _, h => by simp [cLoop] at h
  | t :: ts, st, cs, k, h => by
    simp only [cLoop] at h
    cases hs : cStep e st cs t with
    | error k' => rw [hs] at h; simp only [Except.error.injEq] at h; subst h; exact cStep_error e hs
    | ok r => obtain ⟨a, b⟩ := r; rw [hs] at h; exact cLoop_error e ts _ _ _ h

theorem cLoop_append (e : EngineInfo) : ∀ (xs : List String) (st : CFlags) (cs : List Conclusion) (st' : CFlags)
    (cs' : List Conclusion) (ys : List String), cLoop e xs st cs = .ok (st', cs') →
    cLoop e (xs ++ ys) st cs = cLoop e ys st' cs'
  | [], _, _, _, _, _, h => by
    simp only [cLoop, Except.ok.injEq, Prod.mk.injEq] at h; obtain ⟨rfl, rfl⟩ := h; rfl
  | x :: xs, st, cs, st', cs', ys, h => by
    simp only [cLoop, List.cons_append] at h ⊢
    cases hs : cStep e st cs x with
    | error k => rw [hs] at h; cases h
    | ok r =>
      obtain ⟨a, b⟩ := r
      rw [hs] at h
      simp only
      exact cLoop_append e xs _ _ _ _ ys h

/-- after an accepted consequent the machine is in its accepting state -/
theorem consequentLoad_final (e : EngineInfo) (ts : List String) (cs : List Conclusion)
    (h : consequentLoadTokens e ts = .ok cs) : cLoop e ts cVariable [] = .ok (cAndWith, cs) := by
  unfold consequentLoadTokens at h
  cases hl : cLoop e ts cVariable [] with
  | error k => rw [hl] at h; cases h
  | ok r =>
    obtain ⟨st, cs1⟩ := r
    rw [hl] at h
    have hi := cLoop_inv e ts (CInv.start (e := e) [] (by simp)) hl
    by_cases hfin : (st.and_ || st.with_) = true
    · simp only [hfin, if_true, Except.ok.injEq] at h
      subst h
      cases hi with
      | start _ _ => simp [cVariable] at hfin
      | var _ _ _ _ => simp [cIs] at hfin
      | hedges _ _ _ _ _ _ => simp [cHedgeTerm] at hfin
      | done _ _ _ => rfl
    · simp [hfin] at h

/-! ## completeness -/

theorem cLoop_hedges (e : EngineInfo) (acc : List Conclusion) (v : String) : ∀ (hs hs0 : List String) (rest : List String),
    (∀ h ∈ hs, e.hedges.contains h = true) →
    cLoop e (hs ++ rest) cHedgeTerm (acc ++ [⟨v, hs0, none⟩]) = cLoop e rest cHedgeTerm (acc ++ [⟨v, hs0 ++ hs, none⟩])
  | [], hs0, rest, _ => by simp
  | h :: hs, hs0, rest, hh => by
    have hc := hh h (by simp)
    have ih := cLoop_hedges e acc v hs (hs0 ++ [h]) rest (fun x hx => hh x (by simp [hx]))
    simp only [List.cons_append, cLoop, cStep, cHedgeTerm, Bool.false_and, Bool.false_eq_true, if_false, Bool.true_and,
      hc, if_true, updLast_snoc]
    simpa [cHedgeTerm, List.append_assoc] using ih

/-- one conclusion is read back (its term must not be a hedge name, otherwise the machine takes it for a hedge) -/
theorem cLoop_conclusion (e : EngineInfo) (acc : List Conclusion) (v : String) (hs : List String) (t : String)
    (rest : List String) (hv : ConcValid e ⟨v, hs, some t⟩) (hnt : e.hedges.contains t = false) :
    cLoop e (concWords ⟨v, hs, some t⟩ ++ rest) cVariable acc = cLoop e rest cAndWith (acc ++ [⟨v, hs, some t⟩]) := by
  obtain ⟨hf, hh, t', ht', htm⟩ := hv
  simp only [Option.some.injEq] at ht'; subst ht'
  have e1 : concWords ⟨v, hs, some t⟩ ++ rest = v :: "is" :: (hs ++ (t :: rest)) := by simp [concWords]
  rw [e1]
  simp only [cLoop, cStep, cVariable, cIs, hf, Bool.true_and, if_true, Bool.false_and, Bool.false_eq_true, if_false,
    beq_self_eq_true]
  have := cLoop_hedges e acc v hs [] (t :: rest) hh
  simp only [List.nil_append] at this
  rw [this]
  have hl : (lastTerms e (acc ++ [(⟨v, hs, none⟩ : Conclusion)])).contains t = true := by rw [lastTerms_snoc]; exact htm
  simp only [cLoop, cStep, cHedgeTerm, Bool.false_and, Bool.false_eq_true, if_false, Bool.true_and, Bool.and_false, hnt, hl,
    if_true, updLast_snoc, cAndWith]

theorem cLoop_conclusions (e : EngineInfo) : ∀ (cs acc : List Conclusion), cs ≠ [] →
    (∀ c ∈ cs, ConcValid e c ∧ ∀ t, c.t = some t → e.hedges.contains t = false) →
    cLoop e (consTokens cs) cVariable acc = .ok (cAndWith, acc ++ cs)
  | [], _, h, _ => absurd rfl h
  | [c], acc, _, hv => by
    obtain ⟨hvc, hnt⟩ := hv c (by simp)
    obtain ⟨v, hs, t⟩ := c
    obtain ⟨_, _, t', ht', _⟩ := hvc
    simp only at ht'; subst ht'
    have := cLoop_conclusion e acc v hs t' [] (hv _ (by simp)).1 (hnt t' rfl)
    simp only [List.append_nil] at this
    simp [consTokens, this, cLoop]
  | c :: c' :: cs, acc, _, hv => by
    obtain ⟨hvc, hnt⟩ := hv c (by simp)
    obtain ⟨v, hs, t⟩ := c
    obtain ⟨_, _, t', ht', _⟩ := hvc
    simp only at ht'; subst ht'
    have h1 := cLoop_conclusion e acc v hs t' ("and" :: consTokens (c' :: cs)) (hv _ (by simp)).1 (hnt t' rfl)
    have ih := cLoop_conclusions e (c' :: cs) (acc ++ [⟨v, hs, some t'⟩]) (by simp)
      (fun x hx => hv x (by simp [List.mem_cons] at hx ⊢; exact Or.inr hx))
    rw [consTokens_cons2, h1]
    simp only [cLoop, cStep, cAndWith, Bool.false_and, Bool.false_eq_true, if_false, beq_self_eq_true, Bool.true_and,
      if_true]
    simpa [cVariable, cAndWith, List.append_assoc] using ih

/-- **completeness** -/
theorem consequentLoad_complete (e : EngineInfo) (cs : List Conclusion) (hne : cs ≠ [])
    (hv : ∀ c ∈ cs, ConcValid e c ∧ ∀ t, c.t = some t → e.hedges.contains t = false) :
    consequentLoadTokens e (consTokens cs) = .ok cs := by
  have := cLoop_conclusions e cs [] hne hv
  simp [consequentLoadTokens, this, cAndWith]

end Op
