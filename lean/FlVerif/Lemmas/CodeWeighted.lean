import FlVerif.Gen.CodeWeighted

/-! # Tie A for `Aggregated.grouped_terms`, `WeightedAverage.defuzzify`, `WeightedSum.defuzzify`: the definitions
translated from the current sources equal the models `Op.Weighted.groupedTerms`, `Op.Weighted.weightedAverage`,
`Op.Weighted.weightedSum` -/

namespace Py.Dict
open Op.Weighted

/-- the dictionary `grouped_terms` builds: every group under the name of its term -/
def ofGroups (gs : List (Act String Rat)) : List (String × Act String Rat) := gs.map (fun g => (g.1.name, g))

/-- a name that is not a key: `groups[name] = Activated(term, degree)` opens a group at the end -/
theorem set_new (agg : X Rat → X Rat → X Rat) (a : Act String Rat) : ∀ gs : List (Act String Rat),
    mem (ofGroups gs) a.1.name = false →
    set (ofGroups gs) a.1.name (a.1, setDegree a.2) = ofGroups (insertGroup agg a gs)
  | [], _ => rfl
  | g :: gs, h => by
    simp only [ofGroups, mem, List.map_cons, List.any_cons, Bool.or_eq_false_iff, beq_eq_false_iff_ne, ne_eq] at h
    have hne : ¬ a.1.name = g.1.name := fun e => h.1 e.symm
    have ih := set_new agg a gs (by simpa [ofGroups, mem] using h.2)
    simp only [ofGroups, List.map_cons, set, beq_iff_eq, h.1, if_false, insertGroup, hne] at ih ⊢
    rw [ih]

/-- a name that is a key: `groups[name]` is the group of that name, and storing the aggregated degree in it is
    the update of the model -/
theorem set_old (agg : X Rat → X Rat → X Rat) (a : Act String Rat) : ∀ gs : List (Act String Rat),
    mem (ofGroups gs) a.1.name = true →
    ∃ g, get (ofGroups gs) a.1.name = .ok g ∧
      set (ofGroups gs) a.1.name (g.1, setDegree (agg g.2 a.2)) = ofGroups (insertGroup agg a gs)
  | [], h => by simp [ofGroups, mem] at h
  | g :: gs, h => by
    by_cases hg : g.1.name = a.1.name
    · refine ⟨g, ?_, ?_⟩
      · simp [ofGroups, get, hg]
      · simp [ofGroups, set, insertGroup, hg]
    · have hne : ¬ a.1.name = g.1.name := fun e => hg e.symm
      have hm : mem (ofGroups gs) a.1.name = true := by
        simpa [ofGroups, mem, hg] using h
      obtain ⟨g', h1, h2⟩ := set_old agg a gs hm
      refine ⟨g', ?_, ?_⟩
      · simpa [ofGroups, get, hg] using h1
      · simp only [ofGroups, List.map_cons, set, beq_iff_eq, hg, if_false, insertGroup, hne] at h2 ⊢
        rw [h2]

end Py.Dict

namespace Op.Weighted
open Gen.Code Py.Dict Py.W

/-- the loop of the translated `grouped_terms` is the fold of the model -/
theorem code_groupedLoop (agg : Option (X Rat → X Rat → X Rat)) (terms : List (Act String Rat))
    (f : X Rat → X Rat → X Rat) : ∀ (as : List (Act String Rat)) (σ : Aggregated_grouped_terms.S)
      (gs : List (Act String Rat)), σ.aggregation = f → σ.groups = ofGroups gs →
      ∃ σ', Aggregated_grouped_terms.loop1 agg terms as σ = .ok σ' ∧
        σ'.groups = ofGroups (as.foldl (fun gs a => insertGroup f a gs) gs)
  | [], σ, gs, _, hg => ⟨σ, rfl, hg⟩
  | a :: as, σ, gs, hf, hg => by
    subst hf
    simp only [Aggregated_grouped_terms.loop1, List.foldl_cons, hg]
    cases hm : mem (ofGroups gs) a.1.name
    · simp only [Bool.not_false, if_true]
      exact code_groupedLoop agg terms σ.aggregation as
        { σ with activated := a, groups := set (ofGroups gs) a.1.name (a.1, setDegree a.2) }
        (insertGroup σ.aggregation a gs) rfl (set_new σ.aggregation a gs hm)
    · obtain ⟨g, h1, h2⟩ := set_old σ.aggregation a gs hm
      simp only [Bool.not_true, Bool.false_eq_true, if_false, h1, bind, Except.bind, Py.Dict.modify]
      exact code_groupedLoop agg terms σ.aggregation as
        { σ with activated := a, aggregated_term := a.1.name,
                 groups := set (ofGroups gs) a.1.name (g.1, setDegree (σ.aggregation g.2 a.2)) }
        (insertGroup σ.aggregation a gs) rfl h2

/-- **`Aggregated.grouped_terms` as translated from the source = the model `Op.Weighted.groupedTerms`**: the
    dictionary returned holds the groups of the model, in their order, each under the name of its term -/
theorem code_groupedTerms (agg : Option (X Rat → X Rat → X Rat)) (acts : List (Act String Rat)) :
    ∃ σ, Aggregated_grouped_terms.run agg acts {} = .ok σ ∧
      σ.ret = some ((groupedTerms agg acts).map (fun g => (g.1.name, g))) := by
  obtain ⟨σ', h1, h2⟩ := code_groupedLoop agg acts (aggregationOr agg) acts
    { ({} : Aggregated_grouped_terms.S) with aggregation := agg.getD Gen.Norm.UnboundedSum, groups := [] } [] rfl rfl
  refine ⟨{ σ' with ret := some σ'.groups }, ?_, ?_⟩
  · simp only [Aggregated_grouped_terms.run, bind, Except.bind]
    rw [h1]
  · simp only [h2, groupedTerms, ofGroups]

/-! ## the defuzzifiers -/

/-- the name `membership` is bound to -/
abbrev methodName (ty : WType) : String := if (ty == WType.tsukamoto) then "tsukamoto" else "membership"

/-- `activated.term.__getattribute__(membership)(w)` is `zOf` of the model -/
theorem callMethod_zOf (ty : WType) (t : WTerm String Rat) (w : X Rat) :
    callMethod t (methodName ty) w =
      match zOf ty t w with
      | .ok z => .ok z
      | .error e => .error (errToPy e) := by
  cases ty <;> simp [callMethod, zOf, methodName]; cases t.tsk <;> simp [errToPy]

/-- `scalar(0.0 if fuzzy_output.terms else nan)`, `scalar(0.0)` -/
theorem start_eq (acts : List (Act String Rat)) :
    start acts = (if (!acts.isEmpty) = true then X.fin 0 else X.nan, X.fin 0) := by
  cases acts <;> rfl

theorem ite_ok {ε α : Type} (c : Prop) [Decidable c] (a b : α) :
    (if c then (Except.ok a : Except ε α) else Except.ok b) = Except.ok (if c then a else b) := by
  split <;> rfl

/-- a result of the model and a result of the translated code agree: same exception class, or the same two sums -/
def SumsAgree {S : Type} (ws wt : S → X Rat) (r : Except Err (X Rat × X Rat)) (g : Py.M S) : Prop :=
  match r with
  | .error e => g = .error (errToPy e)
  | .ok s => ∃ σ', g = .ok σ' ∧ ws σ' = s.1 ∧ wt σ' = s.2

/-- the loop of the translated `WeightedAverage.defuzzify` is the loop of the model -/
theorem code_waLoop (ty₀ : WType) (term : Option Aggregated) (ty : WType) :
    ∀ (gs : List (Act String Rat)) (σ : WeightedAverage_defuzzify.S), σ.membership = methodName ty →
      SumsAgree (·.weighted_sum) (·.weights) (loop prod ty gs (σ.weighted_sum, σ.weights))
        (WeightedAverage_defuzzify.loop1 ty₀ term gs σ)
  | [], σ, _ => ⟨σ, rfl, rfl, rfl⟩
  | g :: gs, σ, hm => by
    have hc := callMethod_zOf ty g.1 g.2
    rw [← hm] at hc
    simp only [WeightedAverage_defuzzify.loop1, loop, hc]
    cases hz : zOf ty g.1 g.2 with
    | error e => simp only [SumsAgree, bind, Except.bind]
    | ok z =>
      simp only [bind, Except.bind]
      exact code_waLoop ty₀ term ty gs
        { σ with activated := g, w := g.2, z := z,
                 weighted_sum := X.add σ.weighted_sum (X.sel (X.eq g.2 (.fin 0)) (.fin 0) (X.mul g.2 z)),
                 weights := X.add σ.weights g.2 } hm

theorem code_weightedAverage_from (ty : WType) (agg : Option (X Rat → X Rat → X Rat)) (acts : List (Act String Rat))
    (σ₀ : WeightedAverage_defuzzify.S) :
    match weightedAverage ty agg acts with
    | .error e => WeightedAverage_defuzzify.run ty (some ⟨agg, acts⟩) σ₀ = .error (errToPy e)
    | .ok y => ∃ σ, WeightedAverage_defuzzify.run ty (some ⟨agg, acts⟩) σ₀ = .ok σ ∧ σ.ret = some y := by
  -- what follows the choice of the type, for any type
  have tail : ∀ ty₀ t : WType,
      match (loop prod t (groupedTerms agg acts) (start acts) >>= fun s => pure (X.div s.1 s.2)) with
      | .error e =>
        (WeightedAverage_defuzzify.loop1 ty₀ (some ⟨agg, acts⟩) (groupedTerms agg acts)
          { σ₀ with fuzzy_output := some ⟨agg, acts⟩, this_type := t,
                    weighted_sum := (if (!acts.isEmpty) = true then X.fin 0 else X.nan), weights := X.fin 0,
                    membership := methodName t } >>= fun σ =>
          Except.ok { σ with y := X.div σ.weighted_sum σ.weights, ret := some (X.div σ.weighted_sum σ.weights) })
          = .error (errToPy e)
      | .ok y => ∃ σ',
        (WeightedAverage_defuzzify.loop1 ty₀ (some ⟨agg, acts⟩) (groupedTerms agg acts)
          { σ₀ with fuzzy_output := some ⟨agg, acts⟩, this_type := t,
                    weighted_sum := (if (!acts.isEmpty) = true then X.fin 0 else X.nan), weights := X.fin 0,
                    membership := methodName t } >>= fun σ =>
          Except.ok { σ with y := X.div σ.weighted_sum σ.weights, ret := some (X.div σ.weighted_sum σ.weights) })
          = .ok σ' ∧ σ'.ret = some y := by
    intro ty₀ t
    have hl := code_waLoop ty₀ (some ⟨agg, acts⟩) t (groupedTerms agg acts)
      { σ₀ with fuzzy_output := some ⟨agg, acts⟩, this_type := t,
                weighted_sum := (if (!acts.isEmpty) = true then X.fin 0 else X.nan), weights := X.fin 0,
                membership := methodName t } rfl
    simp only [← start_eq] at hl
    cases hloop : loop prod t (groupedTerms agg acts) (start acts) with
    | error e =>
      rw [hloop] at hl
      simp only [SumsAgree] at hl
      simp only [hl, bind, Except.bind]
    | ok s =>
      rw [hloop] at hl
      obtain ⟨σ', h1, h2, h3⟩ := hl
      simp only [h1, bind, Except.bind, pure, Except.pure]
      exact ⟨_, rfl, by simp only [h2, h3]⟩
  simp only [weightedAverage, weightedAverageWith, resolveType, WeightedAverage_defuzzify.run, Option.isSome_some,
    Bool.not_true, Bool.false_eq_true, if_false, Py.deref_some, bind, Except.bind, pure, Except.pure, ite_ok] at tail ⊢
  cases ty
  · simp only [beq_self_eq_true, if_true, Py.W.inferType]
    cases hi : inferType acts with
    | error e => simp only []
    | ok t => simp only []; exact tail _ t
  · exact tail _ _
  · exact tail _ _

/-- the loop of the translated `WeightedSum.defuzzify` is the loop of the model -/
theorem code_wsLoop (ty₀ : WType) (term : Option Aggregated) (ty : WType) :
    ∀ (gs : List (Act String Rat)) (σ : WeightedSum_defuzzify.S), σ.membership = methodName ty →
      SumsAgree (·.weighted_sum) (·.weights) (loop prod ty gs (σ.weighted_sum, σ.weights))
        (WeightedSum_defuzzify.loop1 ty₀ term gs σ)
  | [], σ, _ => ⟨σ, rfl, rfl, rfl⟩
  | g :: gs, σ, hm => by
    have hc := callMethod_zOf ty g.1 g.2
    rw [← hm] at hc
    simp only [WeightedSum_defuzzify.loop1, loop, hc]
    cases hz : zOf ty g.1 g.2 with
    | error e => simp only [SumsAgree, bind, Except.bind]
    | ok z =>
      simp only [bind, Except.bind]
      exact code_wsLoop ty₀ term ty gs
        { σ with activated := g, w := g.2, z := z,
                 weighted_sum := X.add σ.weighted_sum (X.sel (X.eq g.2 (.fin 0)) (.fin 0) (X.mul g.2 z)),
                 weights := X.add σ.weights g.2 } hm

theorem code_weightedSum_from (ty : WType) (agg : Option (X Rat → X Rat → X Rat)) (acts : List (Act String Rat))
    (σ₀ : WeightedSum_defuzzify.S) :
    match weightedSum ty agg acts with
    | .error e => WeightedSum_defuzzify.run ty (some ⟨agg, acts⟩) σ₀ = .error (errToPy e)
    | .ok y => ∃ σ, WeightedSum_defuzzify.run ty (some ⟨agg, acts⟩) σ₀ = .ok σ ∧ σ.ret = some y := by
  -- what follows the choice of the type, for any type
  have tail : ∀ ty₀ t : WType,
      match (loop prod t (groupedTerms agg acts) (start acts) >>= fun s => pure (X.mul (X.div s.1 s.2) s.2)) with
      | .error e =>
        (WeightedSum_defuzzify.loop1 ty₀ (some ⟨agg, acts⟩) (groupedTerms agg acts)
          { σ₀ with fuzzy_output := some ⟨agg, acts⟩, this_type := t,
                    weighted_sum := (if (!acts.isEmpty) = true then X.fin 0 else X.nan), weights := X.fin 0,
                    membership := methodName t } >>= fun σ =>
          Except.ok { σ with y := X.mul (X.div σ.weighted_sum σ.weights) σ.weights, ret := some (X.mul (X.div σ.weighted_sum σ.weights) σ.weights) })
          = .error (errToPy e)
      | .ok y => ∃ σ',
        (WeightedSum_defuzzify.loop1 ty₀ (some ⟨agg, acts⟩) (groupedTerms agg acts)
          { σ₀ with fuzzy_output := some ⟨agg, acts⟩, this_type := t,
                    weighted_sum := (if (!acts.isEmpty) = true then X.fin 0 else X.nan), weights := X.fin 0,
                    membership := methodName t } >>= fun σ =>
          Except.ok { σ with y := X.mul (X.div σ.weighted_sum σ.weights) σ.weights, ret := some (X.mul (X.div σ.weighted_sum σ.weights) σ.weights) })
          = .ok σ' ∧ σ'.ret = some y := by
    intro ty₀ t
    have hl := code_wsLoop ty₀ (some ⟨agg, acts⟩) t (groupedTerms agg acts)
      { σ₀ with fuzzy_output := some ⟨agg, acts⟩, this_type := t,
                weighted_sum := (if (!acts.isEmpty) = true then X.fin 0 else X.nan), weights := X.fin 0,
                membership := methodName t } rfl
    simp only [← start_eq] at hl
    cases hloop : loop prod t (groupedTerms agg acts) (start acts) with
    | error e =>
      rw [hloop] at hl
      simp only [SumsAgree] at hl
      simp only [hl, bind, Except.bind]
    | ok s =>
      rw [hloop] at hl
      obtain ⟨σ', h1, h2, h3⟩ := hl
      simp only [h1, bind, Except.bind, pure, Except.pure]
      exact ⟨_, rfl, by simp only [h2, h3]⟩
  simp only [weightedSum, weightedSumWith, resolveType, WeightedSum_defuzzify.run, Option.isSome_some,
    Bool.not_true, Bool.false_eq_true, if_false, Py.deref_some, bind, Except.bind, pure, Except.pure, ite_ok] at tail ⊢
  cases ty
  · simp only [beq_self_eq_true, if_true, Py.W.inferType]
    cases hi : inferType acts with
    | error e => simp only []
    | ok t => simp only []; exact tail _ t
  · exact tail _ _
  · exact tail _ _

/-- **`WeightedAverage.defuzzify` as translated from the source = the model `Op.Weighted.weightedAverage`** -/
theorem code_weightedAverage (ty : WType) (agg : Option (X Rat → X Rat → X Rat)) (acts : List (Act String Rat)) :
    (match weightedAverage ty agg acts with
     | .error e => WeightedAverage_defuzzify.run ty (some ⟨agg, acts⟩) {} = .error (errToPy e)
     | .ok y => ∃ σ, WeightedAverage_defuzzify.run ty (some ⟨agg, acts⟩) {} = .ok σ ∧ σ.ret = some y) ∧
    WeightedAverage_defuzzify.run ty none {} = .error .value :=
  ⟨code_weightedAverage_from ty agg acts {}, rfl⟩

/-- **`WeightedSum.defuzzify` as translated from the source = the model `Op.Weighted.weightedSum`** -/
theorem code_weightedSum (ty : WType) (agg : Option (X Rat → X Rat → X Rat)) (acts : List (Act String Rat)) :
    (match weightedSum ty agg acts with
     | .error e => WeightedSum_defuzzify.run ty (some ⟨agg, acts⟩) {} = .error (errToPy e)
     | .ok y => ∃ σ, WeightedSum_defuzzify.run ty (some ⟨agg, acts⟩) {} = .ok σ ∧ σ.ret = some y) ∧
    WeightedSum_defuzzify.run ty none {} = .error .value :=
  ⟨code_weightedSum_from ty agg acts {}, rfl⟩

end Op.Weighted
