import FlVerif.Lemmas.CodeFllExport

/-! # Tie A for the FLL exporter, part 2: `FllExporter.variable / input_variable / output_variable / rule_block /
engine` – the regenerated functions return the text of the lines of the model (`varHead`, `inputLines`,
`outputLines`, `blockLines`, `fllExport`) -/

namespace Py.Fll
open Op.FllIO Dec Gen.Code

/-! ### one formatted line = the text of one model line -/

theorem format_text (d : ℕ) (k : Key) (key : String) (hk : k.text = key) (hne : key ≠ "") (s : String) :
    format d key (.str s) = Line.body d ⟨k, textToks s⟩ := by
  rw [format_key _ _ _ hne, Line.body, hk, joinSp_eq]
  by_cases h : s = "" <;> simp [pieces, textToks, h]

theorem format_word (d : ℕ) (k : Key) (key : String) (hk : k.text = key) (hne : key ≠ "") (s : String) (hs : s ≠ "") :
    format d key (.str s) = Line.body d ⟨k, [.w s]⟩ := by
  rw [format_text d k key hk hne]; simp [textToks, hs]

theorem format_bool (d : ℕ) (k : Key) (key : String) (hk : k.text = key) (hne : key ≠ "") (b : Bool) :
    format d key (.bool b) = Line.body d ⟨k, [boolTok b]⟩ := by
  rw [format_key _ _ _ hne, Line.body, hk, joinSp_eq]
  simp [pieces, boolTok]

theorem format_num (c : Cfg) (k : Key) (key : String) (hk : k.text = key) (hne : key ≠ "") (x : Num) :
    format c.d key (.num x) = Line.body c.d ⟨k, [numTok c x]⟩ := by
  rw [format_key _ _ _ hne, Line.body, hk, joinSp_eq]
  simp [pieces, render_numTok]

theorem format_num2 (c : Cfg) (k : Key) (key : String) (hk : k.text = key) (hne : key ≠ "") (x y : Num) :
    format c.d key (.tuple [.num x, .num y]) = Line.body c.d ⟨k, [numTok c x, numTok c y]⟩ := by
  rw [format_key _ _ _ hne, Line.body, hk, joinSp_eq]
  simp [pieces, piecesL_num, piecesL_nil, render_numTok]

/-- a value that is the joined text of non-empty tokens -/
theorem format_toks (d : ℕ) (k : Key) (key : String) (hk : k.text = key) (hne : key ≠ "") (ts : List Tok)
    (h0 : ts ≠ []) (h : ∀ s ∈ ts.map (Tok.render d), s ≠ "") :
    format d key (.str (Py.joinSp (ts.map (Tok.render d)))) = Line.body d ⟨k, ts⟩ := by
  rw [format_key _ _ _ hne, Line.body, hk, joinSp_eq]
  simp only [pieces]
  have := join_tail [key ++ ":"] _ h
  have hm : ts.map (Tok.render d) ≠ [] := by simpa using h0
  cases hts : ts.map (Tok.render d) with
  | nil => exact absurd hts hm
  | cons x r =>
    rw [hts] at this h
    have hx := join_cons_ne " " x r (h x (by simp))
    simp only [hx, if_false] at this ⊢
    simpa [joinSp_eq] using this

theorem format_norm (d : ℕ) (k : Key) (key : String) (hk : k.text = key) (hne : key ≠ "") (o : Option String)
    (ho : normNamed o) : format d key (.str (normText o)) = Line.body d ⟨k, [normTok o]⟩ := by
  have hs : normText o ≠ "" := by
    cases o with
    | none => simp [normText]
    | some s => simpa [normText, normNamed] using ho
  rw [format_word d k key hk hne _ hs]; rfl

theorem format_defuzz (d : ℕ) (x : Option Defuzz) (hx : defuzzNamed x) :
    format d "defuzzifier" (.str (defuzzText d x)) = Line.body d ⟨.defuzzifier, defuzzToks x⟩ := by
  apply format_toks d .defuzzifier "defuzzifier" rfl (by decide)
  · cases x with
    | none => simp [defuzzToks]
    | some x => simp [defuzzToks_some]
  · cases x with
    | none => simp [defuzzToks]
    | some x =>
      intro s hs
      rw [defuzzToks_some, List.map_cons, List.mem_cons] at hs
      rcases hs with rfl | hs
      · exact defuzzCls_ne x hx
      · exact defuzzParams_ne d x hx s hs

theorem format_activ (c : Cfg) (a : Option Activ) (ha : activNamed a) :
    format c.d "activation" (.str (activText c a)) = Line.body c.d ⟨.activation, activToks c a⟩ := by
  apply format_toks c.d .activation "activation" rfl (by decide)
  · cases a with
    | none => simp [activToks]
    | some a => simp [activToks_some]
  · cases a with
    | none => simp [activToks]
    | some a =>
      intro s hs
      rw [activToks_some, List.map_cons, List.mem_cons] at hs
      rcases hs with rfl | hs
      · exact activCls_ne a ha
      · exact activParams_ne c a ha s hs

/-! ### `FllExporter.variable`, `input_variable` -/

theorem code_fllExportVariable (c : Cfg) (indent sep : String) (hdr : Key) (v : Var) (terms : Bool)
    (hh : hdr.text ≠ "") :
    ∃ σ, FllExporter_variable.run c indent sep hdr v terms {} = .ok σ ∧
      σ.ret = some (variableText c indent sep hdr v terms) := by
  unfold FllExporter_variable.run variableText varHead
  simp only [format_text c.d hdr _ rfl hh, format_bool c.d .enabled "enabled" rfl (by decide),
    format_bool c.d .lockRange "lock-range" rfl (by decide), format_num2 c .range "range" rfl (by decide)]
  by_cases hd : v.description = ""
  · cases terms <;> cases hts : v.terms <;> simp [hd, blockStrs, termText, Function.comp_def]
  · simp only [format_word c.d .description "description" rfl (by decide) _ hd]
    cases terms <;> cases hts : v.terms <;> simp [hd, blockStrs, termText, Function.comp_def]

theorem code_fllExportInputVariable (c : Cfg) (indent sep : String) (v : Var) :
    ∃ σ, FllExporter_input_variable.run c indent sep v {} = .ok σ ∧ σ.ret = some (inputText c indent sep v) := by
  refine ⟨_, rfl, ?_⟩
  simp [variableText, inputText, inputLines]

/-! ### `FllExporter.output_variable` -/

theorem blockStrs_varHead_append (c : Cfg) (indent : String) (hdr : Key) (v : Var) (R : List Line) :
    blockStrs indent c.d (varHead c hdr v ++ R) =
      blockStrs indent c.d (varHead c hdr v) ++ R.map (fun l => indent ++ Line.body c.d l) := by
  simp [varHead, blockStrs]

theorem code_fllExportOutputVariable (c : Cfg) (indent sep : String) (o : OutVar)
    (ha : normNamed o.aggregation) (hd : defuzzNamed o.defuzzifier) :
    ∃ σ, FllExporter_output_variable.run c indent sep o {} = .ok σ ∧ σ.ret = some (outputText c indent sep o) := by
  have hH : blockStrs indent c.d (varHead c .outputVariable o.base) ≠ [] := by simp [varHead, blockStrs]
  have key : ∀ R : List Line,
      join sep ([variableText c indent sep .outputVariable o.base false] ++ R.map (fun l => indent ++ Line.body c.d l)) =
        join sep (blockStrs indent c.d (varHead c .outputVariable o.base ++ R)) := by
    intro R
    have := join_group sep [] (blockStrs indent c.d (varHead c .outputVariable o.base))
      (R.map (fun l => indent ++ Line.body c.d l)) hH
    rw [blockStrs_varHead_append]
    simpa [variableText] using this
  unfold FllExporter_output_variable.run outputText outputLines
  simp only [format_norm c.d .aggregation "aggregation" rfl (by decide) _ ha, format_defuzz c.d _ hd,
    format_num c .default "default" rfl (by decide), format_bool c.d .lockPrevious "lock-previous" rfl (by decide)]
  cases hts : o.base.terms with
  | nil =>
    refine ⟨_, rfl, ?_⟩
    have := key [⟨.aggregation, [normTok o.aggregation]⟩, ⟨.defuzzifier, defuzzToks o.defuzzifier⟩,
      ⟨.default, [numTok c o.default]⟩, ⟨.lockPrevious, [boolTok o.lockPrevious]⟩]
    simpa using this
  | cons t ts =>
    refine ⟨_, rfl, ?_⟩
    have := key ([⟨.aggregation, [normTok o.aggregation]⟩, ⟨.defuzzifier, defuzzToks o.defuzzifier⟩,
      ⟨.default, [numTok c o.default]⟩, ⟨.lockPrevious, [boolTok o.lockPrevious]⟩] ++
      (t :: ts).map (termLine (keepHeight c) c))
    simpa [termText, Function.comp_def] using this

/-! ### `FllExporter.rule_block` -/

theorem code_fllExportRuleBlock (c : Cfg) (indent sep : String) (b : Block) (hb : blockNamed b) :
    ∃ σ, FllExporter_rule_block.run c indent sep b {} = .ok σ ∧ σ.ret = some (blockText c indent sep b) := by
  obtain ⟨h1, h2, h3, h4⟩ := hb
  unfold FllExporter_rule_block.run blockText blockLines
  simp only [format_text c.d .ruleBlock _ rfl (by decide), format_bool c.d .enabled "enabled" rfl (by decide),
    format_norm c.d .conjunction "conjunction" rfl (by decide) _ h1,
    format_norm c.d .disjunction "disjunction" rfl (by decide) _ h2,
    format_norm c.d .implication "implication" rfl (by decide) _ h3, format_activ c _ h4]
  by_cases hd : b.description = ""
  · cases hts : b.rules <;> simp [hd, blockStrs, ruleLineText, Function.comp_def]
  · simp only [format_word c.d .description "description" rfl (by decide) _ hd]
    cases hts : b.rules <;> simp [hd, blockStrs, ruleLineText, Function.comp_def]

/-! ### `FllExporter.engine` -/

/-- a header line followed by lines that are not headers -/
def IsBlock (ls : List Line) : Prop :=
  ∃ h t, ls = h :: t ∧ isHeader h.key = true ∧ ∀ l ∈ t, isHeader l.key = false

theorem blockStrs_isBlock (indent : String) (d : ℕ) (ls : List Line) (h : IsBlock ls) :
    blockStrs indent d ls = ls.map (lineText indent d) ∧ ls.map (lineText indent d) ≠ [] := by
  obtain ⟨hd, t, rfl, hh, ht⟩ := h
  refine ⟨?_, by simp⟩
  simp only [blockStrs, List.map_cons, lineText, hh, if_true, String.empty_append, List.cons.injEq, true_and]
  apply List.map_congr_left
  intro l hl
  simp [lineText, ht l hl]

theorem termLine_notHeader (keep : Num → Bool) (c : Cfg) (t : Term) : isHeader (termLine keep c t).key = false := rfl
theorem ruleLine_notHeader (keep : Num → Bool) (c : Cfg) (r : Rule) : isHeader (ruleLine keep c r).key = false := rfl

theorem varHead_isBlock (c : Cfg) (hdr : Key) (hh : isHeader hdr = true) (v : Var) (R : List Line)
    (hR : ∀ l ∈ R, isHeader l.key = false) : IsBlock (varHead c hdr v ++ R) := by
  have e : varHead c hdr v ++ R = ⟨hdr, textToks v.name⟩ ::
      (((if v.description = "" then [] else [⟨.description, [.w v.description]⟩]) ++
        [⟨.enabled, [boolTok v.enabled]⟩, ⟨.range, [numTok c v.lo, numTok c v.hi]⟩, ⟨.lockRange, [boolTok v.lockRange]⟩]) ++ R) := by
    simp [varHead]
  refine ⟨⟨hdr, textToks v.name⟩, _, e, hh, ?_⟩
  intro l hl
  simp only [List.mem_append] at hl
  rcases hl with (hl | hl) | hl
  · split at hl
    · simp at hl
    · simp only [List.mem_singleton] at hl; subst hl; rfl
  · simp only [List.mem_cons, List.not_mem_nil, or_false] at hl
    rcases hl with rfl | rfl | rfl <;> rfl
  · exact hR l hl

theorem inputLines_isBlock (keep : Num → Bool) (c : Cfg) (v : Var) : IsBlock (inputLines keep c v) := by
  apply varHead_isBlock c .inputVariable rfl
  intro l hl
  simp only [List.mem_map] at hl
  obtain ⟨t, _, rfl⟩ := hl; rfl

theorem outputLines_isBlock (keep : Num → Bool) (c : Cfg) (o : OutVar) : IsBlock (outputLines keep c o) := by
  unfold outputLines
  rw [List.append_assoc]
  apply varHead_isBlock c .outputVariable rfl
  intro l hl
  rw [List.mem_append] at hl
  rcases hl with hl | hl
  · simp only [List.mem_cons, List.not_mem_nil, or_false] at hl
    rcases hl with rfl | rfl | rfl | rfl <;> rfl
  · simp only [List.mem_map] at hl
    obtain ⟨t, _, rfl⟩ := hl; rfl

theorem blockLines_isBlock (keep : Num → Bool) (c : Cfg) (b : Block) : IsBlock (blockLines keep c b) := by
  have e : blockLines keep c b = ⟨.ruleBlock, textToks b.name⟩ ::
      (((if b.description = "" then [] else [⟨.description, [.w b.description]⟩]) ++
        [⟨.enabled, [boolTok b.enabled]⟩, ⟨.conjunction, [normTok b.conjunction]⟩,
         ⟨.disjunction, [normTok b.disjunction]⟩, ⟨.implication, [normTok b.implication]⟩,
         ⟨.activation, activToks c b.activation⟩]) ++ b.rules.map (ruleLine keep c)) := by
    simp [blockLines]
  refine ⟨⟨.ruleBlock, textToks b.name⟩, _, e, rfl, ?_⟩
  intro l hl
  simp only [List.mem_append] at hl
  rcases hl with (hl | hl) | hl
  · split at hl
    · simp at hl
    · simp only [List.mem_singleton] at hl; subst hl; rfl
  · simp only [List.mem_cons, List.not_mem_nil, or_false] at hl
    rcases hl with rfl | rfl | rfl | rfl | rfl <;> rfl
  · simp only [List.mem_map] at hl
    obtain ⟨r, _, rfl⟩ := hl; rfl

theorem engineHead_isBlock (e : Engine) : IsBlock (engineHead e) := by
  refine ⟨⟨.engine, textToks e.name⟩, _, rfl, rfl, ?_⟩
  intro l hl
  split at hl
  · simp at hl
  · simp only [List.mem_singleton] at hl; subst hl; rfl

theorem inputText_eq (c : Cfg) (indent sep : String) (v : Var) :
    inputText c indent sep v = join sep ((inputLines (keepHeight c) c v).map (lineText indent c.d)) := by
  rw [inputText, (blockStrs_isBlock indent c.d _ (inputLines_isBlock _ c v)).1]

theorem outputText_eq (c : Cfg) (indent sep : String) (o : OutVar) :
    outputText c indent sep o = join sep ((outputLines (keepHeight c) c o).map (lineText indent c.d)) := by
  rw [outputText, (blockStrs_isBlock indent c.d _ (outputLines_isBlock _ c o)).1]

theorem blockText_eq (c : Cfg) (indent sep : String) (b : Block) :
    blockText c indent sep b = join sep ((blockLines (keepHeight c) c b).map (lineText indent c.d)) := by
  rw [blockText, (blockStrs_isBlock indent c.d _ (blockLines_isBlock _ c b)).1]

theorem code_fllExportEngine (c : Cfg) (indent sep : String) (e : Engine) :
    ∃ σ, FllExporter_engine.run c indent sep e {} = .ok σ ∧
      σ.ret = some (join sep ((fllExport c e).map (lineText indent c.d) ++ [""])) := by
  -- the component texts as joined groups of lines
  let G : List (List String) :=
    e.inputs.map (fun v => (inputLines (keepHeight c) c v).map (lineText indent c.d)) ++
    e.outputs.map (fun o => (outputLines (keepHeight c) c o).map (lineText indent c.d)) ++
    e.blocks.map (fun b => (blockLines (keepHeight c) c b).map (lineText indent c.d))
  have hG : ∀ g ∈ G, g ≠ [] := by
    intro g hg
    simp only [G, List.mem_append, List.mem_map] at hg
    rcases hg with (⟨v, _, rfl⟩ | ⟨o, _, rfl⟩) | ⟨b, _, rfl⟩
    · exact (blockStrs_isBlock indent c.d _ (inputLines_isBlock _ c v)).2
    · exact (blockStrs_isBlock indent c.d _ (outputLines_isBlock _ c o)).2
    · exact (blockStrs_isBlock indent c.d _ (blockLines_isBlock _ c b)).2
  have hmap : G.map (join sep) =
      e.inputs.map (inputText c indent sep) ++ e.outputs.map (outputText c indent sep) ++
        e.blocks.map (blockText c indent sep) := by
    simp only [G, List.map_append, List.map_map, Function.comp_def, ← inputText_eq, ← outputText_eq, ← blockText_eq]
  have hflat : (engineHead e).map (lineText indent c.d) ++ G.flatten =
      (fllExport c e).map (lineText indent c.d) := by
    simp only [G, fllExport, exportWith, List.map_append, List.map_flatten, List.map_map, List.flatten_append,
      Function.comp_def, List.append_assoc]
  have hhead : (engineHead e).map (lineText indent c.d) =
      Line.body c.d ⟨.engine, textToks e.name⟩ ::
        (if e.description = "" then [] else [indent ++ Line.body c.d ⟨.description, [.w e.description]⟩]) := by
    rw [← (blockStrs_isBlock indent c.d _ (engineHead_isBlock e)).1]
    unfold engineHead
    by_cases hd : e.description = "" <;> simp [hd, blockStrs]
  have key := join_groups sep ((engineHead e).map (lineText indent c.d)) G [""] hG
  rw [hmap, hflat, hhead] at key
  unfold FllExporter_engine.run
  simp only [format_text c.d .engine _ rfl (by decide)]
  by_cases hd : e.description = ""
  · refine ⟨_, by simp only [hd, bne_self_eq_false, Bool.false_eq_true, if_false]; rfl, ?_⟩
    simp only [hd, if_true] at key
    simpa [List.append_assoc] using key
  · simp only [format_word c.d .description "description" rfl (by decide) _ hd]
    refine ⟨_, by simp only [bne_iff_ne, ne_eq, hd, not_false_eq_true, if_true]; rfl, ?_⟩
    simp only [hd, if_false] at key
    simpa [List.append_assoc] using key

/-! ### the text of the ties is the text the driver renders (`Op.FllIO.renderLines`, compared with the real
exporter's output by the correspondence runs) for the default indent and separator -/

theorem lineText_default (d : ℕ) (l : Line) : lineText "  " d l = Line.render d l := by
  unfold lineText Line.render Line.body
  rw [joinSp_eq]
  cases hts : l.toks with
  | nil => simp [join_singleton, String.append_assoc]
  | cons t ts =>
    have : join " " ((l.key.text ++ ":") :: List.map (Tok.render d) (t :: ts)) =
        (l.key.text ++ ":") ++ " " ++ " ".intercalate (List.map (Tok.render d) (t :: ts)) := by
      rw [join, List.map_cons, String.intercalate_cons_cons]
    rw [this]
    simp only [hts, String.append_assoc, List.map_cons, if_false, reduceCtorEq]

theorem engine_text_default (c : Cfg) (e : Engine) :
    join "\n" ((fllExport c e).map (lineText "  " c.d) ++ [""]) = renderLines c.d (fllExport c e) := by
  unfold renderLines join
  congr 2
  exact List.map_congr_left (fun l _ => lineText_default c.d l)

end Py.Fll
