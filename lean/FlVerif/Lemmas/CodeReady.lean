import FlVerif.Gen.CodeReady

/-! # Tie A for `Engine.is_ready`: the definition translated from the current source equals the model `Op.Ready.isReady`

One lemma per loop of the generated code (`loop4`: conclusions of a rule, `loop3`: rules of a block, `loop2`: rule
blocks, `loop1`: output variables), each stated as "the loop succeeds and the fields that matter afterwards are …".
Core Lean only. -/

namespace Op.Ready
open Gen.Code

/-! ## small facts -/

theorem enumerate_eq_enumFrom {β : Type} : ∀ (l : List β) (k : Nat),
    (l.zipIdx k).map (fun p => (p.2, p.1)) = enumFrom k l
  | [], _ => rfl
  | x :: xs, k => by
    simp only [List.zipIdx_cons, List.map_cons, enumFrom]
    rw [enumerate_eq_enumFrom xs (k + 1)]

theorem pyEnumerate_eq {β : Type} (l : List β) : Py.enumerate l = enumFrom 0 l :=
  enumerate_eq_enumFrom l 0

theorem enumFrom_isEmpty {β : Type} (k : Nat) (l : List β) : (enumFrom k l).isEmpty = l.isEmpty := by
  cases l <;> rfl

theorem add_toNat_ne_zero (n : Nat) (b : Bool) : (n + b.toNat != 0) = (n != 0 || b) := by
  cases b
  · simp
  · cases n <;> simp

theorem isSome_and_isIntegral (outs : List Output) (i : Nat) :
    ((outs[i]?).isSome && isIntegral outs i) = isIntegral outs i := by
  unfold isIntegral
  cases outs[i]? <;> simp

/-! ## the loops -/

/-- `for consequent in rule.consequent.conclusions`: counts the conclusions on an integral output -/
theorem code_loop4 (e : Engine) (eo : Option (List Err)) : ∀ (cs : List Nat) (σ : Engine_is_ready.S),
    ∃ σ', Engine_is_ready.loop4 e eo cs σ = .ok σ' ∧ σ'.errors = σ.errors ∧ σ'.index = σ.index ∧
      σ'.rule_block = σ.rule_block ∧ σ'.conjunction_needed = σ.conjunction_needed ∧
      σ'.disjunction_needed = σ.disjunction_needed ∧ σ'.implication_needed = σ.implication_needed ∧
      decide (σ'.mamdani_consequents > 0) = (decide (σ.mamdani_consequents > 0) || cs.any (isIntegral e.outputs))
  | [], σ => ⟨σ, rfl, rfl, rfl, rfl, rfl, rfl, rfl, by simp⟩
  | c :: cs, σ => by
    simp only [Engine_is_ready.loop4]
    obtain ⟨σ', h, h1, h2, h3, h4, h5, h6, h7⟩ := code_loop4 e eo cs
      { σ with consequent := c,
               mamdani_consequents := σ.mamdani_consequents + ((e.outputs[c]?).isSome && isIntegral e.outputs c).toNat }
    refine ⟨σ', h, h1, h2, h3, h4, h5, h6, ?_⟩
    rw [h7, isSome_and_isIntegral]
    simp only [List.any_cons]
    cases isIntegral e.outputs c <;> simp <;> omega

/-- `for rule in rule_block.rules`: the three `…_needed` counters (only "positive" matters) -/
theorem code_loop3 (e : Engine) (eo : Option (List Err)) : ∀ (rs : List Rule) (σ : Engine_is_ready.S),
    ∃ σ', Engine_is_ready.loop3 e eo rs σ = .ok σ' ∧ σ'.errors = σ.errors ∧ σ'.index = σ.index ∧
      σ'.rule_block = σ.rule_block ∧
      (σ'.conjunction_needed != 0) = (σ.conjunction_needed != 0 || rs.any (·.textAnd)) ∧
      (σ'.disjunction_needed != 0) = (σ.disjunction_needed != 0 || rs.any (·.textOr)) ∧
      (σ'.implication_needed != 0) = (σ.implication_needed != 0 || rs.any (fun r => r.loaded && mamdani e.outputs r))
  | [], σ => ⟨σ, rfl, rfl, rfl, rfl, by simp, by simp, by simp⟩
  | r :: rs, σ => by
    simp only [Engine_is_ready.loop3]
    cases hl : r.loaded with
    | false =>
      simp only [Bool.false_eq_true, if_false]
      obtain ⟨σ', h, h1, h2, h3, h4, h5, h6⟩ := code_loop3 e eo rs
        { σ with rule := r, conjunction_needed := σ.conjunction_needed + r.textAnd.toNat,
                 disjunction_needed := σ.disjunction_needed + r.textOr.toNat }
      refine ⟨σ', h, h1, h2, h3, ?_, ?_, ?_⟩
      · rw [h4, add_toNat_ne_zero]; simp only [List.any_cons, Bool.or_assoc]
      · rw [h5, add_toNat_ne_zero]; simp only [List.any_cons, Bool.or_assoc]
      · rw [h6]; simp only [List.any_cons, hl, Bool.false_and, Bool.false_or]
    | true =>
      simp only [if_true]
      obtain ⟨σ4, g, g1, g2, g3, g4, g5, g6, g7⟩ := code_loop4 e eo r.concls
        { σ with rule := r, conjunction_needed := σ.conjunction_needed + r.textAnd.toNat,
                 disjunction_needed := σ.disjunction_needed + r.textOr.toNat, mamdani_consequents := 0 }
      simp only [g, bind, Except.bind]
      obtain ⟨σ', h, h1, h2, h3, h4, h5, h6⟩ := code_loop3 e eo rs
        { σ4 with implication_needed := σ4.implication_needed + (decide (σ4.mamdani_consequents > 0)).toNat }
      refine ⟨σ', h, h1.trans g1, h2.trans g2, h3.trans g3, ?_, ?_, ?_⟩
      · rw [h4]; simp only [g4]; rw [add_toNat_ne_zero]; simp only [List.any_cons, Bool.or_assoc]
      · rw [h5]; simp only [g5]; rw [add_toNat_ne_zero]; simp only [List.any_cons, Bool.or_assoc]
      · rw [h6]; simp only [g6]; rw [add_toNat_ne_zero, g7]
        simp only [List.any_cons, hl, Bool.true_and, mamdani, Bool.or_assoc, Nat.lt_irrefl, decide_false, Bool.false_or,
          gt_iff_lt]

/-- the body of the rule-block loop after the counters are known: the three independent operator tests -/
theorem blockErrors_eq (outs : List Output) (i : Nat) (b : Block) :
    blockErrors outs i b =
      (if b.rules.isEmpty then [Err.noRules i] else [])
      ++ ((if conjNeeded b && !b.conj then [Err.noConjunction i] else [])
      ++ ((if disjNeeded b && !b.disj then [Err.noDisjunction i] else [])
      ++ (if implNeeded outs b && !b.impl then [Err.noImplication i] else []))) := by
  simp only [blockErrors, List.append_assoc]

/-- using a loop lemma at a given state -/
theorem ok_of_spec {f : Engine_is_ready.S → Py.M Engine_is_ready.S} {tail : List Err}
    (hf : ∀ σ, ∃ σ', f σ = .ok σ' ∧ σ'.errors = σ.errors ++ tail) (σa : Engine_is_ready.S) (L : List Err)
    (hL : σa.errors ++ tail = L) : ∃ σ', f σa = .ok σ' ∧ σ'.errors = L := by
  obtain ⟨σ', h, h'⟩ := hf σa
  exact ⟨σ', h, h'.trans hL⟩

/-- `for index, rule_block in enumerate(self.rule_blocks)` -/
theorem code_loop2 (e : Engine) (eo : Option (List Err)) : ∀ (ps : List (Nat × Block)) (σ : Engine_is_ready.S),
    ∃ σ', Engine_is_ready.loop2 e eo ps σ = .ok σ' ∧
      σ'.errors = σ.errors ++ ps.flatMap (fun p => blockErrors e.outputs p.1 p.2)
  | [], σ => ⟨σ, rfl, by simp⟩
  | (i, b) :: ps, σ => by
    simp only [Engine_is_ready.loop2]
    -- the state when the counters have been reset, for either branch of the `not rule_block.rules` test
    have key : ∀ (σ0 : Engine_is_ready.S), σ0.index = i → σ0.rule_block = b →
        ∃ σ', (Engine_is_ready.loop3 e eo b.rules
            { σ0 with conjunction_needed := 0, disjunction_needed := 0, implication_needed := 0 } >>= fun σ =>
            let k8 : Engine_is_ready.S → Py.M Engine_is_ready.S := fun σ =>
              let k9 : Engine_is_ready.S → Py.M Engine_is_ready.S := fun σ =>
                if ((σ.implication_needed != 0) && (!σ.rule_block.impl)) then
                  let σ := { σ with errors := σ.errors ++ [Op.Ready.Err.noImplication σ.index] }
                  Engine_is_ready.loop2 e eo ps σ
                else
                  Engine_is_ready.loop2 e eo ps σ
              if ((σ.disjunction_needed != 0) && (!σ.rule_block.disj)) then
                let σ := { σ with errors := σ.errors ++ [Op.Ready.Err.noDisjunction σ.index] }
                k9 σ
              else
                k9 σ
            if ((σ.conjunction_needed != 0) && (!σ.rule_block.conj)) then
              let σ := { σ with errors := σ.errors ++ [Op.Ready.Err.noConjunction σ.index] }
              k8 σ
            else
              k8 σ) = .ok σ' ∧
          σ'.errors = σ0.errors
            ++ ((if conjNeeded b && !b.conj then [Err.noConjunction i] else [])
            ++ ((if disjNeeded b && !b.disj then [Err.noDisjunction i] else [])
            ++ (if implNeeded e.outputs b && !b.impl then [Err.noImplication i] else [])))
            ++ ps.flatMap (fun p => blockErrors e.outputs p.1 p.2) := by
      intro σ0 hi hb
      obtain ⟨σ3, g, g1, g2, g3, g4, g5, g6⟩ := code_loop3 e eo b.rules
        { σ0 with conjunction_needed := 0, disjunction_needed := 0, implication_needed := 0 }
      simp only [g, bind, Except.bind]
      simp only [bne_self_eq_false, Bool.false_or] at g4 g5 g6
      simp only [g4, g5, g6, g3, g2, hi, hb]
      simp only [conjNeeded, disjNeeded, implNeeded]
      -- three independent tests: each appends or not, then the rest of the blocks
      have g1' : σ3.errors = σ0.errors := g1
      rcases Bool.eq_false_or_eq_true (b.rules.any (·.textAnd) && !b.conj) with hc | hc <;>
      rcases Bool.eq_false_or_eq_true (b.rules.any (·.textOr) && !b.disj) with hd | hd <;>
      rcases Bool.eq_false_or_eq_true (b.rules.any (fun r => r.loaded && mamdani e.outputs r) && !b.impl) with hm | hm <;>
        simp only [hc, hd, hm, Bool.false_eq_true, if_false, if_true] <;>
        exact ok_of_spec (code_loop2 e eo ps) _ _ (by simp [g1'])
    simp only [List.flatMap_cons]
    rw [blockErrors_eq]
    cases hr : b.rules.isEmpty
    · simp only [Bool.not_false, Bool.not_true, Bool.false_eq_true, if_false, List.nil_append]
      obtain ⟨σ', h, h'⟩ := key { σ with index := i, rule_block := b } rfl rfl
      exact ⟨σ', h, by simpa [List.append_assoc] using h'⟩
    · simp only [Bool.not_false, Bool.not_true, if_true]
      obtain ⟨σ', h, h'⟩ := key { σ with index := i, rule_block := b, errors := σ.errors ++ [Err.noRules i] } rfl rfl
      exact ⟨σ', h, by simpa [List.append_assoc] using h'⟩

theorem outputErrors_eq (i : Nat) (o : Output) :
    outputErrors i o =
      (if !o.hasTerms then [Err.noTerms i] else [])
      ++ ((if o.defuzz == .none then [Err.noDefuzzifier i] else [])
      ++ (if !o.aggr && o.defuzz == .integral then [Err.noAggregation i] else [])) := by
  simp only [outputErrors, List.append_assoc]

/-- `for variable in self.output_variables` -/
theorem code_loop1 (e : Engine) (eo : Option (List Err)) : ∀ (ps : List (Nat × Output)) (σ : Engine_is_ready.S),
    ∃ σ', Engine_is_ready.loop1 e eo ps σ = .ok σ' ∧
      σ'.errors = σ.errors ++ ps.flatMap (fun p => outputErrors p.1 p.2)
  | [], σ => ⟨σ, rfl, by simp⟩
  | (i, o) :: ps, σ => by
    simp only [Engine_is_ready.loop1, List.flatMap_cons]
    rw [outputErrors_eq]
    rcases Bool.eq_false_or_eq_true o.hasTerms with ht | ht <;>
    rcases Bool.eq_false_or_eq_true (o.defuzz == .none) with hd | hd <;>
    rcases Bool.eq_false_or_eq_true (!o.aggr && o.defuzz == .integral) with ha | ha <;>
      simp only [ht, hd, ha, bne, Bool.not_false, Bool.not_true, Bool.false_eq_true, if_false, if_true] <;>
      exact ok_of_spec (code_loop1 e eo ps) _ _ (by simp)

/-- **`Engine.is_ready` as translated from the source = the model `Op.Ready.isReady`**: the call always succeeds, the
    list `errors` (the caller's list, or a new one) is extended by exactly the errors of the model in the same order,
    and the value returned is "the list is empty" -/
theorem code_isReady (e : Engine) (errors0 : Option (List Err)) :
    ∃ σ, Engine_is_ready.run e errors0 {} = .ok σ ∧ σ.errors = errors0.getD [] ++ isReady e ∧
      σ.ret = some (errors0.getD [] ++ isReady e).isEmpty := by
  -- the part after the three "does not have any …" tests on the engine, from a state with given errors
  have tail : ∀ (σ : Engine_is_ready.S) (L : List Err),
      σ.errors ++ ((enumFrom 0 e.outputs).flatMap (fun p => outputErrors p.1 p.2)
        ++ ((if e.blocks.isEmpty then [Err.noBlocks] else [])
        ++ (enumFrom 0 e.blocks).flatMap (fun p => blockErrors e.outputs p.1 p.2))) = L →
      ∃ σ', (Engine_is_ready.loop1 e errors0 (enumFrom 0 e.outputs) σ >>= fun σ =>
          let k6 : Engine_is_ready.S → Py.M Engine_is_ready.S := fun σ =>
            Engine_is_ready.loop2 e errors0 (Py.enumerate e.blocks) σ >>= fun σ =>
            Except.ok { σ with ret := (some (!(!(σ.errors).isEmpty))) }
          if (!(!(e.blocks).isEmpty)) then
            let σ := { σ with errors := σ.errors ++ [Op.Ready.Err.noBlocks] }
            k6 σ
          else
            k6 σ) = .ok σ' ∧ σ'.errors = L ∧ σ'.ret = some L.isEmpty := by
    intro σ L hL
    obtain ⟨σ1, h1, e1⟩ := code_loop1 e errors0 (enumFrom 0 e.outputs) σ
    simp only [h1, bind, Except.bind, pyEnumerate_eq, Bool.not_not]
    cases hb : e.blocks.isEmpty
    · simp only [Bool.false_eq_true, if_false]
      obtain ⟨σ2, h2, e2⟩ := code_loop2 e errors0 (enumFrom 0 e.blocks) σ1
      have : σ2.errors = L := by rw [e2, e1, ← hL]; simp [hb]
      simp only [h2]
      exact ⟨_, rfl, this, by simp [this]⟩
    · simp only [if_true]
      obtain ⟨σ2, h2, e2⟩ := code_loop2 e errors0 (enumFrom 0 e.blocks) { σ1 with errors := σ1.errors ++ [Err.noBlocks] }
      have : σ2.errors = L := by rw [e2]; simp only [e1]; rw [← hL]; simp [hb]
      simp only [h2]
      exact ⟨_, rfl, this, by simp [this]⟩
  simp only [Bool.not_not] at tail
  unfold Engine_is_ready.run
  simp only [isReady, isReadyWith, enumFrom_isEmpty, Bool.not_not, List.append_assoc]
  cases errors0 <;>
  rcases Bool.eq_false_or_eq_true (e.inputs == 0) with hi | hi <;>
  rcases Bool.eq_false_or_eq_true e.outputs.isEmpty with ho | ho <;>
    simp only [Option.isNone_none, Option.isNone_some, Option.getD_none, Option.getD_some, hi, ho, bne, Bool.not_false,
      Bool.not_true, Bool.false_eq_true, if_false, if_true] <;>
    refine tail _ _ ?_ <;> simp

end Op.Ready
