import FlVerif.Lemmas.PyTree
import FlVerif.Lemmas.CodePyExportRepr

/-! # The text of the representation of an object: the translated `as_constructor` against the tree model

`Op.PyRepr.asConstructor` builds the call tree of an object from the fields its `__repr__` passes on (`passed`) and
the constructor signature (`emit`); the code builds a text: `__repr__` hands the passed fields to `as_constructor`,
`construction_arguments` asks `self.repr` for the text of every field it emits.  Here the two meet: with the text of
every passed field being the rendered model tree of that field, the translated `as_constructor` returns the rendered
model tree of the object – and raises `ValueError` exactly when the model tree is `invalid`. -/

namespace Op.PyRepr
open Gen.Code

theorem renderList_eq (L : Leaf) : ∀ l : List Src, renderList L l = l.map (render L)
  | [] => by simp [renderList]
  | s :: ss => by simp [renderList, renderList_eq L ss]

/-- the fields `construction_arguments` finds for an object: for every field its `__repr__` passes on, the text
    `self.repr` gives for the value -/
def textFields (L : Leaf) (env : Env) (ps : List Param) (info : ReprInfo) (names : List String) (kids : List Val)
    (n : String) : Option String :=
  (if (passed env ps info (names.zip kids) n).isSome then (names.zip kids).lookup n else none).map (reprText L env)

/-- the module `package_of` finds for an instance of the class -/
def moduleOf (cls : String) : String := (Gen.ExportTables.classModule.lookup cls).getD "fuzzylite"

/-- the model tree of an object, rendered: prefix, class, the arguments `emit` selects from the text fields -/
theorem reprText_obj (L : Leaf) (env : Env) (cls : String) (names : List String) (kids : List Val) (ps : List Param)
    (info : ReprInfo) (hp : paramsOf cls = some ps) (hi : reprInfoOf cls = some info)
    (hu : info.cond.any (fun c => c.2 == .unknown) = false) :
    (match emit (textFields L env ps info names kids) info.positional ps with
     | some args => reprText L env (.node (.obj cls names) kids) =
         classPrefix env cls ++ cls ++ "(" ++ ", ".intercalate (args.map argText) ++ ")"
     | none => asConstructor env (.node (.obj cls names) kids) = .atom .invalid) := by
  have hA : (fun n => if (passed env ps info (names.zip kids) n).isSome then (names.zip (asConstructorList env kids)).lookup n else none) =
      fun n => (if (passed env ps info (names.zip kids) n).isSome then (names.zip kids).lookup n else none).map (asConstructor env) := by
    funext n
    rw [asConstructorList_eq, lookup_zip_map]
    split <;> simp
  have hT : textFields L env ps info names kids =
      fun n => (if (passed env ps info (names.zip kids) n).isSome then (names.zip kids).lookup n else none).map (reprText L env) := rfl
  rw [hT, emit_map]
  unfold reprText
  simp only [asConstructor, hp, hi, hu, Bool.false_eq_true, if_false, hA, emit_map]
  cases emit (fun n => if (passed env ps info (names.zip kids) n).isSome then (names.zip kids).lookup n else none) info.positional ps with
  | none => simp
  | some args =>
    simp only [Option.map_some, render, renderList_eq, List.map_map]
    congr 2
    congr 1
    simp only [List.map_map, List.zip_map', Function.comp_def]

/-- **the translated `as_constructor` on the fields an object's `__repr__` passes on returns the rendered model tree
    of the object**, and raises `ValueError` exactly where the model tree is `invalid` (`sig` = the constructor
    signature with `self`, `ps` = the parameters of the regenerated table) -/
theorem code_reprObject (L : Leaf) (env : Env) (cls : String) (names : List String) (kids : List Val) (sig ps : List Param)
    (info : ReprInfo) (hp : paramsOf cls = some ps) (hi : reprInfoOf cls = some info)
    (hu : info.cond.any (fun c => c.2 == .unknown) = false) (hsig : notSelf sig = ps) :
    match emit (textFields L env ps info names kids) info.positional ps with
    | some _ => ∃ σ, as_constructor.run false sig (textFields L env ps info names kids) info.positional env.aliasName
          (some (moduleOf cls)) cls {} = .ok σ ∧ σ.ret = some (reprText L env (.node (.obj cls names) kids))
    | none => as_constructor.run false sig (textFields L env ps info names kids) info.positional env.aliasName
          (some (moduleOf cls)) cls {} = .error .value ∧ asConstructor env (.node (.obj cls names) kids) = .atom .invalid := by
  have h1 := code_asConstructor false sig (textFields L env ps info names kids) info.positional env.aliasName (some (moduleOf cls)) cls
  have h2 := reprText_obj L env cls names kids ps info hp hi hu
  simp only [Bool.false_eq_true, if_false, hsig] at h1
  cases he : emit (textFields L env ps info names kids) info.positional ps with
  | none =>
    rw [he] at h1 h2
    exact ⟨h1, h2⟩
  | some args =>
    rw [he] at h1 h2
    exact ⟨_, h1, by rw [h2]; rfl⟩

end Op.PyRepr
