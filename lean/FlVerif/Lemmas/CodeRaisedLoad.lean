import FlVerif.Lemmas.CodeRaised
import FlVerif.Lemmas.CodeLoad
import FlVerif.Lemmas.CodeLoadAnte
import FlVerif.Op.PyExtSession

/-! # `Consequent.load` / `Antecedent.load` translated with the state kept at a raise: a failing load leaves its own
part unloaded

Both functions start with `self.unload()` and assign the loaded part in their last statement.  The source is translated
a second time with `raise_state` (`Gen/CodeRaised.lean`: same profile as the plain translation, which
`C16.code_consequentLoad` / `C06.code_antecedentLoad` tie to the models) and for each function

* forgetting the record at a raise gives exactly the plain translation (`*_rs_sim`), and
* the loop never assigns `self.conclusions` / `self.expression`, so the record at any raise has it as `unload()`
  left it (`*_rs_raise`).

This is the fact that the externals `Py.Sess.anteLoad` / `consLoad` of `Rule.load` state. -/

set_option linter.unusedSimpArgs false

namespace Op
open Gen.Code Py.R

/-- push a frame property through the generated text of a loop body / function body: `h` is the property of the
    current record, `ih` the induction hypothesis of the loop -/
macro "frame_steps" h:ident ih:ident : tactic =>
  `(tactic| repeat (first
      | exact $h
      | exact $ih _ $h
      | apply keeps_ite
      | apply keeps_inState_bind
      | apply keepsErr_ite
      | apply keepsErr_inState_bind
      | exact keepsErr_ok _ _
      | intro _))

/-! ## `Consequent.load` -/

def consLoadProj (σ : Consequent_load_rs.S) : Consequent_load.S :=
  { state := σ.state, conclusions := σ.conclusions, output_variables := σ.output_variables, token := σ.token,
    variable_ := σ.variable_, hedge := σ.hedge, terms := σ.terms, term_ := σ.term_,
    self_conclusions := σ.self_conclusions, proposition := σ.proposition }

theorem consLoad_rs_loop_sim (e : EngineInfo) (text : String) (l0 : List Py.Load.Proposition) :
    ∀ (ts : List String) (σ : Consequent_load_rs.S),
    forget consLoadProj (Consequent_load_rs.loop1 e text l0 ts σ) = Consequent_load.loop1 e text ts (consLoadProj σ)
  | [], σ => rfl
  | t :: ts, σ => by
    have ih := consLoad_rs_loop_sim e text l0 ts
    simp only [Consequent_load_rs.loop1, Consequent_load.loop1, forget_ite, forget_inState_bind, forget_error, ih]
    rfl

/-- the loop never assigns `self.conclusions` -/
theorem consLoad_rs_loop_keeps (e : EngineInfo) (text : String) (l0 : List Py.Load.Proposition) :
    ∀ (ts : List String) (σ : Consequent_load_rs.S), σ.self_conclusions = [] →
    Keeps (fun τ => τ.self_conclusions = []) (Consequent_load_rs.loop1 e text l0 ts σ)
  | [], σ, h => h
  | t :: ts, σ, h => by
    have ih := consLoad_rs_loop_keeps e text l0 ts
    simp only [Consequent_load_rs.loop1]
    frame_steps h ih

/-- forgetting the record at a raise, the translation with `raise_state` is the plain translation (whatever the
    conclusions held before the call: the first statement unloads them) -/
theorem consLoad_rs_sim (e : EngineInfo) (text : String) (l0 : List Py.Load.Proposition) :
    forget consLoadProj (Consequent_load_rs.run e text l0 {}) = Consequent_load.run e text {} := by
  unfold Consequent_load_rs.run Consequent_load.run
  simp only [forget_ite, forget_error]
  split
  · rfl
  · exact forget_bind consLoadProj _ _ _ _ (consLoad_rs_loop_sim e text l0 _ _)
      (fun σ => by simp only [forget_ite, forget_ok, forget_error]; rfl)

/-- the record at a raise has `self.conclusions = []` -/
theorem consLoad_rs_raise (e : EngineInfo) (text : String) (l0 : List Py.Load.Proposition) :
    KeepsErr (fun τ => τ.self_conclusions = []) (Consequent_load_rs.run e text l0 {}) := by
  unfold Consequent_load_rs.run
  simp only
  refine keepsErr_ite _ _ _ _ rfl (keepsErr_bind _ _ _ (consLoad_rs_loop_keeps e text l0 _ _ rfl) fun σ h => ?_)
  have ih : ∀ (τ : Consequent_load_rs.S), τ.self_conclusions = [] → True := fun _ _ => trivial
  frame_steps h ih

/-- **`Consequent.load`, translated with the state kept at a raise.**  `loaded0` is what `self.conclusions` holds before
    the call.  When the translated function raises - for every engine and text - the record at the raise has
    `self.conclusions = []` (the function unloads first and assigns in its last statement), and the plain translation
    (tied to `Op.consequentLoad` by `code_consequentLoad`) raises the same class; on success both assign the same
    list. -/
theorem code_consequentLoad_raise_unloaded (e : EngineInfo) (text : String) (loaded0 : List Py.Load.Proposition) :
    match Consequent_load_rs.run e text loaded0 {} with
    | .error (err, σ) => σ.self_conclusions = [] ∧ Consequent_load.run e text {} = .error err
    | .ok σ => ∃ σ', Consequent_load.run e text {} = .ok σ' ∧ σ.self_conclusions = σ'.self_conclusions := by
  cases hr : Consequent_load_rs.run e text loaded0 {} with
  | error q =>
    exact outcome_error consLoadProj _ _ _ (consLoad_rs_sim e text loaded0) (consLoad_rs_raise e text loaded0) q.1 q.2 hr
  | ok σ => exact ⟨_, outcome_ok consLoadProj _ _ (consLoad_rs_sim e text loaded0) σ hr, rfl⟩

/-! ## `Antecedent.load` -/

def anteLoadProj (σ : Antecedent_load_rs.S) : Antecedent_load.S :=
  { postfix_ := σ.postfix_, state := σ.state, stack := σ.stack, variables_ := σ.variables_, token := σ.token,
    variable_ := σ.variable_, hedge := σ.hedge, terms := σ.terms, term_ := σ.term_, operator := σ.operator,
    self_expression := σ.self_expression, proposition := σ.proposition }

theorem anteLoad_rs_loop_sim (e : EngineInfo) (post : String → Py.M String) (text : String) (l0 : Py.Load.Expression) :
    ∀ (ts : List String) (σ : Antecedent_load_rs.S),
    forget anteLoadProj (Antecedent_load_rs.loop1 e post text l0 ts σ)
      = Antecedent_load.loop1 e post text ts (anteLoadProj σ)
  | [], σ => rfl
  | t :: ts, σ => by
    have ih := anteLoad_rs_loop_sim e post text l0 ts
    simp only [Antecedent_load_rs.loop1, Antecedent_load.loop1, forget_ite, forget_inState_bind, forget_error, ih]
    rfl

/-- the loop never assigns `self.expression` -/
theorem anteLoad_rs_loop_keeps (e : EngineInfo) (post : String → Py.M String) (text : String) (l0 : Py.Load.Expression) :
    ∀ (ts : List String) (σ : Antecedent_load_rs.S), σ.self_expression = Py.Load.Expression.none →
    Keeps (fun τ => τ.self_expression = Py.Load.Expression.none) (Antecedent_load_rs.loop1 e post text l0 ts σ)
  | [], σ, h => h
  | t :: ts, σ, h => by
    have ih := anteLoad_rs_loop_keeps e post text l0 ts
    simp only [Antecedent_load_rs.loop1]
    frame_steps h ih

theorem anteLoad_rs_sim (e : EngineInfo) (post : String → Py.M String) (text : String) (l0 : Py.Load.Expression) :
    forget anteLoadProj (Antecedent_load_rs.run e post text l0 {}) = Antecedent_load.run e post text {} := by
  unfold Antecedent_load_rs.run Antecedent_load.run
  simp only [forget_ite, forget_error, forget_inState_bind]
  split
  · rfl
  · congr 1
    funext v
    exact forget_bind anteLoadProj _ _ _ _ (anteLoad_rs_loop_sim e post text l0 _ _)
      (fun σ => by simp only [forget_ite, forget_ok, forget_error, forget_inState_bind]; rfl)

/-- the record at a raise has `self.expression = None` -/
theorem anteLoad_rs_raise (e : EngineInfo) (post : String → Py.M String) (text : String) (l0 : Py.Load.Expression) :
    KeepsErr (fun τ => τ.self_expression = Py.Load.Expression.none) (Antecedent_load_rs.run e post text l0 {}) := by
  unfold Antecedent_load_rs.run
  simp only
  refine keepsErr_ite _ _ _ _ rfl (keepsErr_inState_bind _ _ _ _ rfl fun v =>
    keepsErr_bind _ _ _ (anteLoad_rs_loop_keeps e post text l0 _ _ rfl) fun σ h => ?_)
  have ih : ∀ (τ : Antecedent_load_rs.S), τ.self_expression = Py.Load.Expression.none → True := fun _ _ => trivial
  frame_steps h ih

/-- **`Antecedent.load`, translated with the state kept at a raise.**  `loaded0` is what `self.expression` holds before
    the call, `post` the callee `Function.infix_to_postfix` (whose exceptions pass through).  When the translated
    function raises, the record at the raise has `self.expression = None`, and the plain translation (tied to
    `Op.antecedentLoadPostfix` by `code_antecedentLoad`) raises the same class; on success both assign the same
    expression. -/
theorem code_antecedentLoad_raise_unloaded (e : EngineInfo) (post : String → Py.M String) (text : String)
    (loaded0 : Py.Load.Expression) :
    match Antecedent_load_rs.run e post text loaded0 {} with
    | .error (err, σ) => σ.self_expression = Py.Load.Expression.none ∧ Antecedent_load.run e post text {} = .error err
    | .ok σ => ∃ σ', Antecedent_load.run e post text {} = .ok σ' ∧ σ.self_expression = σ'.self_expression := by
  cases hr : Antecedent_load_rs.run e post text loaded0 {} with
  | error q =>
    exact outcome_error anteLoadProj _ _ _ (anteLoad_rs_sim e post text loaded0) (anteLoad_rs_raise e post text loaded0)
      q.1 q.2 hr
  | ok σ => exact ⟨_, outcome_ok anteLoadProj _ _ (anteLoad_rs_sim e post text loaded0) σ hr, rfl⟩

/-! ## the external `Py.Sess.consLoad` of `Rule.load` is what the translated `Consequent.load` does -/

theorem errOfKind_eq_toPy (k : Lang.ErrKind) : Py.errOfKind k = k.toPy := by cases k <;> rfl

/-- **The external `Py.Sess.consLoad` (the call `self.consequent.load(engine)` inside the translated `Rule.load`) is
    the translated `Consequent.load`, also in what it leaves behind at a raise**: whatever the consequent held before,
    the external returns the rule with the conclusions the translated function assigns, and when it raises, the
    translated function raises the same class with `self.conclusions = []` in the record at the raise - the
    conclusions the external puts into the rule. -/
theorem consLoad_external_is_code (e : EngineInfo) (r : Py.Sess.RuleObj) (loaded0 : List Py.Load.Proposition) :
    match Py.Sess.consLoad e r with
    | .ok r' => ∃ σ, Consequent_load_rs.run e (joinWords r.parsed.cons) loaded0 {} = .ok σ ∧
        σ.self_conclusions.map propConc = r'.cons ∧ r' = { r with cons := r'.cons }
    | .error (err, r') => ∃ σ, Consequent_load_rs.run e (joinWords r.parsed.cons) loaded0 {} = .error (err, σ) ∧
        σ.self_conclusions.map propConc = r'.cons ∧ r' = { r with cons := [] } := by
  have hm := code_consequentLoad e (joinWords r.parsed.cons)
  have hr := code_consequentLoad_raise_unloaded e (joinWords r.parsed.cons) loaded0
  unfold Py.Sess.consLoad
  cases hc : consequentLoad e (joinWords r.parsed.cons) with
  | error k =>
    rw [hc] at hm
    simp only at hm
    cases hrun : Consequent_load_rs.run e (joinWords r.parsed.cons) loaded0 {} with
    | error q =>
      obtain ⟨err, σ⟩ := q
      rw [hrun] at hr
      obtain ⟨h1, h2⟩ := hr
      rw [hm] at h2
      cases h2
      exact ⟨σ, by rw [errOfKind_eq_toPy], by rw [h1]; rfl, rfl⟩
    | ok σ =>
      rw [hrun] at hr
      obtain ⟨σ', h1, -⟩ := hr
      rw [hm] at h1
      cases h1
  | ok cs =>
    rw [hc] at hm
    obtain ⟨σ', h1, h2, -⟩ := hm
    cases hrun : Consequent_load_rs.run e (joinWords r.parsed.cons) loaded0 {} with
    | error q =>
      obtain ⟨err, σ⟩ := q
      rw [hrun] at hr
      obtain ⟨-, h3⟩ := hr
      rw [h1] at h3
      cases h3
    | ok σ =>
      rw [hrun] at hr
      obtain ⟨σ'', h3, h4⟩ := hr
      rw [h1] at h3
      cases h3
      exact ⟨σ, rfl, by rw [h4]; exact h2, rfl⟩

/-! ## the external `Py.Sess.anteLoad` of `Rule.load` is what the translated `Antecedent.load` does -/

theorem anteLoad_rs_of_plain_error (e : EngineInfo) (post : String → Py.M String) (text : String)
    (l0 : Py.Load.Expression) (x : Py.Err) (h : Antecedent_load.run e post text {} = .error x) :
    ∃ σ, Antecedent_load_rs.run e post text l0 {} = .error (x, σ) ∧ σ.self_expression = Py.Load.Expression.none := by
  have hr := code_antecedentLoad_raise_unloaded e post text l0
  cases hrun : Antecedent_load_rs.run e post text l0 {} with
  | error q =>
    obtain ⟨err, σ⟩ := q
    rw [hrun] at hr
    obtain ⟨h1, h2⟩ := hr
    rw [h] at h2; cases h2
    exact ⟨σ, rfl, h1⟩
  | ok σ =>
    rw [hrun] at hr
    obtain ⟨σ', h1, -⟩ := hr
    rw [h] at h1; cases h1

theorem anteLoad_rs_of_plain_ok (e : EngineInfo) (post : String → Py.M String) (text : String)
    (l0 : Py.Load.Expression) (σ' : Antecedent_load.S) (h : Antecedent_load.run e post text {} = .ok σ') :
    ∃ σ, Antecedent_load_rs.run e post text l0 {} = .ok σ ∧ σ.self_expression = σ'.self_expression := by
  have hr := code_antecedentLoad_raise_unloaded e post text l0
  cases hrun : Antecedent_load_rs.run e post text l0 {} with
  | error q =>
    obtain ⟨err, σ⟩ := q
    rw [hrun] at hr
    obtain ⟨-, h2⟩ := hr
    rw [h] at h2; cases h2
  | ok σ =>
    rw [hrun] at hr
    obtain ⟨σ'', h1, h2⟩ := hr
    rw [h] at h1; cases h1
    exact ⟨σ, rfl, h2⟩

/-- the callee `Function.infix_to_postfix` behaves like its model (`C17.code_toPostfix` ties the translated function to
    it): it raises the class the model predicts, and otherwise returns a text whose words are the model's postfix
    tokens -/
def PostIsModel (tbl : Lang.Table) (post : String → Py.M String) : Prop :=
  ∀ text, match toPostfix tbl (formatInfix tbl text) with
    | .error k => post text = .error k.toPy
    | .ok p => ∃ s, post text = .ok s ∧ Py.split s = p

/-- **The external `Py.Sess.anteLoad` (the call `self.antecedent.load(engine)` inside the translated `Rule.load`) is the
    translated `Antecedent.load`, also in what it leaves behind at a raise** - for a callee `infix_to_postfix` that
    behaves like its model: the external returns the rule with the tree the translated function assigns, and when it
    raises, the translated function raises the same class with `self.expression = None` in the record at the raise. -/
theorem anteLoad_external_is_code (tbl : Lang.Table) (e : EngineInfo) (r : Py.Sess.RuleObj) (loaded0 : Py.Load.Expression)
    (post : String → Py.M String) (hp : PostIsModel tbl post) :
    match Py.Sess.anteLoad tbl e r with
    | .ok r' => ∃ σ, Antecedent_load_rs.run e post (joinWords r.parsed.ante) loaded0 {} = .ok σ ∧
        exprA σ.self_expression = r'.ante ∧ r' = { r with ante := r'.ante }
    | .error (err, r') => ∃ σ, Antecedent_load_rs.run e post (joinWords r.parsed.ante) loaded0 {} = .error (err, σ) ∧
        exprA σ.self_expression = r'.ante ∧ r' = { r with ante := none } := by
  have hm := code_antecedentLoad e post (joinWords r.parsed.ante)
  have hpt := hp (joinWords r.parsed.ante)
  unfold Py.Sess.anteLoad antecedentLoad
  generalize joinWords r.parsed.ante = text at hm hpt ⊢
  by_cases ht : text = ""
  · subst ht
    simp only [if_true] at hm
    obtain ⟨σ, h1, h2⟩ := anteLoad_rs_of_plain_error e post "" loaded0 _ hm
    simp only [String.isEmpty_iff.mpr rfl, if_true]
    exact ⟨σ, h1, by rw [h2]; rfl, trivial⟩
  · have h1 : text.isEmpty = false := by
      rw [Bool.eq_false_iff]; exact fun hh => ht (String.isEmpty_iff.mp hh)
    simp only [ht, if_false] at hm
    simp only [h1, Bool.false_eq_true, if_false, antecedentLoadTokens]
    cases hq : toPostfix tbl (formatInfix tbl text) with
    | error k =>
      rw [hq] at hpt
      simp only at hpt
      rw [hpt] at hm
      simp only at hm
      obtain ⟨σ, h2, h3⟩ := anteLoad_rs_of_plain_error e post text loaded0 _ hm
      exact ⟨σ, by rw [errOfKind_eq_toPy]; exact h2, by rw [h3]; rfl, rfl⟩
    | ok p =>
      rw [hq] at hpt
      obtain ⟨s, hs, hsp⟩ := hpt
      rw [hs] at hm
      simp only [hsp] at hm
      simp only []
      cases hl : antecedentLoadPostfix e p with
      | error k =>
        rw [hl] at hm
        simp only at hm
        obtain ⟨σ, h2, h3⟩ := anteLoad_rs_of_plain_error e post text loaded0 _ hm
        exact ⟨σ, by rw [errOfKind_eq_toPy]; exact h2, by rw [h3]; rfl, rfl⟩
      | ok a =>
        rw [hl] at hm
        obtain ⟨σ', h2, h3⟩ := hm
        obtain ⟨σ, h4, h5⟩ := anteLoad_rs_of_plain_ok e post text loaded0 σ' h2
        exact ⟨σ, h4, by rw [h5]; exact h3, rfl⟩

end Op
