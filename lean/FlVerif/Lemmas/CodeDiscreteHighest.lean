import FlVerif.Gen.CodeDiscrete

/-! # Tie A for `Aggregated.highest_activated_term`: the loop translated from the current source equals the model
`Op.Weighted.highestActivated` -/

set_option linter.unusedSimpArgs false

namespace Op.Weighted
open Gen.Code

/-- the loop: `ValueError` at the first group whose degree is a vector, otherwise the fold of `highestStep` -/
theorem code_highestLoop (size_of : X Rat → Nat) (agg : Option (X Rat → X Rat → X Rat)) (terms : List (Act String Rat)) :
    ∀ (gs : List (Act String Rat)) (σ : Aggregated_highest_activated_term.S),
      (gs.any (fun g => decide (size_of g.2 > 1)) = true →
        Aggregated_highest_activated_term.loop1 size_of agg terms gs σ = .error .value) ∧
      (gs.any (fun g => decide (size_of g.2 > 1)) = false →
        ∃ σ', Aggregated_highest_activated_term.loop1 size_of agg terms gs σ = .ok σ' ∧
          σ'.highest = gs.foldl highestStep σ.highest)
  | [], σ => ⟨by simp, fun _ => ⟨σ, rfl, rfl⟩⟩
  | a :: gs, σ => by
    simp only [Aggregated_highest_activated_term.loop1, List.any_cons, List.foldl_cons]
    by_cases hs : size_of a.2 > 1
    · simp [hs]
    · simp only [hs, decide_false, Bool.false_or, Bool.false_eq_true, if_false]
      cases hh : σ.highest with
      | none =>
        simp only [Option.isNone_none, Bool.true_and, Option.isSome_none, Bool.false_eq_true, if_false, highestStep]
        by_cases hd : X.lt (.fin 0) a.2 = true
        · simp only [hd, if_true, bind, Except.bind]
          exact code_highestLoop size_of agg terms gs _
        · simp only [hd, Bool.false_eq_true, if_false, bind, Except.bind]
          have := code_highestLoop size_of agg terms gs { σ with activated := a, size := size_of a.2 }
          simpa [hh] using this
      | some b =>
        simp only [Option.isNone_some, Bool.false_and, Bool.false_eq_true, if_false, Option.isSome_some, if_true,
          Py.deref_some, bind, Except.bind, highestStep]
        by_cases hd : X.lt b.2 a.2 = true
        · simp only [hd, if_true]
          exact code_highestLoop size_of agg terms gs _
        · simp only [hd, Bool.false_eq_true, if_false]
          have := code_highestLoop size_of agg terms gs { σ with activated := a, size := size_of a.2 }
          simpa [hh] using this

/-- **`Aggregated.highest_activated_term` as translated from the source = the model `Op.Weighted.highestActivated`** -/
theorem code_highestActivatedTerm (size_of : X Rat → Nat) (agg : Option (X Rat → X Rat → X Rat))
    (acts : List (Act String Rat)) :
    match highestActivated size_of agg acts with
    | none => Aggregated_highest_activated_term.run size_of agg acts {} = .error .value
    | some h => ∃ σ, Aggregated_highest_activated_term.run size_of agg acts {} = .ok σ ∧ σ.ret = some h := by
  unfold highestActivated Aggregated_highest_activated_term.run
  have hl := code_highestLoop size_of agg acts (groupedTerms agg acts)
    { ({} : Aggregated_highest_activated_term.S) with highest := none }
  cases hv : (groupedTerms agg acts).any (fun g => decide (size_of g.2 > 1)) with
  | true =>
    simp only [hv, if_true, hl.1 hv, bind, Except.bind]
  | false =>
    obtain ⟨σ', h1, h2⟩ := hl.2 hv
    simp only [hv, Bool.false_eq_true, if_false, h1, bind, Except.bind]
    exact ⟨_, rfl, by simp [h2]⟩

end Op.Weighted
