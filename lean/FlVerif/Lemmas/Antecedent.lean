import FlVerif.Op.Degree
import FlVerif.Lemmas.ShuntingYard
import FlVerif.Lemmas.Expr

/-! The state machine of `Antecedent.load` rebuilds every antecedent from its postfix form; the recursive evaluation
    computes the documented denotation. -/

namespace Op
open Lang

/-- the names of an antecedent are usable with the engine: variables exist *and have at least one term* (`findVar`
    follows Python's `if variable:`, which is false for a variable without terms - this matters for `v is any`),
    hedges are registered hedges other than `any`, terms belong to the variable and are not hedge names; `any` is a
    registered hedge where it is used -/
def AnteOK (e : EngineInfo) : Ante → Prop
  | .prop v hs t => (e.findVar v).isSome = true ∧ (∀ h ∈ hs, e.hedges.contains h = true ∧ h ≠ "any") ∧
      (((e.findVar v).map (·.terms)).getD []).contains t = true ∧ e.hedges.contains t = false
  | .anyP v hs => (e.findVar v).isSome = true ∧ (∀ h ∈ hs, e.hedges.contains h = true ∧ h ≠ "any") ∧
      e.hedges.contains "any" = true
  | .conj l r => AnteOK e l ∧ AnteOK e r
  | .disj l r => AnteOK e l ∧ AnteOK e r

/-- the keywords are not names of variables that the loader recognises (variables with at least one term) -/
def EngineOK (e : EngineInfo) : Prop := (e.findVar "and").isSome = false ∧ (e.findVar "or").isSome = false

theorem aLoop_hedges (e : EngineInfo) (v : String) (hs0 hs : List String) (t : Option String) (rest : List String)
    (stk : List ANode) (h : ∀ x ∈ hs, e.hedges.contains x = true ∧ x ≠ "any") :
    aLoop e (hs ++ rest) fHedgeTerm (.prop v hs0 t :: stk) = aLoop e rest fHedgeTerm (.prop v (hs0 ++ hs) t :: stk) := by
  induction hs generalizing hs0 with
  | nil => simp
  | cons x hs ih =>
    obtain ⟨hc, hne⟩ := h x (by simp)
    have hne' : (x == "any") = false := by simpa using hne
    simp only [List.cons_append, aLoop, aStep, fHedgeTerm, Bool.false_and, Bool.true_and, hc, hne', if_true,
      Bool.false_eq_true, if_false]
    have := ih (hs0 ++ [x]) (fun y hy => h y (by simp [hy]))
    simp only [fHedgeTerm, List.append_assoc, List.singleton_append] at this
    exact this

theorem aLoop_var (e : EngineInfo) (v : String) (rest : List String) (st : AFlags) (stk : List ANode)
    (hst : st.var_ = true) (hv : (e.findVar v).isSome = true) :
    aLoop e (v :: "is" :: rest) st stk = aLoop e rest fHedgeTerm (.prop v [] none :: stk) := by
  simp [aLoop, aStep, hst, hv, fIs]

theorem aLoop_pfx (e : EngineInfo) (he : EngineOK e) : ∀ (a : Ante), AnteOK e a →
    ∀ (st : AFlags) (stk : List ANode) (rest : List String), st.var_ = true →
    aLoop e (a.pfx ++ rest) st stk = aLoop e rest fVariableAndOr (ofAnte a :: stk)
  | .prop v hs t, hok, st, stk, rest, hst => by
    obtain ⟨hv, hh, ht, hnt⟩ := hok
    have e1 : (Ante.prop v hs t).pfx ++ rest = v :: "is" :: (hs ++ (t :: rest)) := by
      simp [Ante.pfx, Ante.propWords]
    rw [e1, aLoop_var e v _ st stk hst hv, aLoop_hedges e v [] hs none _ _ hh]
    have hnt' : t ∉ e.hedges := by simpa using hnt
    have ht' : t ∈ ((e.findVar v).map (·.terms)).getD [] := by simpa using ht
    simp [aLoop, aStep, fHedgeTerm, hnt', topTerms, ht', ofAnte]
  | .anyP v hs, hok, st, stk, rest, hst => by
    obtain ⟨hv, hh, ha⟩ := hok
    have e1 : (Ante.anyP v hs).pfx ++ rest = v :: "is" :: (hs ++ ("any" :: rest)) := by
      simp [Ante.pfx, Ante.propWords]
    rw [e1, aLoop_var e v _ st stk hst hv, aLoop_hedges e v [] hs none _ _ hh]
    have ha' : "any" ∈ e.hedges := by simpa using ha
    simp [aLoop, aStep, fHedgeTerm, ha', ofAnte]
  | .conj l r, hok, st, stk, rest, hst => by
    obtain ⟨hl, hr⟩ := hok
    simp only [Ante.pfx, List.append_assoc]
    rw [aLoop_pfx e he l hl st stk _ hst, aLoop_pfx e he r hr fVariableAndOr _ _ rfl]
    have h1 : (e.findVar "and").isSome = false := he.1
    simp [aLoop, aStep, fVariableAndOr, h1, ofAnte]
  | .disj l r, hok, st, stk, rest, hst => by
    obtain ⟨hl, hr⟩ := hok
    simp only [Ante.pfx, List.append_assoc]
    rw [aLoop_pfx e he l hl st stk _ hst, aLoop_pfx e he r hr fVariableAndOr _ _ rfl]
    have h1 : (e.findVar "or").isSome = false := he.2
    simp [aLoop, aStep, fVariableAndOr, h1, ofAnte]

/-- the state machine rebuilds every antecedent from its postfix form -/
theorem antecedentLoadPostfix_pfx (e : EngineInfo) (he : EngineOK e) (a : Ante) (hok : AnteOK e a) :
    antecedentLoadPostfix e a.pfx = .ok (ofAnte a) := by
  have := aLoop_pfx e he a hok fVariable [] [] rfl
  simp only [List.append_nil] at this
  simp [antecedentLoadPostfix, this, aLoop, fVariableAndOr]

/-- postfix of the expression tree = postfix of the antecedent -/
theorem toExpr_pfx (eAnd eOr : Elem) (h1 : eAnd.name = "and") (h2 : eOr.name = "or") :
    ∀ a : Ante, ((a.toExpr eAnd eOr).pfx).map Tok.str = a.pfx
  | .prop v hs t => by simp [Ante.toExpr, Expr.pfx, Ante.pfx, Tok.str, Function.comp_def]
  | .anyP v hs => by simp [Ante.toExpr, Expr.pfx, Ante.pfx, Tok.str, Function.comp_def]
  | .conj l r => by
    simp [Ante.toExpr, Expr.pfx, Ante.pfx, Tok.str, h1, toExpr_pfx eAnd eOr h1 h2 l, toExpr_pfx eAnd eOr h1 h2 r]
  | .disj l r => by
    simp [Ante.toExpr, Expr.pfx, Ante.pfx, Tok.str, h2, toExpr_pfx eAnd eOr h1 h2 l, toExpr_pfx eAnd eOr h1 h2 r]

/-- the words of the propositions are plain words for the table -/
def AnteWords (tbl : Table) : Ante → Prop
  | .prop v hs t => ∀ w ∈ Ante.propWords v hs t, classify tbl w = .operand w
  | .anyP v hs => ∀ w ∈ Ante.propWords v hs "any", classify tbl w = .operand w
  | .conj l r => AnteWords tbl l ∧ AnteWords tbl r
  | .disj l r => AnteWords tbl l ∧ AnteWords tbl r

theorem toExpr_overW (tbl : Table) (eAnd eOr : Elem) (h1 : tbl.lookup eAnd.name = some eAnd) (h1a : eAnd.arity = 2)
    (h2 : tbl.lookup eOr.name = some eOr) (h2a : eOr.arity = 2) : ∀ a : Ante, AnteWords tbl a →
    (a.toExpr eAnd eOr).OverW tbl
  | .prop _ _ _, h => h
  | .anyP _ _, h => h
  | .conj l r, h => ⟨h1, h1a, toExpr_overW tbl eAnd eOr h1 h1a h2 h2a l h.1, toExpr_overW tbl eAnd eOr h1 h1a h2 h2a r h.2⟩
  | .disj l r, h => ⟨h2, h2a, toExpr_overW tbl eAnd eOr h1 h1a h2 h2a l h.1, toExpr_overW tbl eAnd eOr h1 h1a h2 h2a r h.2⟩

/-! ## evaluation -/

section
variable {α : Type} [Field α] [LinearOrder α] [IsStrictOrderedRing α]

theorem hedgesReversed_eq (c : DegCtx α) (hs : List String) (x : X α) : hedgesReversed c hs x = applyHedges c hs x := by
  simp [hedgesReversed, applyHedges, List.foldl_reverse]

/-- hedges are proper modifiers: `any` only as the last word of an `any`-proposition -/
def _root_.Lang.Ante.Proper : Ante → Prop
  | .prop _ hs _ => ∀ h ∈ hs, h ≠ "any"
  | .anyP _ hs => ∀ h ∈ hs, h ≠ "any"
  | .conj l r => l.Proper ∧ r.Proper
  | .disj l r => l.Proper ∧ r.Proper

/-- every variable of the antecedent has a term in the evaluation context (its object is true in Python's sense); a
    rule can only be loaded over such variables, and `Antecedent.activation_degree` raises `ValueError` otherwise -/
def _root_.Lang.Ante.Termed (c : DegCtx α) : Ante → Prop
  | .prop v _ _ => c.hasTerms v = true
  | .anyP v _ => c.hasTerms v = true
  | .conj l r => l.Termed c ∧ r.Termed c
  | .disj l r => l.Termed c ∧ r.Termed c

theorem getLast_ne_any {hs : List String} (h : ∀ x ∈ hs, x ≠ "any") : hs.getLast? ≠ some "any" := by
  intro hc
  have := List.mem_of_getLast? hc
  exact h _ this rfl

theorem degree_ofAnte (c : DegCtx α) : ∀ a : Ante, a.Proper → a.Termed c →
    degree c (ofAnte a) = (match a.den c with | some x => .ok x | none => .error .value)
  | .prop v hs t, hp, ht => by
    have hl := getLast_ne_any hp
    have ht' : c.hasTerms v = true := ht
    by_cases he : c.enabled v = true
    · simp [ofAnte, degree, Ante.den, he, ht', hl, hedgesReversed_eq, DegCtx.base]
    · simp [ofAnte, degree, Ante.den, he, ht']
  | .anyP v hs, _, ht => by
    have ht' : c.hasTerms v = true := ht
    by_cases he : c.enabled v = true
    · simp [ofAnte, degree, Ante.den, he, ht', hedgesReversed_eq, applyHedges, List.foldr_append]
    · simp [ofAnte, degree, Ante.den, he, ht']
  | .conj l r, hp, ht => by
    have il := degree_ofAnte c l hp.1 ht.1
    have ir := degree_ofAnte c r hp.2 ht.2
    simp only [ofAnte, degree, Ante.den, if_true]
    cases hc : c.conj with
    | none => simp
    | some f =>
      rw [il, ir]
      cases l.den c <;> cases r.den c <;> simp
  | .disj l r, hp, ht => by
    have il := degree_ofAnte c l hp.1 ht.1
    have ir := degree_ofAnte c r hp.2 ht.2
    have hne : ("or" = "and") = False := by simp
    simp only [ofAnte, degree, Ante.den, hne, if_false, if_true]
    cases hc : c.disj with
    | none => simp
    | some f =>
      rw [il, ir]
      cases l.den c <;> cases r.den c <;> simp

end
end Op
