import FlVerif.Spec.Fll

/-! Round trips of the component layers of the FLL model: what the importer makes of what the exporter
printed, for any "print the height" rule `keep`. -/

namespace Op.FllIO
open Dec Spec.Fll

@[simp] theorem except_map_ok {ε α β} (f : α → β) (a : α) : (Except.ok a : Except ε α).map f = .ok (f a) := rfl
@[simp] theorem except_map_error {ε α β} (f : α → β) (e : ε) : (Except.error e : Except ε α).map f = .error e := rfl
@[simp] theorem except_bind_ok {ε α β} (f : α → Except ε β) (a : α) : ((Except.ok a : Except ε α) >>= f) = f a := rfl
@[simp] theorem except_bind_error {ε α β} (f : α → Except ε β) (e : ε) :
    ((Except.error e : Except ε α) >>= f) = .error e := rfl

@[simp] theorem except_pure {ε α} (a : α) : (pure a : Except ε α) = .ok a := rfl

/-! ### identifiers -/

theorem identChar_underscore : identChar '_' = true := by decide
theorem underscore_not_digit : Char.isDigit '_' = false := by decide

theorem filter_eq_self_of_all {α} (p : α → Bool) (l : List α) (h : ∀ a ∈ l, p a = true) : l.filter p = l := by
  induction l with
  | nil => rfl
  | cons a l ih =>
    have ha := h a (by simp)
    simp only [List.filter_cons, ha, if_true]
    rw [ih (fun b hb => h b (by simp [hb]))]

theorem asIdentChars_idem (cs : List Char) : asIdentChars (asIdentChars cs) = asIdentChars cs := by
  unfold asIdentChars
  cases hf : cs.filter identChar with
  | nil => simp [List.filter, identChar_underscore, underscore_not_digit]
  | cons a r =>
    have hall : ∀ x ∈ a :: r, identChar x = true := by
      intro x hx; rw [← hf] at hx; exact (List.mem_filter.1 hx).2
    by_cases hd : a.isDigit = true
    · have h2 : ∀ x ∈ '_' :: a :: r, identChar x = true := by
        intro x hx
        rcases List.mem_cons.1 hx with rfl | hx
        · exact identChar_underscore
        · exact hall x hx
      simp only [hd, if_true]
      rw [filter_eq_self_of_all _ _ h2]
      simp [underscore_not_digit]
    · simp only [hd, if_false, Bool.false_eq_true]
      rw [filter_eq_self_of_all _ _ hall]
      simp [hd]

theorem asIdent_idem (s : String) : asIdent (asIdent s) = asIdent s := by
  unfold asIdent
  simp [asIdentChars_idem]

theorem isIdent_asIdent (s : String) : IsIdent (asIdent s) := asIdent_idem s

/-! ### tokens -/

theorem textOf_textToks (s : String) : textOf (textToks s) = .ok s := by
  unfold textToks
  by_cases h : s = "" <;> simp [h, textOf]

theorem textOf_w (s : String) : textOf [.w s] = .ok s := rfl

theorem boolOf_boolTok (b : Bool) : boolOf [boolTok b] = .ok b := by
  cases b <;> rfl

theorem numsOf_n (xs : List Num) : numsOf (xs.map .n) = .ok xs := by
  induction xs with
  | nil => rfl
  | cons x xs ih => simp [numsOf, ih]

theorem map_numTok (c : Cfg) (xs : List Num) : xs.map (numTok c) = (xs.map (rnd c.d)).map .n := by
  simp [numTok, Function.comp_def]

theorem lastOr_concat (d : Num) (l : List Num) (x : Num) : lastOr d (l ++ [x]) = x := by
  induction l with
  | nil => rfl
  | cons a l ih =>
    cases l with
    | nil => rfl
    | cons b l => simpa [lastOr] using ih

/-! ### terms -/

section keepsec
variable (keep : Num → Bool) (c : Cfg)

/-- tokens of `heightToks` as plain numbers -/
def heightNums (h : Num) : List Num := if keep h then [rnd c.d h] else []

theorem heightToks_eq (h : Num) : heightToks keep c h = (heightNums keep c h).map .n := by
  unfold heightToks heightNums numTok
  by_cases hk : keep h = true <;> simp [hk]

theorem params_numeric (ps : List Num) (h : Num) :
    ps.map (numTok c) ++ heightToks keep c h = ((ps.map (rnd c.d)) ++ heightNums keep c h).map .n := by
  rw [map_numTok, heightToks_eq, List.map_append]

theorem parseShape_height (ps : List Num) (h : Num) :
    parseShape ps.length true (ps.map (rnd c.d) ++ heightNums keep c h)
      = .ok (.shape (ps.map (rnd c.d)) (some (canonH keep c h))) := by
  unfold parseShape heightNums canonH
  by_cases hk : keep h = true
  · simp [hk, lastOr_concat]
  · simp [hk]

theorem configure_shape (cls : String) (ps : List Num) (h : Option Num)
    (hk : cls ∈ Gen.Tables.termKeys) (hs : isSpecialTerm cls = false)
    (ha : termArity cls = some (ps.length, h.isSome)) :
    configure cls (termParams keep c (.shape ps h)) = .ok (canonBody keep c (.shape ps h)) := by
  have h1 : cls ≠ "Function" ∧ cls ≠ "Linear" ∧ cls ≠ "Discrete" := by
    simp only [isSpecialTerm, Bool.or_eq_false_iff, decide_eq_false_iff_not] at hs
    exact ⟨hs.1.1, hs.1.2, hs.2⟩
  unfold configure
  simp only [hk, not_true_eq_false, if_false, h1.1, h1.2.1, h1.2.2, ha]
  cases h with
  | none =>
    simp only [termParams, canonBody, Option.map_none, Option.isSome_none]
    by_cases hp : ps = []
    · subst hp; simp
    · simp only [map_numTok, List.map_eq_nil_iff, hp, if_false, numsOf_n, except_bind_ok, parseShape, Bool.false_eq_true,
        List.length_map, if_true]
  | some h =>
    simp only [termParams, canonBody, Option.map_some, Option.isSome_some, if_true]
    by_cases he : ps.map (numTok c) ++ heightToks keep c h = []
    · have hps : ps = [] := by
        have := (List.append_eq_nil_iff.1 he).1
        simpa using this
      have hh : keep h = false := by
        have := (List.append_eq_nil_iff.1 he).2
        unfold heightToks at this
        by_cases hk' : keep h = true
        · simp [hk'] at this
        · simpa using hk'
      subst hps
      simp [heightToks, canonH, hh]
    · simp only [he, if_false]
      rw [params_numeric, numsOf_n, except_bind_ok, parseShape_height]

theorem term_roundtrip (t : Term) (ht : TermOK t) :
    importTerm (termLine keep c t).toks = .ok (canonTerm keep c t) := by
  obtain ⟨hk, hb⟩ := ht
  unfold termLine importTerm canonTerm
  simp only
  cases hbody : t.body with
  | shape ps h =>
    rw [hbody] at hb
    rw [configure_shape keep c t.cls ps h hk hb.1 hb.2]
    simp [asIdent_idem]
  | discrete xy h =>
    rw [hbody] at hb
    obtain ⟨hc, hev⟩ := hb
    have hk' : "Discrete" ∈ Gen.Tables.termKeys := hc ▸ hk
    unfold configure
    simp only [hc, hk', not_true_eq_false, if_false, termParams,
      show ("Discrete" = "Function") = False by decide, show ("Discrete" = "Linear") = False by decide, if_true]
    rw [params_numeric, numsOf_n]
    simp only [except_map_ok, canonBody, asIdent_idem]
    unfold heightNums canonH
    by_cases hkp : keep h = true
    · have : ((xy.map (rnd c.d)) ++ [rnd c.d h]).length % 2 ≠ 0 := by
        simp only [List.length_append, List.length_map, List.length_singleton]; omega
      have h2 : (xy.length + 1) % 2 = 1 := by omega
      simp [hkp, h2, lastOr_concat]
    · simp [hkp, hev]
  | linear cs =>
    rw [hbody] at hb
    have hk' : "Linear" ∈ Gen.Tables.termKeys := hb ▸ hk
    unfold configure
    simp only [hb, hk', not_true_eq_false, if_false, termParams,
      show ("Linear" = "Function") = False by decide, if_true, map_numTok, numsOf_n, except_map_ok, canonBody,
      asIdent_idem]
  | function f =>
    rw [hbody] at hb
    have hk' : "Function" ∈ Gen.Tables.termKeys := hb ▸ hk
    unfold configure
    simp only [hb, hk', not_true_eq_false, if_false, termParams, if_true, canonBody, asIdent_idem]
    by_cases hf : f = "" <;> simp [hf]

end keepsec

end Op.FllIO
