import FlVerif.Op.FormatInfix

/-! # `format_infix(...).split()` is a left inverse of every rendering of a token list

`Op.scan` (the character-level model of the two `re.sub` calls of `Function.format_infix` followed by `.split()`)
gives back the tokens of *any* writing of a token list in which every token is recognisable where it stands: any
number of blanks between tokens, no blank needed next to a symbolic operator or a parenthesis.  This is the
"with or without spaces" clause of C06 / C17 for token lists of any length. -/

namespace Op
open Lang

/-- a token of the formula text: a word (name, number) or a symbolic operator / parenthesis / comma -/
inductive Tk where
  | word (w : List Char)
  | sym (o : List Char)
deriving DecidableEq, Repr

def Tk.chars : Tk → List Char
  | .word w => w
  | .sym o => o

def Tk.str (t : Tk) : String := String.ofList t.chars

def blanks (n : Nat) : List Char := List.replicate n ' '

/-- a writing: `n` blanks before each token, `tr` blanks at the end -/
def render : List (Nat × Tk) → Nat → List Char
  | [], tr => blanks tr
  | (n, t) :: rest, tr => blanks n ++ t.chars ++ render rest tr

/-- no operator is recognised at any position inside the word `w` when it is followed by `r` -/
def NoMatchInside (ops : List (List Char)) : List Char → List Char → Prop
  | [], _ => True
  | c :: w, r => firstMatch ops (c :: w ++ r) = none ∧ NoMatchInside ops w r

def startsGlued : List (Nat × Tk) → Prop
  | (0, .word _) :: _ => True
  | _ => False

/-- every token is recognisable where it stands -/
def Valid (ops : List (List Char)) : List (Nat × Tk) → Nat → Prop
  | [], _ => True
  | (_, .word w) :: rest, tr =>
      w ≠ [] ∧ (∀ c ∈ w, isSpace c = false) ∧ NoMatchInside ops w (render rest tr) ∧ ¬ startsGlued rest ∧ Valid ops rest tr
  | (_, .sym o) :: rest, tr => firstMatch ops (o ++ render rest tr) = some o ∧ Valid ops rest tr

instance instDecNoMatchInside (ops : List (List Char)) : ∀ (w r : List Char), Decidable (NoMatchInside ops w r)
  | [], _ => isTrue trivial
  | c :: w, r =>
    have := instDecNoMatchInside ops w r
    inferInstanceAs (Decidable (firstMatch ops (c :: w ++ r) = none ∧ NoMatchInside ops w r))

instance instDecStartsGlued : ∀ (ts : List (Nat × Tk)), Decidable (startsGlued ts)
  | [] => isFalse (fun h => h)
  | (0, .word _) :: _ => isTrue trivial
  | (_ + 1, .word _) :: _ => isFalse (fun h => h)
  | (n, .sym _) :: _ => isFalse (by cases n <;> exact fun h => h)

instance instDecValid (ops : List (List Char)) : ∀ (ts : List (Nat × Tk)) (tr : Nat), Decidable (Valid ops ts tr)
  | [], _ => isTrue trivial
  | (_, .word w) :: rest, tr =>
    have := instDecValid ops rest tr
    inferInstanceAs (Decidable (w ≠ [] ∧ (∀ c ∈ w, isSpace c = false) ∧ NoMatchInside ops w (render rest tr) ∧
      ¬ startsGlued rest ∧ Valid ops rest tr))
  | (_, .sym o) :: rest, tr =>
    have := instDecValid ops rest tr
    inferInstanceAs (Decidable (firstMatch ops (o ++ render rest tr) = some o ∧ Valid ops rest tr))

/-- no operator begins with a blank -/
def NoSpaceOp (ops : List (List Char)) : Prop := ∀ r, firstMatch ops (' ' :: r) = none

theorem scan_skip (ops : List (List Char)) : ∀ (xs r cur : List Char),
    scan ops (xs ++ r) xs.length cur = scan ops r 0 cur
  | [], r, cur => by cases r <;> simp [scan]
  | x :: xs, r, cur => by
    simp only [List.cons_append, List.length_cons, scan]
    exact scan_skip ops xs r cur

theorem scan_blanks (ops : List (List Char)) (h : NoSpaceOp ops) : ∀ (n : Nat) (r cur : List Char),
    scan ops (blanks (n + 1) ++ r) 0 cur = flush cur ++ scan ops r 0 []
  | 0, r, cur => by
    simp only [blanks, List.replicate, List.cons_append, List.nil_append, scan, h r]
    simp [isSpace]
  | n + 1, r, cur => by
    have ih := scan_blanks ops h n r []
    simp only [blanks, List.replicate, List.cons_append, scan, h _] at ih ⊢
    simp only [isSpace, decide_true, Bool.true_or, if_true] at ih ⊢
    rw [ih]; simp [flush]

theorem scan_word (ops : List (List Char)) : ∀ (w r cur : List Char), (∀ c ∈ w, isSpace c = false) →
    NoMatchInside ops w r → scan ops (w ++ r) 0 cur = scan ops r 0 (cur ++ w)
  | [], r, cur, _, _ => by simp
  | c :: w, r, cur, hs, hm => by
    obtain ⟨h1, h2⟩ := hm
    have h1' : firstMatch ops (c :: (w ++ r)) = none := h1
    have hc : isSpace c = false := hs c (by simp)
    simp only [List.cons_append, scan, h1', hc, Bool.false_eq_true, if_false]
    rw [scan_word ops w r (cur ++ [c]) (fun d hd => hs d (by simp [hd])) h2]
    simp

theorem firstMatch_nonempty {ops : List (List Char)} {cs o : List Char} (h : firstMatch ops cs = some o) : o ≠ [] := by
  unfold firstMatch at h
  have := List.find?_some h
  intro e; subst e; simp at this

theorem flush_of_nonempty {w : List Char} (h : w ≠ []) : flush w = [String.ofList w] := by
  cases w with
  | nil => exact absurd rfl h
  | cons c w => simp [flush]

/-- **the scan gives back the tokens of every valid writing** (pending word `cur` included) -/
theorem scan_render_gen (ops : List (List Char)) (hsp : NoSpaceOp ops) : ∀ (ts : List (Nat × Tk)) (tr : Nat) (cur : List Char),
    Valid ops ts tr → (cur ≠ [] → ¬ startsGlued ts) →
    scan ops (render ts tr) 0 cur = flush cur ++ ts.map (fun p => p.2.str)
  | [], tr, cur, _, _ => by
    cases tr with
    | zero => simp [render, blanks, scan]
    | succ n =>
      have := scan_blanks ops hsp n [] cur
      simp only [List.append_nil] at this
      simp [render, this, scan, flush]
  | (n, .word w) :: rest, tr, cur, hv, hg => by
    obtain ⟨hne, hsw, hnm, hng, hvr⟩ := hv
    have ih := scan_render_gen ops hsp rest tr w hvr (fun _ => hng)
    have key : scan ops (w ++ render rest tr) 0 [] = String.ofList w :: rest.map (fun p => p.2.str) := by
      rw [scan_word ops w _ [] hsw hnm, List.nil_append, ih, flush_of_nonempty hne]; rfl
    cases n with
    | zero =>
      have hcur : cur = [] := by
        by_contra hc
        exact hg hc (by simp [startsGlued])
      subst hcur
      show scan ops (blanks 0 ++ w ++ render rest tr) 0 [] = flush [] ++ String.ofList w :: rest.map (fun p => p.2.str)
      simpa [blanks, flush] using key
    | succ m =>
      show scan ops (blanks (m + 1) ++ w ++ render rest tr) 0 cur = flush cur ++ String.ofList w :: rest.map (fun p => p.2.str)
      rw [List.append_assoc, scan_blanks ops hsp m _ cur, key]
  | (n, .sym o) :: rest, tr, cur, hv, _ => by
    obtain ⟨hfm, hvr⟩ := hv
    have ih := scan_render_gen ops hsp rest tr [] hvr (fun h => absurd rfl h)
    have hone : ∀ cur', scan ops (o ++ render rest tr) 0 cur' = flush cur' ++ String.ofList o :: rest.map (fun p => p.2.str) := by
      intro cur'
      have hne := firstMatch_nonempty hfm
      cases o with
      | nil => exact absurd rfl hne
      | cons c o' =>
        simp only [List.cons_append] at hfm ⊢
        simp only [scan, hfm, List.length_cons, Nat.add_sub_cancel]
        rw [scan_skip ops o' _ [], ih]; simp [flush]
    cases n with
    | zero =>
      show scan ops (blanks 0 ++ o ++ render rest tr) 0 cur = flush cur ++ String.ofList o :: rest.map (fun p => p.2.str)
      simpa [blanks] using hone cur
    | succ m =>
      show scan ops (blanks (m + 1) ++ o ++ render rest tr) 0 cur = flush cur ++ String.ofList o :: rest.map (fun p => p.2.str)
      rw [List.append_assoc, scan_blanks ops hsp m _ cur, hone []]; simp [flush]

theorem scan_render (ops : List (List Char)) (hsp : NoSpaceOp ops) (ts : List (Nat × Tk)) (tr : Nat)
    (hv : Valid ops ts tr) : scan ops (render ts tr) 0 [] = ts.map (fun p => p.2.str) := by
  have := scan_render_gen ops hsp ts tr [] hv (fun h => absurd rfl h)
  simpa [flush] using this

/-! ## sufficient conditions on characters -/

/-- `wc`-characters begin no operator: no operator is recognised inside a word made of them, whatever follows -/
theorem noMatchInside_of_chars (ops : List (List Char)) (wc : Char → Bool)
    (hwc : ∀ c, wc c = true → ∀ r, firstMatch ops (c :: r) = none) :
    ∀ (w r : List Char), (∀ c ∈ w, wc c = true) → NoMatchInside ops w r
  | [], _, _ => trivial
  | c :: w, r, h => ⟨hwc c (h c (by simp)) _, noMatchInside_of_chars ops wc hwc w r (fun d hd => h d (by simp [hd]))⟩

end Op

namespace Op
open Lang

theorem isPrefix_append_left : ∀ (p o r : List Char), isPrefix p o = true → isPrefix p (o ++ r) = true
  | [], _, _, _ => by simp [isPrefix]
  | a :: p, [], r, h => by simp [isPrefix] at h
  | a :: p, b :: o, r, h => by
    simp only [isPrefix, Bool.and_eq_true, beq_iff_eq, List.cons_append] at h ⊢
    exact ⟨h.1, isPrefix_append_left p o r h.2⟩

/-- a match of `p` against `o` followed by `c` is a match against `o`, unless `p` continues `o` with `c` -/
theorem isPrefix_append_cons : ∀ (p o : List Char) (c : Char) (r : List Char),
    isPrefix p (o ++ c :: r) = true → isPrefix p o = true ∨ isPrefix (o ++ [c]) p = true
  | [], _, _, _, _ => by simp [isPrefix]
  | a :: p, [], c, r, h => by
    simp only [List.nil_append, isPrefix, Bool.and_eq_true, beq_iff_eq] at h
    right; simp [isPrefix, h.1]
  | a :: p, b :: o, c, r, h => by
    simp only [List.cons_append, isPrefix, Bool.and_eq_true, beq_iff_eq] at h ⊢
    rcases isPrefix_append_cons p o c r h.2 with h' | h'
    · exact Or.inl ⟨h.1, h'⟩
    · exact Or.inr ⟨h.1.symm, h'⟩

/-- no operator continues `o` with the character `c` -/
def NoExt (ops : List (List Char)) (o : List Char) (c : Char) : Prop := ∀ p ∈ ops, isPrefix (o ++ [c]) p = false

theorem find_congr {β : Type} (f g : β → Bool) : ∀ (l : List β), (∀ x ∈ l, f x = g x) → l.find? f = l.find? g
  | [], _ => rfl
  | x :: l, h => by
    simp only [List.find?_cons, h x (by simp)]
    rw [find_congr f g l (fun y hy => h y (by simp [hy]))]

/-- an operator that is recognised on its own is recognised before every text that does not continue it -/
theorem firstMatch_sym (ops : List (List Char)) (o r : List Char) (h : firstMatch ops o = some o)
    (hr : r = [] ∨ ∃ c r', r = c :: r' ∧ NoExt ops o c) : firstMatch ops (o ++ r) = some o := by
  rcases hr with rfl | ⟨c, r', rfl, hne⟩
  · simpa using h
  · unfold firstMatch at h ⊢
    rw [← h]
    apply find_congr
    intro p hp
    cases hpo : isPrefix p o with
    | true => simp [isPrefix_append_left p o _ hpo]
    | false =>
      cases hpr : isPrefix p (o ++ c :: r') with
      | false => rfl
      | true =>
        rcases isPrefix_append_cons p o c r' hpr with h1 | h2
        · rw [hpo] at h1; exact absurd h1 (by simp)
        · rw [hne p hp] at h2; exact absurd h2 (by simp)

/-- no operator begins with a blank -/
theorem noSpaceOp_of_heads (ops : List (List Char)) (h : ∀ o ∈ ops, o.head? ≠ some ' ') : NoSpaceOp ops := by
  intro r
  unfold firstMatch
  rw [List.find?_eq_none]
  intro o ho
  cases o with
  | nil => simp
  | cons a o' =>
    have : a ≠ ' ' := fun e => h (a :: o') ho (by simp [e])
    simp [isPrefix, this]

/-- characters that begin no operator -/
theorem noMatch_of_heads (ops : List (List Char)) (c : Char) (h : ∀ o ∈ ops, o.head? ≠ some c) (r : List Char) :
    firstMatch ops (c :: r) = none := by
  unfold firstMatch
  rw [List.find?_eq_none]
  intro o ho
  cases o with
  | nil => simp
  | cons a o' =>
    have : a ≠ c := fun e => h (a :: o') ho (by simp [e])
    simp [isPrefix, this]

end Op
