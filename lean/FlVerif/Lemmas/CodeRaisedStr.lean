import FlVerif.Gen.CodeRaisedStr

/-! # Tie A for `Operation.str` and `FllExporter.to_string`: the definitions translated from the current source equal the
models `Py.Raised.opStr` / `Py.Raised.toString` (`Op/PyExtRaised.lean`) -/

set_option linter.unusedSimpArgs false

namespace Py.Raised
open Gen.Code Op.FllIO Py.Fll

/-! ## `FllExporter.to_string`: the dispatch on the class of the object -/

/-- **`FllExporter.to_string` as translated from the source = the model `Py.Raised.toString`**: for every object the
    text of the method of its class - an `InputVariable` / `OutputVariable` is also a `Variable`, the source tests the
    subclasses first -, `TypeError` for anything that is not a fuzzylite object -/
theorem code_fllToString (c : Cfg) (indent sep : String) (o : FlObj) :
    match toString c indent sep o with
    | none => FllExporter_to_string.run c indent sep o {} = .error .internal
    | some s => ∃ σ, FllExporter_to_string.run c indent sep o {} = .ok σ ∧ σ.ret = some s := by
  cases o <;> first | exact ⟨_, rfl, rfl⟩ | rfl

/-! ## `Operation.str` -/

theorem mapM_ok {α β : Type} (f : α → Py.M β) (g : α → β) : ∀ (l : List α), (∀ a ∈ l, f a = .ok (g a)) →
    l.mapM f = .ok (l.map g)
  | [], _ => rfl
  | a :: l, h => by
    rw [List.mapM_cons, h a (by simp), mapM_ok f g l (fun b hb => h b (by simp [hb]))]
    rfl

theorem opStrL_eq_map (d : ℕ) : ∀ (l : List SVal), opStrL d l = l.map (opStr d " ")
  | [] => by simp [opStrL]
  | v :: r => by simp [opStrL, opStrL_eq_map d r]

theorem depth_le_depthL : ∀ (l : List SVal) (v : SVal), v ∈ l → v.depth ≤ SVal.depthL l
  | [], _, h => by simp at h
  | w :: r, v, h => by
    rw [SVal.depthL]
    rcases List.mem_cons.mp h with rfl | h
    · exact Nat.le_max_left _ _
    · exact Nat.le_trans (depth_le_depthL r v h) (Nat.le_max_right _ _)

theorem range_map_getD {β : Type} (f : List Num → β) (rows : List (List Num)) :
    (List.range rows.length).map (fun i => f (rows.getD i [])) = rows.map f := by
  apply List.ext_getElem
  · simp
  · intro i h1 h2
    simp only [List.length_map, List.length_range] at h1
    simp [List.getD, List.getElem?_eq_getElem h1]

/-- the recursive call inside the comprehensions: the value of `Op.str(x_i)` -/
theorem rec_value (d fuel : ℕ) (v : SVal) (delim : String)
    (h : ∀ σ, Op_str.rec fuel d v delim σ = .ok { σ with ret := some (opStr d delim v) }) :
    (Op_str.rec fuel d v delim {} >>= fun r => Py.deref r.ret) = .ok (opStr d delim v) := by
  rw [h]; rfl

/-- with enough fuel for the nesting depth the translated function returns the model's string -/
theorem code_opStr_rec (d : ℕ) : ∀ (fuel : ℕ) (x : SVal) (delim : String) (σ : Op_str.S), x.depth < fuel →
    Op_str.rec fuel d x delim σ = .ok { σ with ret := some (opStr d delim x) }
  | 0, _, _, _, h => absurd h (Nat.not_lt_zero _)
  | fuel + 1, x, delim, σ, h => by
    have ih := code_opStr_rec d fuel
    cases x with
    | str s => rfl
    | num y => rfl
    | arr0 y => rfl
    | arrN t => rfl
    | other t => rfl
    | seq l =>
      have hl : ∀ v ∈ l, (Op_str.rec fuel d v " " {} >>= fun r => Py.deref r.ret) = .ok (opStr d " " v) := by
        intro v hv
        refine rec_value d fuel v " " (fun σ => ih v " " σ ?_)
        have := depth_le_depthL l v hv
        simp only [SVal.depth] at h
        omega
      simp only [Op_str.rec, SVal.isStr, SVal.isNum, SVal.isSeq, SVal.items, Bool.false_eq_true, if_false, if_true]
      rw [mapM_ok _ _ l hl]
      simp only [bind, Except.bind, opStr, opStrL_eq_map]
    | arr1 l =>
      have hf : 0 < fuel := by simp only [SVal.depth] at h; omega
      have hl : ∀ v ∈ l.map SVal.num, (Op_str.rec fuel d v " " {} >>= fun r => Py.deref r.ret) = .ok (opStr d " " v) := by
        intro v hv
        obtain ⟨y, -, rfl⟩ := List.mem_map.mp hv
        exact rec_value d fuel _ " " (fun σ => ih _ " " σ hf)
      simp only [Op_str.rec, SVal.isStr, SVal.isNum, SVal.isSeq, SVal.isArray, SVal.ndim, SVal.elems, Bool.false_eq_true,
        if_false, if_true, beq_iff_eq, one_ne_zero, OfNat.one_ne_ofNat, reduceCtorEq]
      rw [mapM_ok _ _ _ hl]
      simp only [bind, Except.bind, opStr, List.map_map]
      rfl
    | arr2 rows =>
      have hf : 1 < fuel := by simp only [SVal.depth] at h; omega
      have hl : ∀ i ∈ List.range rows.length,
          (Op_str.rec fuel d (SVal.row (.arr2 rows) i) " " {} >>= fun r => Py.deref r.ret)
            = .ok (join " " ((rows.getD i []).map (numText d))) := by
        intro i _
        exact rec_value d fuel _ " " (fun σ => ih _ " " σ hf)
      simp only [Op_str.rec, SVal.isStr, SVal.isNum, SVal.isSeq, SVal.isArray, SVal.ndim, SVal.len, Bool.false_eq_true,
        if_false, if_true, beq_iff_eq, OfNat.ofNat_ne_zero, OfNat.ofNat_ne_one]
      rw [mapM_ok _ _ _ hl]
      simp only [bind, Except.bind, opStr, range_map_getD (fun r => join " " (r.map (numText d))) rows]

/-- **`Operation.str` as translated from the source = the model `Py.Raised.opStr`**, for every value: a string as it
    is, a float printed with `settings.decimals` decimals, a sequence / 1-d array joined by the delimiter with its elements
    printed by the recursive call *under the default delimiter*, the rows of a matrix joined by line feeds; the
    recursion bound (`.fuel`) is never reached -/
theorem code_opStr (d : ℕ) (x : SVal) (delimiter : String) :
    ∃ σ, Op_str.run d x delimiter {} = .ok σ ∧ σ.ret = some (opStr d delimiter x) :=
  ⟨_, code_opStr_rec d _ x delimiter {} (Nat.lt_succ_self _), rfl⟩

/-- the external `Op.str(x)` of a float of the exporter ties (`Dec.fmt`, rendered) is this function on a float -/
theorem opStr_num (d : ℕ) (delimiter : String) (x : Num) : opStr d delimiter (.num x) = Dec.render d (Dec.fmt d x) := rfl

end Py.Raised
