import FlVerif.Gen.CodeWave5XSet
import FlVerif.Lemmas.CodeSettings

/-! # Tie A for `Settings.__init__` and the lazy property `Settings.factory_manager`; `Settings.context` on objects
whose attributes may be `None` (the factory manager before its first use) -/

namespace Op.Settings
open Gen.Code Py.Settings

theorem attr_values :
    Py.W5.attr "float_type" = 0 ∧ Py.W5.attr "decimals" = 1 ∧ Py.W5.attr "atol" = 2 ∧ Py.W5.attr "rtol" = 3 ∧
    Py.W5.attr "alias" = 4 ∧ Py.W5.attr "logger" = 5 ∧ Py.W5.attr "factory_manager" = 6 := by decide

/-- **`Settings.__init__` as translated from the source = `Op.Settings.init`** -/
theorem code_settingsInit (s0 args : OStore) (defaultLogger : Val) :
    ∃ σ, Settings_init.run args defaultLogger s0 {} = .ok σ ∧ σ.store = init s0 args defaultLogger := by
  refine ⟨_, rfl, ?_⟩
  obtain ⟨a0, a1, a2, a3, a4, a5, a6⟩ := attr_values
  funext k
  simp only [init, fmKey, a0, a1, a2, a3, a4, a5, a6, setattr]
  by_cases h6 : k = 6
  · simp [h6]
  by_cases h5 : k = 5
  · simp [h5]
  by_cases h4 : k = 4
  · simp [h4]
  by_cases h3 : k = 3
  · simp [h3]
  by_cases h2 : k = 2
  · simp [h2]
  by_cases h1 : k = 1
  · simp [h1]
  by_cases h0 : k = 0
  · simp [h0]
  have : ¬ k ≤ 6 := by omega
  simp only [h0, h1, h2, h3, h4, h5, h6, this, if_false]

/-- **the getter of `Settings.factory_manager` as translated from the source = `Op.Settings.getManager`** -/
theorem code_factoryManager (s : OStore) (fresh : Val) :
    ∃ σ, Settings_factory_manager_get.run s fresh {} = .ok σ ∧
      σ.ret = some (some (getManager fresh s).1) ∧ σ.store = (getManager fresh s).2 := by
  unfold Settings_factory_manager_get.run getManager fmKey
  cases h : s (Py.W5.attr "factory_manager") with
  | none =>
    simp only [h, Option.isNone_none, if_true]
    refine ⟨_, rfl, ?_, rfl⟩
    simp [setattr]
  | some m =>
    simp only [h, Option.isNone_some, Bool.false_eq_true, if_false]
    exact ⟨_, rfl, by simp [h], rfl⟩

/-- the setter -/
theorem code_setFactoryManager (s : OStore) (v : Option Val) :
    ∃ σ, Settings_factory_manager_set.run s v {} = .ok σ ∧ σ.store = setattr s fmKey v := ⟨_, rfl, rfl⟩

/-- the first access of an object whose field is `None` creates the manager and stores it -/
theorem getManager_first (fresh : Val) (s : OStore) (h : s fmKey = none) :
    getManager fresh s = (fresh, setattr s fmKey (some fresh)) := by
  simp only [getManager, h]

/-- every later access returns the same object and changes nothing (whatever `FactoryManager()` would create) -/
theorem getManager_again (fresh fresh' : Val) (s : OStore) :
    getManager fresh' (getManager fresh s).2 = ((getManager fresh s).1, (getManager fresh s).2) := by
  unfold getManager
  cases h : s fmKey with
  | none => simp [setattr]
  | some m => simp [h]

/-! ## `Settings.context` on an object with optional attributes -/

/-- the arguments that are not `None` -/
def namedO (kwargs : List (Nat × Option Nat)) : List (Nat × Option Nat) := kwargs.filter (fun p => p.2.isSome)

theorem code_contextSettingsO : ∀ (kwargs : List (Nat × Option Nat)),
    List.map (fun (p : Nat × Option Nat) => (p.1, p.2))
      (List.filter (fun (p : Nat × Option Nat) => (!(false || (p.2).isNone))) kwargs) = namedO kwargs
  | [] => rfl
  | (k, none) :: rest => by
    have ih := code_contextSettingsO rest
    simp only [namedO] at ih ⊢
    simpa using ih
  | (k, some v) :: rest => by
    have ih := code_contextSettingsO rest
    simp only [namedO] at ih ⊢
    simpa using ih

theorem code_setAllO (kwargs : List (Nat × Option Nat)) (store0 : OStore) :
    ∀ (l : List (Nat × Option Nat)) (σ : Settings_context_enter.S),
    ∃ σ', Settings_context_enter.loop1 kwargs store0 l σ = .ok σ' ∧
      σ'.store = l.foldl (fun s p => setattr s p.1 p.2) σ.store ∧
      σ'.rollback_settings = σ.rollback_settings ∧ σ'.context_settings = σ.context_settings
  | [], σ => ⟨σ, rfl, rfl, rfl, rfl⟩
  | p :: l, σ => by
    simp only [Settings_context_enter.loop1, List.foldl_cons]
    exact code_setAllO kwargs store0 l { σ with key := p.1, value := p.2, store := setattr σ.store p.1 p.2 }

theorem code_restoreO : ∀ (l : List (Nat × Option Nat)) (σ : Settings_context_exit.S),
    ∃ σ', Settings_context_exit.loop1 l σ = .ok σ' ∧
      σ'.store = l.foldl (fun s p => setattr s p.1 (σ.rollback_settings p.1)) σ.store
  | [], σ => ⟨σ, rfl, rfl⟩
  | p :: l, σ => by
    simp only [Settings_context_exit.loop1, List.foldl_cons]
    exact code_restoreO l { σ with key := p.1, value := p.2, store := setattr σ.store p.1 (σ.rollback_settings p.1) }

/-- **`Settings.context` on any object** (attributes may be `None`): entering assigns the arguments that are not
    `None`, in order; the `finally` block assigns to the same attributes what they held at entry - also a `None` -/
theorem code_contextO (kwargs : List (Nat × Option Nat)) (s s' : OStore) :
    ∃ σ, Settings_context_enter.run kwargs s {} = .ok σ ∧
      σ.store = (namedO kwargs).foldl (fun t p => setattr t p.1 p.2) s ∧
      ∃ τ, Settings_context_exit.run
          { context_settings := σ.context_settings, rollback_settings := σ.rollback_settings,
            key := σ.key, value := σ.value, store := s' } = .ok τ ∧
        τ.store = (namedO kwargs).foldl (fun t p => setattr t p.1 (s p.1)) s' := by
  unfold Settings_context_enter.run
  simp only [code_contextSettingsO]
  obtain ⟨σ, h1, h2, h3, h4⟩ := code_setAllO kwargs s (namedO kwargs)
    { context_settings := namedO kwargs, rollback_settings := s, store := s }
  simp only [h1, bind, Except.bind]
  refine ⟨σ, rfl, h2, ?_⟩
  unfold Settings_context_exit.run
  obtain ⟨τ, g1, g2⟩ := code_restoreO (namedO kwargs)
    { context_settings := σ.context_settings, rollback_settings := σ.rollback_settings,
      key := σ.key, value := σ.value, store := s' }
  simp only [h4] at g1 ⊢
  simp only [g1, bind, Except.bind]
  refine ⟨τ, rfl, ?_⟩
  rw [g2]
  simp only [h3]

/-- **a context that sets `factory_manager`** (the last keyword parameter) replaces the field for the body of the
    `with` block and restores the *field* on exit - `None` again when the manager had not been created before -/
theorem context_factoryManager (pre : List (Nat × Option Nat)) (m : Val) (s s' : OStore) :
    ∃ σ, Settings_context_enter.run (pre ++ [(fmKey, some m)]) s {} = .ok σ ∧ σ.store fmKey = some m ∧
      ∃ τ, Settings_context_exit.run
          { context_settings := σ.context_settings, rollback_settings := σ.rollback_settings,
            key := σ.key, value := σ.value, store := s' } = .ok τ ∧
        τ.store fmKey = s fmKey := by
  obtain ⟨σ, h1, h2, τ, h3, h4⟩ := code_contextO (pre ++ [(fmKey, some m)]) s s'
  have hn : namedO (pre ++ [(fmKey, some m)]) = namedO pre ++ [(fmKey, some m)] := by
    simp [namedO, List.filter_append]
  refine ⟨σ, h1, ?_, τ, h3, ?_⟩
  · rw [h2, hn, List.foldl_append]; simp [setattr]
  · rw [h4, hn, List.foldl_append]; simp [setattr]

end Op.Settings
