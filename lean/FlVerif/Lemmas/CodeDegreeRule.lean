import FlVerif.Gen.CodeDegree
import FlVerif.Lemmas.CodeDegree
import FlVerif.Lemmas.CodeConsequent

/-! # Tie A for the methods of `Rule` that the activation methods call: `is_loaded`, `deactivate`, `activate_with`,
`trigger`

The translated activation methods (`Gen/CodeActivation.lean`) use `Op.Activation.deactivate / activateWith / trigger`
as *externals* for these calls; here the four methods themselves are translated from the current source and proved
equal to those definitions (and `trigger` to `Op.Consequent.trigger`, the model of C07).  A rule object is seen
through what the method reads (`loaded` = `self.is_loaded()`, `enabled`, `weight`, the field `activation_degree`,
the callees `antecedent.activation_degree` and `consequent.modify` - the latter two being their own translations)
and the fields it writes (`self_activation_degree`, `self_triggered`). -/

namespace Op.Activation
open Gen.Code Spec.Activation Spec.Consequent Py.Cons Py.Deg Lang

/-- `Rule.is_loaded`: the conjunction of the two parts -/
theorem code_isLoaded (a c : Bool) : ∃ σ, Rule_is_loaded_flags.run a c {} = .ok σ ∧ σ.ret = some (a && c) :=
  ⟨_, rfl, rfl⟩

/-- `Rule.deactivate` = `Op.Activation.deactivate` (never raises; whatever the two fields held before - the state `σ₀` -
    they are reset, nothing else is written) -/
theorem code_deactivate (r : Rule Rat) (σ₀ : Rule_deactivate.S) :
    ∃ σ, Rule_deactivate.run σ₀ = .ok σ ∧
      { r with actDegree := σ.self_activation_degree, triggered := σ.self_triggered } = deactivate r :=
  ⟨_, rfl, rfl⟩

/-- `Rule.activate_with`, given what the antecedent returns or raises -/
theorem code_activateWith_callee (w : X Rat) (ante : Py.M (X Rat)) :
    Rule_activate_with.run false w ante {} = .error .runtime ∧
    match ante with
    | .error e => Rule_activate_with.run true w ante {} = .error e
    | .ok d => ∃ σ, Rule_activate_with.run true w ante {} = .ok σ ∧ σ.ret = some (X.mul w d) ∧
        σ.self_activation_degree = X.mul w d := by
  refine ⟨rfl, ?_⟩
  cases ante with
  | error e => rfl
  | ok d => exact ⟨_, rfl, rfl, rfl⟩

/-- the antecedent's evaluation as the callee of `Rule.activate_with`: the translated `Antecedent.activation_degree`
    on the loaded tree `a` -/
def anteCall (c : DegCtx Rat) (a : ANode) : Py.M (X Rat) :=
  Antecedent_activation_degree.run c (ofANode a) c.conj c.disj .none {} >>= fun s => Py.deref s.ret

theorem anteCall_eq (c : DegCtx Rat) (a : ANode) : anteCall c a = degToPy (degree c a) := by
  have h := code_activationDegree_loaded c a
  unfold anteCall
  cases hd : degree c a with
  | error k => rw [hd] at h; simp only at h; rw [h]; rfl
  | ok d =>
    rw [hd] at h
    obtain ⟨σ, h1, h2⟩ := h
    rw [h1]
    simp [bind, Except.bind, h2, degToPy]

/-- **`Rule.activate_with` = `Op.activateWith`** (the model of C06: weight × degree of the loaded antecedent, or its
    `ValueError`) and `Op.Activation.activateWith` (the model of C08, which reads the product from the field `degree` of
    its rule) -/
theorem code_activateWith (c : DegCtx Rat) (w : X Rat) (a : ANode) :
    Rule_activate_with.run false w (anteCall c a) {} = .error .runtime ∧
    match Op.activateWith c w a with
    | .error k => Rule_activate_with.run true w (anteCall c a) {} = .error k.toPy
    | .ok d => ∃ σ, Rule_activate_with.run true w (anteCall c a) {} = .ok σ ∧ σ.ret = some d ∧
        σ.self_activation_degree = d ∧
        ∀ r : Rule Rat, r.degree = d →
          { r with actDegree := σ.self_activation_degree } = Op.Activation.activateWith r := by
  have h := code_activateWith_callee w (anteCall c a)
  refine ⟨h.1, ?_⟩
  have h2 := h.2
  rw [anteCall_eq] at h2 ⊢
  unfold Op.activateWith
  cases hd : degree c a with
  | error k => rw [hd] at h2; exact h2
  | ok d =>
    rw [hd] at h2
    obtain ⟨σ, h1, h3, h4⟩ := h2
    refine ⟨σ, h1, h3, h4, fun r hr => ?_⟩
    simp only [Op.Activation.activateWith, h4, hr]

/-- **`Rule.trigger` = `Op.Consequent.trigger`** (C07) **and `Op.Activation.trigger`** (C08).  A rule that is not
    loaded raises `RuntimeError`; a loaded one with the conclusions `cs` (not empty: the consequent is loaded) sets
    `triggered` and adds the activated terms of the model; `calls` (the degrees `consequent.modify` was called with)
    are the contributions `Op.Activation.trigger` lists. -/
theorem code_trigger (san : X Rat → X Rat) (impl : String) (enabled : Bool) (d : X Rat) (triggered₀ : Bool) :
    (∀ ps : List Py.Cons.Proposition,
      Rule_trigger.run san impl false enabled d ps { self_triggered := triggered₀ } = .error .runtime) ∧
    (∀ cs : List (Concl (X Rat)), cs ≠ [] →
      ∃ σ, Rule_trigger.run san impl true enabled d (cs.map ofConcl) { self_triggered := triggered₀ } = .ok σ ∧
        (σ.self_triggered, σ.out) = Op.Consequent.trigger san (X.lt (.fin 0)) enabled d impl cs ∧
        σ.self_activation_degree = d ∧
        ∀ (i : Nat) (r : Rule Rat), r.enabled = enabled → r.actDegree = d →
          ({ r with triggered := σ.self_triggered }, σ.calls.map (fun x => (i, x))) = Op.Activation.trigger i r) := by
  refine ⟨fun ps => rfl, fun cs hne => ?_⟩
  cases enabled with
  | false =>
    refine ⟨_, rfl, rfl, rfl, fun i r he hd => ?_⟩
    simp only [Op.Activation.trigger, he, Bool.false_eq_true, if_false]
    rfl
  | true =>
    obtain ⟨σm, hm, hout⟩ := Op.Consequent.code_modify_loaded san impl d cs hne
    refine ⟨{ self_activation_degree := d, self_triggered := X.lt (.fin 0) d, calls := [d], out := σm.out }, ?_, ?_, rfl,
      fun i r he hd => ?_⟩
    · unfold Rule_trigger.run
      simp only [Bool.not_true, Bool.false_eq_true, if_false, if_true]
      rw [hm]
      rfl
    · simp [Op.Consequent.trigger, hout]
    · simp [Op.Activation.trigger, he, hd]

end Op.Activation
