import FlVerif.Lemmas.CodeFllExport

/-! # Tie A for the FLL exporter, part 3: `FllExporter.format`

The regenerated recursive function (fuel = nesting depth of the value + 1) returns `Py.Fll.format`, the function
the other exporter ties use as the meaning of `self.format(key, value)`. -/

set_option linter.unusedSimpArgs false

namespace Py.Fll
open Op.FllIO Dec Gen.Code

theorem depth_le_depthL : ∀ (l : List Val) (v : Val), v ∈ l → Val.depth v ≤ Val.depthL l
  | [], _, h => by simp at h
  | x :: r, v, h => by
    rw [Val.depthL]
    rcases List.mem_cons.1 h with rfl | h
    · exact Nat.le_max_left _ _
    · exact Nat.le_trans (depth_le_depthL r v h) (Nat.le_max_right _ _)

/-- the loop over the items of a tuple, for any callee that behaves like `format` on the items -/
theorem format_loop (d : ℕ) (key : String) (value : Val)
    (call : (d : ℕ) → (key : String) → (value : Val) → FllExporter_format.S → Py.M FllExporter_format.S) :
    ∀ (l : List Val) (σ : FllExporter_format.S),
      (∀ v ∈ l, ∀ k σ0, ∃ σ', call d k v σ0 = .ok σ' ∧ σ'.ret = some (format d k v)) →
      ∃ σ', FllExporter_format.loop1 d key value call l σ = .ok σ' ∧ σ'.result = σ.result ++ piecesL d l
  | [], σ, _ => ⟨σ, rfl, by simp [piecesL]⟩
  | x :: rest, σ, h => by
    obtain ⟨r, hr, hret⟩ := h x (by simp) "" {}
    have hrest : ∀ v ∈ rest, ∀ k σ0, ∃ σ', call d k v σ0 = .ok σ' ∧ σ'.ret = some (format d k v) :=
      fun v hv => h v (by simp [hv])
    have hf : format d "" x = Py.joinSp (pieces d x) := by simp [format]
    simp only [FllExporter_format.loop1, hr, hret, bind, Except.bind, Py.deref_some, hf]
    rw [piecesL]
    by_cases he : Py.joinSp (pieces d x) = ""
    · simp only [he, bne_self_eq_false, Bool.false_eq_true, if_false, if_true, List.nil_append]
      exact format_loop d key value call rest _ hrest
    · simp only [bne_iff_ne, ne_eq, he, not_false_eq_true, if_true, if_false]
      obtain ⟨σ', h1, h2⟩ := format_loop d key value call rest
        { σ with v_i := x, f_value := Py.joinSp (pieces d x), result := σ.result ++ [Py.joinSp (pieces d x)] } hrest
      exact ⟨σ', h1, by simpa using h2⟩

theorem format_rec (d : ℕ) : ∀ (fuel : ℕ) (key : String) (v : Val) (σ0 : FllExporter_format.S),
    Val.depth v < fuel → ∃ σ, FllExporter_format.rec fuel d key v σ0 = .ok σ ∧ σ.ret = some (format d key v)
  | 0, _, _, _, h => by omega
  | fuel + 1, key, v, σ0, h => by
    cases v with
    | str s =>
      by_cases hs : s = ""
      · subst hs
        by_cases hk : key = "" <;>
          simp [FllExporter_format.rec, Val.isEmptyStr, Val.isNone, Val.isBool, Val.isNum, Val.isTuple, Val.strOf,
          Val.boolText, Val.numStr, format, pieces, hk]
      · by_cases hk : key = "" <;>
          simp [FllExporter_format.rec, Val.isEmptyStr, Val.isNone, Val.isBool, Val.isNum, Val.isTuple, Val.strOf,
          Val.boolText, Val.numStr, format, pieces, hk, hs]
    | none =>
      by_cases hk : key = "" <;>
        simp [FllExporter_format.rec, Val.isEmptyStr, Val.isNone, Val.isBool, Val.isNum, Val.isTuple, Val.strOf,
          Val.boolText, Val.numStr, format, pieces, hk]
    | bool b =>
      by_cases hk : key = "" <;> cases b <;>
        simp [FllExporter_format.rec, Val.isEmptyStr, Val.isNone, Val.isBool, Val.isNum, Val.isTuple, Val.strOf,
          Val.boolText, Val.numStr, format, pieces, hk]
    | num x =>
      by_cases hk : key = "" <;>
        simp [FllExporter_format.rec, Val.isEmptyStr, Val.isNone, Val.isBool, Val.isNum, Val.isTuple, Val.strOf,
          Val.boolText, Val.numStr, format, pieces, hk]
    | other t =>
      by_cases hk : key = "" <;>
        simp [FllExporter_format.rec, Val.isEmptyStr, Val.isNone, Val.isBool, Val.isNum, Val.isTuple, Val.strOf,
          Val.boolText, Val.numStr, format, pieces, hk]
    | tuple l =>
      have hd : Val.depthL l < fuel := by
        rw [Val.depth] at h; omega
      have hcall : ∀ v ∈ l, ∀ k σ0, ∃ σ', FllExporter_format.rec fuel d k v σ0 = .ok σ' ∧
          σ'.ret = some (format d k v) :=
        fun v hv k σ0 => format_rec d fuel k v σ0 (Nat.lt_of_le_of_lt (depth_le_depthL l v hv) hd)
      by_cases hk : key = ""
      · obtain ⟨σ', h1, h2⟩ := format_loop d key (.tuple l) (FllExporter_format.rec fuel) l
          { σ0 with result := [] } hcall
        simp [FllExporter_format.rec, Val.isEmptyStr, Val.isNone, Val.isBool, Val.isNum, Val.isTuple, Val.items,
          format, pieces, hk] at h1 h2 ⊢
        subst hk
        rw [h1]
        simp [bind, Except.bind, h2]
      · obtain ⟨σ', h1, h2⟩ := format_loop d key (.tuple l) (FllExporter_format.rec fuel) l
          { σ0 with result := [key ++ ":"] } hcall
        simp [FllExporter_format.rec, Val.isEmptyStr, Val.isNone, Val.isBool, Val.isNum, Val.isTuple, Val.items,
          format, pieces, hk] at h1 h2 ⊢
        rw [h1]
        simp [bind, Except.bind, h2]

theorem code_fllFormat (d : ℕ) (key : String) (v : Val) :
    ∃ σ, FllExporter_format.run d key v {} = .ok σ ∧ σ.ret = some (format d key v) :=
  format_rec d _ key v {} (Nat.lt_succ_self _)

end Py.Fll
