import FlVerif.Op.Activation
import FlVerif.Lemmas.SortBy
import FlVerif.Lemmas.XOrder

/-! helper lemmas for C08: enumeration, selection flags, the order of Highest / Lowest, the loops -/

namespace Spec.Activation
variable {α : Type} [Field α] [LinearOrder α] [IsStrictOrderedRing α]

/-! ## enumeration -/

theorem mem_enum {β : Type} {k i : Nat} {x : β} {l : List β} (h : (i, x) ∈ enum k l) : k ≤ i ∧ l[i - k]? = some x := by
  induction l generalizing k with
  | nil => simp [enum] at h
  | cons y ys ih =>
    simp only [enum, List.mem_cons, Prod.mk.injEq] at h
    rcases h with ⟨rfl, rfl⟩ | h
    · simp
    · obtain ⟨h1, h2⟩ := ih h
      refine ⟨by omega, ?_⟩
      have : i - k = (i - (k + 1)) + 1 := by omega
      rw [this, List.getElem?_cons_succ]; exact h2

theorem enum_map_snd {β : Type} (k : Nat) (l : List β) : (enum k l).map (·.2) = l := by
  induction l generalizing k with
  | nil => rfl
  | cons y ys ih => simp [enum, ih]

theorem enum_length {β : Type} (k : Nat) (l : List β) : (enum k l).length = l.length := by
  induction l generalizing k with
  | nil => rfl
  | cons y ys ih => simp [enum, ih]

theorem enum_fst_ge {β : Type} {k : Nat} {l : List β} {p : Nat × β} (h : p ∈ enum k l) : k ≤ p.1 := by
  obtain ⟨i, x⟩ := p; exact (mem_enum h).1

theorem enum_nodup {β : Type} (k : Nat) (l : List β) : ((enum k l).map (·.1)).Nodup := by
  induction l generalizing k with
  | nil => simp [enum]
  | cons y ys ih =>
    simp only [enum, List.map_cons, List.nodup_cons]
    refine ⟨?_, ih (k + 1)⟩
    intro hm
    obtain ⟨p, hp, hpk⟩ := List.mem_map.1 hm
    have := enum_fst_ge hp
    omega

theorem getElem?_enum {β : Type} (k : Nat) (l : List β) (j : Nat) : (enum k l)[j]? = (l[j]?).map (fun x => (k + j, x)) := by
  induction l generalizing k j with
  | nil => simp [enum]
  | cons y ys ih =>
    cases j with
    | zero => simp [enum]
    | succ j => simp only [enum, List.getElem?_cons_succ, ih]; congr 1; funext x; congr 1; omega

/-- members of a list with distinct first components are determined by that component -/
theorem eq_of_fst_eq {β : Type} {l : List (Nat × β)} (hnd : (l.map (·.1)).Nodup) {p q : Nat × β}
    (hp : p ∈ l) (hq : q ∈ l) (h : p.1 = q.1) : p = q := by
  induction l with
  | nil => simp at hp
  | cons x xs ih =>
    simp only [List.map_cons, List.nodup_cons] at hnd
    rcases List.mem_cons.1 hp with rfl | hp' <;> rcases List.mem_cons.1 hq with rfl | hq'
    · rfl
    · exact absurd (List.mem_map.2 ⟨q, hq', h.symm⟩) hnd.1
    · exact absurd (List.mem_map.2 ⟨p, hp', h⟩) hnd.1
    · exact ih hnd.2 hp' hq'

/-! ## selection flags -/

theorem isSelected_cons (q : Nat × Rule α) (S : List (Nat × Rule α)) (i : Nat) :
    isSelected (q :: S) i = (q.1 == i || isSelected S i) := by simp [isSelected]

theorem isSelected_false {S : List (Nat × Rule α)} {i : Nat} (h : ∀ q ∈ S, q.1 ≠ i) : isSelected S i = false := by
  simp only [isSelected, List.any_eq_false, beq_iff_eq]
  intro q hq; exact h q hq

theorem isSelected_iff {S : List (Nat × Rule α)} {i : Nat} : isSelected S i = true ↔ i ∈ S.map (·.1) := by
  simp [isSelected, List.any_eq_true]

theorem isSelected_filter {l : List (Nat × Rule α)} (hnd : (l.map (·.1)).Nodup) (f : Nat × Rule α → Bool)
    {p : Nat × Rule α} (hp : p ∈ l) : isSelected (l.filter f) p.1 = f p := by
  cases hf : f p
  · apply isSelected_false
    intro q hq hqp
    have hq' := List.mem_filter.1 hq
    have := eq_of_fst_eq hnd hq'.1 hp hqp
    subst this; rw [hf] at hq'; exact absurd hq'.2 (by simp)
  · rw [isSelected_iff]; exact List.mem_map.2 ⟨p, List.mem_filter.2 ⟨hp, hf⟩, rfl⟩

/-- flags that agree on the enumerated rules give the same outcome -/
theorem outcome_rules_congr (S : List (Nat × Rule α)) (st : Rule α → X α) (rs : List (Rule α))
    (flag : Nat × Rule α → Bool) (h : ∀ p ∈ enum 0 rs, isSelected S p.1 = flag p) :
    (outcome S st rs).rules = (enum 0 rs).map (fun p =>
      if flag p then settle true (st p.2) p.2 else settle false p.2.degree p.2) := by
  simp only [outcome]
  apply List.map_congr_left
  intro p hp; rw [h p hp]

/-! ## the orders of Highest and Lowest -/

theorem betterHigh_trans (a b c : Nat × Rule α) (h₁ : betterHigh a b = true) (h₂ : betterHigh b c = true) :
    betterHigh a c = true := by
  simp only [betterHigh, Bool.or_eq_true, Bool.and_eq_true, decide_eq_true_eq] at *
  rcases h₁ with h₁ | ⟨e₁, i₁⟩ <;> rcases h₂ with h₂ | ⟨e₂, i₂⟩
  · exact Or.inl (X.lt_trans' h₂ h₁)
  · have := X.eq_true_imp e₂; rw [← this]; exact Or.inl h₁
  · have := X.eq_true_imp e₁; rw [this]; exact Or.inl h₂
  · have := X.eq_true_imp e₂; rw [← this]; exact Or.inr ⟨e₁, by omega⟩

theorem betterHigh_asymm (a b : Nat × Rule α) (h : betterHigh a b = true) : betterHigh b a = false := by
  simp only [betterHigh, Bool.or_eq_true, Bool.and_eq_true, decide_eq_true_eq, Bool.or_eq_false_iff,
    Bool.and_eq_false_iff, decide_eq_false_iff_not] at *
  rcases h with h | ⟨e, i⟩
  · refine ⟨X.lt_asymm' h, Or.inl ?_⟩
    cases he : X.eq b.2.degree a.2.degree
    · rfl
    · have := X.eq_true_imp he; rw [this, X.lt_irrefl'] at h; exact absurd h (by simp)
  · have := X.eq_true_imp e
    refine ⟨by rw [this]; exact X.lt_irrefl' _, Or.inr (by omega)⟩

theorem betterLow_trans (a b c : Nat × Rule α) (h₁ : betterLow a b = true) (h₂ : betterLow b c = true) :
    betterLow a c = true := by
  simp only [betterLow, Bool.or_eq_true, Bool.and_eq_true, decide_eq_true_eq] at *
  rcases h₁ with h₁ | ⟨e₁, i₁⟩ <;> rcases h₂ with h₂ | ⟨e₂, i₂⟩
  · exact Or.inl (X.lt_trans' h₁ h₂)
  · have := X.eq_true_imp e₂; rw [← this]; exact Or.inl h₁
  · have := X.eq_true_imp e₁; rw [this]; exact Or.inl h₂
  · have := X.eq_true_imp e₂; rw [← this]; exact Or.inr ⟨e₁, by omega⟩

theorem betterLow_asymm (a b : Nat × Rule α) (h : betterLow a b = true) : betterLow b a = false := by
  simp only [betterLow, Bool.or_eq_true, Bool.and_eq_true, decide_eq_true_eq, Bool.or_eq_false_iff,
    Bool.and_eq_false_iff, decide_eq_false_iff_not] at *
  rcases h with h | ⟨e, i⟩
  · refine ⟨X.lt_asymm' h, Or.inl ?_⟩
    cases he : X.eq b.2.degree a.2.degree
    · rfl
    · have := X.eq_true_imp he; rw [this, X.lt_irrefl'] at h; exact absurd h (by simp)
  · have := X.eq_true_imp e
    refine ⟨by rw [← this]; exact X.lt_irrefl' _, Or.inr (by omega)⟩

theorem positive_ne_nan {p : Nat × Rule α} (h : positive p = true) : p.2.degree ≠ X.nan := by
  simp only [positive, Bool.and_eq_true] at h
  exact X.ne_nan_of_pos h.2

/-- on rules with positive degrees and distinct indices both orders are strict total orders -/
theorem strictOn_betterHigh {l : List (Nat × Rule α)} (hnd : (l.map (·.1)).Nodup) (hpos : ∀ p ∈ l, positive p = true) :
    StrictOn betterHigh l := by
  refine ⟨fun a _ b _ c _ => betterHigh_trans a b c, fun a _ b _ => betterHigh_asymm a b, ?_⟩
  intro a ha b hb hne
  have hi : a.1 ≠ b.1 := fun e => hne (eq_of_fst_eq hnd ha hb e)
  simp only [betterHigh, Bool.or_eq_true, Bool.and_eq_true, decide_eq_true_eq]
  rcases X.trichotomy (positive_ne_nan (hpos a ha)) (positive_ne_nan (hpos b hb)) with h | h | h
  · exact Or.inr (Or.inl h)
  · rcases Nat.lt_or_gt_of_ne hi with h' | h'
    · exact Or.inl (Or.inr ⟨h, h'⟩)
    · exact Or.inr (Or.inr ⟨by rw [X.eq_comm']; exact h, h'⟩)
  · exact Or.inl (Or.inl h)

theorem strictOn_betterLow {l : List (Nat × Rule α)} (hnd : (l.map (·.1)).Nodup) (hpos : ∀ p ∈ l, positive p = true) :
    StrictOn betterLow l := by
  refine ⟨fun a _ b _ c _ => betterLow_trans a b c, fun a _ b _ => betterLow_asymm a b, ?_⟩
  intro a ha b hb hne
  have hi : a.1 ≠ b.1 := fun e => hne (eq_of_fst_eq hnd ha hb e)
  simp only [betterLow, Bool.or_eq_true, Bool.and_eq_true, decide_eq_true_eq]
  rcases X.trichotomy (positive_ne_nan (hpos a ha)) (positive_ne_nan (hpos b hb)) with h | h | h
  · exact Or.inl (Or.inl h)
  · rcases Nat.lt_or_gt_of_ne hi with h' | h'
    · exact Or.inl (Or.inr ⟨h, h'⟩)
    · exact Or.inr (Or.inr ⟨by rw [X.eq_comm']; exact h, h'⟩)
  · exact Or.inr (Or.inl h)

theorem filter_nodup_fst {l : List (Nat × Rule α)} (hnd : (l.map (·.1)).Nodup) (f : Nat × Rule α → Bool) :
    ((l.filter f).map (·.1)).Nodup :=
  hnd.sublist ((List.filter_sublist).map _)

end Spec.Activation
