import FlVerif.Gen.CodeActivation
import FlVerif.Lemmas.Activation

/-! # Tie A for the seven activation methods: the loops translated from the current source of
`fuzzylite/activation.py` (`Gen.Code.<Cls>_activate`) compute what the model `Op.Activation.activate` computes -/

namespace Op.Activation
open Spec.Activation Gen.Code

/-- the exception class of the translated code that corresponds to the error of the model -/
def Err.toPy : Err → Py.Err
  | .value => .value

/-- a result of the model as a result of the translated code -/
def lift {A : Type} : Except Err A → Py.M A
  | .ok a => .ok a
  | .error e => .error e.toPy

@[simp] theorem lift_ok {A : Type} (a : A) : lift (.ok a : Except Err A) = .ok a := rfl
@[simp] theorem lift_error {A : Type} (e : Err) : lift (.error e : Except Err A) = .error e.toPy := rfl

theorem lift_map_map {A B C : Type} (x : Except Err A) (f : A → B) (g : B → C) :
    lift ((x.map f).map g) = lift (x.map (fun a => g (f a))) := by
  cases x <;> rfl

/-- an equation between the observable part of a run and a result of the model, as the two cases of the theorems -/
theorem agree_error {S A : Type} {g : Py.M S} {e : Err} {f : S → A} (h : g.map f = lift (.error e)) :
    g = .error e.toPy := by
  cases g with
  | error e' => simp only [Except.map, lift, Except.error.injEq] at h; simp only [h]
  | ok s => simp [Except.map, lift] at h

theorem agree_ok {S A : Type} {g : Py.M S} {a : A} {f : S → A} (h : g.map f = lift (.ok a)) :
    ∃ σ, g = .ok σ ∧ f σ = a := by
  cases g with
  | error e' => simp [Except.map] at h
  | ok s => simp only [Except.map, lift, Except.ok.injEq] at h; exact ⟨s, rfl, h⟩

theorem bind_ok_self {S : Type} (g : Py.M S) : (g >>= fun σ => Except.ok σ) = g := by cases g <;> rfl

/-! ## General -/

theorem code_generalLoop (rules : List (Visit Rat)) : ∀ (l : List (Visit Rat)) (σ : General_activate.S),
    (General_activate.loop1 rules l σ).map (fun σ' => (σ'.visited, σ'.fires))
      = .ok (σ.visited ++ (generalLoop l).1, σ.fires ++ (generalLoop l).2)
  | [], σ => by simp [General_activate.loop1, generalLoop, Except.map]
  | (i, r) :: rest, σ => by
    simp only [General_activate.loop1, generalLoop]
    cases h : (deactivate r).loaded <;> simp only [Bool.false_eq_true, if_false, if_true] <;>
      rw [code_generalLoop rules rest] <;> simp [List.append_assoc]

/-! ## First / Last -/

theorem code_countLoop_first (rules : List (Visit Rat)) (n : Nat) (t : X Rat) :
    ∀ (l : List (Visit Rat)) (σ : First_activate.S),
    (First_activate.loop1 rules n t l σ).map (fun σ' => (σ'.visited, σ'.fires))
      = lift ((countLoop n t σ.activated l).map (fun q => (σ.visited ++ q.1, σ.fires ++ q.2)))
  | [], σ => by simp [First_activate.loop1, countLoop, Except.map]
  | (i, r) :: rest, σ => by
    simp only [First_activate.loop1, countLoop]
    cases h : (deactivate r).loaded <;> simp only [Bool.false_eq_true, if_false, if_true]
    · rw [code_countLoop_first rules n t rest, lift_map_map]; simp [List.append_assoc]
    · cases hv : (activateWith (deactivate r)).vector <;>
        simp only [Bool.false_eq_true, if_false, if_true, bind, Except.bind]
      · cases hc : (decide (σ.activated < n) && (X.lt (.fin 0) (activateWith (deactivate r)).actDegree
            && X.le t (activateWith (deactivate r)).actDegree))
        · rw [Bool.and_assoc, hc]
          simp only [Bool.false_eq_true, if_false]
          rw [code_countLoop_first rules n t rest, lift_map_map]; simp [List.append_assoc]
        · rw [Bool.and_assoc, hc]
          simp only [if_true]
          rw [code_countLoop_first rules n t rest, lift_map_map]; simp [List.append_assoc]
      · rfl

theorem code_countLoop_last (rules : List (Visit Rat)) (n : Nat) (t : X Rat) :
    ∀ (l : List (Visit Rat)) (σ : Last_activate.S),
    (Last_activate.loop1 rules n t l σ).map (fun σ' => (σ'.visited, σ'.fires))
      = lift ((countLoop n t σ.activated l).map (fun q => (σ.visited ++ q.1, σ.fires ++ q.2)))
  | [], σ => by simp [Last_activate.loop1, countLoop, Except.map]
  | (i, r) :: rest, σ => by
    simp only [Last_activate.loop1, countLoop]
    cases h : (deactivate r).loaded <;> simp only [Bool.false_eq_true, if_false, if_true]
    · rw [code_countLoop_last rules n t rest, lift_map_map]; simp [List.append_assoc]
    · cases hv : (activateWith (deactivate r)).vector <;>
        simp only [Bool.false_eq_true, if_false, if_true, bind, Except.bind]
      · cases hc : (decide (σ.activated < n) && (X.lt (.fin 0) (activateWith (deactivate r)).actDegree
            && X.le t (activateWith (deactivate r)).actDegree))
        · rw [Bool.and_assoc, hc]
          simp only [Bool.false_eq_true, if_false]
          rw [code_countLoop_last rules n t rest, lift_map_map]; simp [List.append_assoc]
        · rw [Bool.and_assoc, hc]
          simp only [if_true]
          rw [code_countLoop_last rules n t rest, lift_map_map]; simp [List.append_assoc]
      · rfl

/-! ## Threshold -/

theorem code_thresholdLoop (rules : List (Visit Rat)) (c : Comparator) (t : X Rat) :
    ∀ (l : List (Visit Rat)) (σ : Threshold_activate.S),
    (Threshold_activate.loop1 rules c t l σ).map (fun σ' => (σ'.visited, σ'.fires))
      = lift ((thresholdLoop c t l).map (fun q => (σ.visited ++ q.1, σ.fires ++ q.2)))
  | [], σ => by simp [Threshold_activate.loop1, thresholdLoop, Except.map]
  | (i, r) :: rest, σ => by
    simp only [Threshold_activate.loop1, thresholdLoop]
    cases h : (deactivate r).loaded <;> simp only [Bool.false_eq_true, if_false, if_true]
    · rw [code_thresholdLoop rules c t rest, lift_map_map]; simp [List.append_assoc]
    · cases hv : (activateWith (deactivate r)).vector <;>
        simp only [Bool.false_eq_true, if_false, if_true, bind, Except.bind]
      · cases hc : c.eval (activateWith (deactivate r)).actDegree t <;>
          simp only [Bool.false_eq_true, if_false, if_true] <;>
          rw [code_thresholdLoop rules c t rest, lift_map_map] <;> simp [List.append_assoc]
      · rfl

/-! ## the methods with a single loop -/

theorem code_general (rs : List (Rule Rat)) :
    match activate .general rs with
    | .error e => General_activate.run (enum 0 rs) {} = .error e.toPy
    | .ok o => ∃ σ, General_activate.run (enum 0 rs) {} = .ok σ ∧ σ.visited.map (·.2) = o.rules ∧ σ.fires = o.fires := by
  obtain ⟨σ, h1, h2⟩ := agree_ok (code_generalLoop (enum 0 rs) (enum 0 rs) {})
  simp only [activate, General_activate.run, bind_ok_self]
  refine ⟨σ, h1, ?_, ?_⟩
  · rw [(Prod.mk.inj h2).1]; simp [snds]; rfl
  · rw [(Prod.mk.inj h2).2]; simp; rfl

theorem code_first (n : Nat) (t : X Rat) (rs : List (Rule Rat)) :
    match activate (.first n t) rs with
    | .error e => First_activate.run (enum 0 rs) n t {} = .error e.toPy
    | .ok o => ∃ σ, First_activate.run (enum 0 rs) n t {} = .ok σ ∧ σ.visited.map (·.2) = o.rules ∧ σ.fires = o.fires := by
  have h := code_countLoop_first (enum 0 rs) n t (enum 0 rs) { activated := 0 }
  simp only [activate, First_activate.run, bind_ok_self]
  cases hc : countLoop n t 0 (enum 0 rs) with
  | error e => rw [hc] at h; exact agree_error h
  | ok q =>
    rw [hc] at h
    obtain ⟨σ, h1, h2⟩ := agree_ok h
    refine ⟨σ, h1, ?_, ?_⟩
    · rw [(Prod.mk.inj h2).1]; simp [snds]; rfl
    · rw [(Prod.mk.inj h2).2]; simp; rfl

theorem code_last (n : Nat) (t : X Rat) (rs : List (Rule Rat)) :
    match activate (.last n t) rs with
    | .error e => Last_activate.run (enum 0 rs) n t {} = .error e.toPy
    | .ok o => ∃ σ, Last_activate.run (enum 0 rs) n t {} = .ok σ ∧ (σ.visited.map (·.2)).reverse = o.rules ∧
        σ.fires = o.fires := by
  have h := code_countLoop_last (enum 0 rs) n t (enum 0 rs).reverse { activated := 0 }
  simp only [activate, Last_activate.run, bind_ok_self]
  cases hc : countLoop n t 0 (enum 0 rs).reverse with
  | error e => rw [hc] at h; exact agree_error h
  | ok q =>
    rw [hc] at h
    obtain ⟨σ, h1, h2⟩ := agree_ok h
    refine ⟨σ, h1, ?_, ?_⟩
    · rw [(Prod.mk.inj h2).1]; simp [snds, List.map_reverse]; rfl
    · rw [(Prod.mk.inj h2).2]; simp; rfl

theorem code_threshold (c : Comparator) (t : X Rat) (rs : List (Rule Rat)) :
    match activate (.threshold c t) rs with
    | .error e => Threshold_activate.run (enum 0 rs) c t {} = .error e.toPy
    | .ok o => ∃ σ, Threshold_activate.run (enum 0 rs) c t {} = .ok σ ∧ σ.visited.map (·.2) = o.rules ∧
        σ.fires = o.fires := by
  have h := code_thresholdLoop (enum 0 rs) c t (enum 0 rs) {}
  simp only [activate, Threshold_activate.run, bind_ok_self]
  cases hc : thresholdLoop c t (enum 0 rs) with
  | error e => rw [hc] at h; exact agree_error h
  | ok q =>
    rw [hc] at h
    obtain ⟨σ, h1, h2⟩ := agree_ok h
    refine ⟨σ, h1, ?_, ?_⟩
    · rw [(Prod.mk.inj h2).1]; simp [snds]; rfl
    · rw [(Prod.mk.inj h2).2]; simp; rfl

/-! ## Highest / Lowest -/

/-- `enumerate` of rules that are paired with their positions: the index is the position -/
theorem enumerate_enum {β : Type} : ∀ (k : Nat) (rs : List β),
    ((enum k rs).zipIdx k).map (fun p => (p.2, p.1)) = (enum k rs).map (fun v => (v.1, v))
  | _, [] => rfl
  | k, x :: xs => by simp [enum, List.zipIdx_cons, enumerate_enum (k + 1) xs]

theorem pyEnumerate_enum {β : Type} (rs : List β) : Py.enumerate (enum 0 rs) = (enum 0 rs).map (fun v => (v.1, v)) :=
  enumerate_enum 0 rs

/-- what the first loop of the model returns: one visited rule per rule, heap entries carry positions of the rules -/
theorem pushLoop_inv (key : X Rat → X Rat) : ∀ (l : List (Visit Rat)) (heap : List (X Rat × Nat))
    (q : List (Visit Rat) × List (X Rat × Nat)), pushLoop key heap l = .ok q →
    q.1.length = l.length ∧ ∀ x ∈ q.2, x ∈ heap ∨ ∃ v ∈ l, x.2 = v.1
  | [], heap, q, h => by
    simp only [pushLoop, Except.ok.injEq] at h
    subst h; simp
  | (i, r) :: rest, heap, q, h => by
    simp only [pushLoop] at h
    split at h
    · split at h
      · cases h
      · split at h
        · cases hq : pushLoop key (heappush heap (key (activateWith (deactivate r)).actDegree, i)) rest with
          | error e => rw [hq] at h; cases h
          | ok q' =>
            rw [hq] at h; simp only [Except.map, Except.ok.injEq] at h; subst h
            obtain ⟨h1, h2⟩ := pushLoop_inv key rest _ q' hq
            refine ⟨by simp [h1], fun x hx => ?_⟩
            rcases h2 x hx with hm | ⟨v, hv, hxv⟩
            · rcases List.mem_cons.1 ((insertBy_perm _ _ _).mem_iff.1 hm) with hm' | hm'
              · exact Or.inr ⟨(i, r), by simp, by rw [hm']⟩
              · exact Or.inl hm'
            · exact Or.inr ⟨v, by simp [hv], hxv⟩
        · cases hq : pushLoop key heap rest with
          | error e => rw [hq] at h; cases h
          | ok q' =>
            rw [hq] at h; simp only [Except.map, Except.ok.injEq] at h; subst h
            obtain ⟨h1, h2⟩ := pushLoop_inv key rest _ q' hq
            refine ⟨by simp [h1], fun x hx => ?_⟩
            rcases h2 x hx with hm | ⟨v, hv, hxv⟩
            · exact Or.inl hm
            · exact Or.inr ⟨v, by simp [hv], hxv⟩
    · cases hq : pushLoop key heap rest with
      | error e => rw [hq] at h; cases h
      | ok q' =>
        rw [hq] at h; simp only [Except.map, Except.ok.injEq] at h; subst h
        obtain ⟨h1, h2⟩ := pushLoop_inv key rest _ q' hq
        refine ⟨by simp [h1], fun x hx => ?_⟩
        rcases h2 x hx with hm | ⟨v, hv, hxv⟩
        · exact Or.inl hm
        · exact Or.inr ⟨v, by simp [hv], hxv⟩

theorem code_pushLoop_high (rules : List (Visit Rat)) (n : Nat) : ∀ (l : List (Visit Rat)) (σ : Highest_activate.S),
    (Highest_activate.loop1 rules n (l.map (fun v => (v.1, v))) σ).map
        (fun σ' => (σ'.visited, σ'.activate, σ'.fires, σ'.activated))
      = lift ((pushLoop X.neg σ.activate l).map (fun q => (σ.visited ++ q.1, q.2, σ.fires, σ.activated)))
  | [], σ => by simp [Highest_activate.loop1, pushLoop, Except.map]
  | (i, r) :: rest, σ => by
    simp only [List.map_cons, Highest_activate.loop1, pushLoop]
    cases h : (deactivate r).loaded <;> simp only [Bool.false_eq_true, if_false, if_true]
    · rw [code_pushLoop_high rules n rest, lift_map_map]; simp [List.append_assoc]
    · cases hv : (activateWith (deactivate r)).vector <;>
        simp only [Bool.false_eq_true, if_false, if_true, bind, Except.bind]
      · cases hc : X.lt (.fin 0) (activateWith (deactivate r)).actDegree <;>
          simp only [Bool.false_eq_true, if_false, if_true] <;>
          rw [code_pushLoop_high rules n rest, lift_map_map] <;> simp [List.append_assoc]
      · rfl

/-- `rules[index].trigger(implication)` on the visited rules is `triggerAt id` of the model on their states -/
theorem pyTriggerAt_id (vis : List (Visit Rat)) (fires : List (Fire Rat)) (idx : Nat) (h : idx < vis.length) :
    ∃ vis', Py.Act.triggerAt vis fires idx = .ok (vis', fires ++ (triggerAt id idx (snds vis)).2) ∧
      snds vis' = (triggerAt id idx (snds vis)).1 ∧ vis'.length = vis.length := by
  have hs : (snds vis)[idx]? = some (vis[idx]).2 := by simp [snds, h]
  refine ⟨vis.set idx ((vis[idx]).1, (trigger idx (vis[idx]).2).1), ?_, ?_, by simp⟩
  · simp only [Py.Act.triggerAt, List.getElem?_eq_getElem h, triggerAt, hs, id]
  · simp only [triggerAt, hs, id]
    simp only [snds, List.map_set]

theorem code_popLoop_high (rules : List (Visit Rat)) (n : Nat) : ∀ (fuel : Nat) (σ : Highest_activate.S),
    σ.activate.length < fuel → (∀ x ∈ σ.activate, x.2 < σ.visited.length) →
    (Highest_activate.loop2 rules n fuel σ).map (fun σ' => (snds σ'.visited, σ'.fires))
      = .ok ((popLoop n σ.activated σ.activate (snds σ.visited)).1,
             σ.fires ++ (popLoop n σ.activated σ.activate (snds σ.visited)).2)
  | 0, σ, hf, _ => absurd hf (Nat.not_lt_zero _)
  | fuel + 1, σ, hf, hb => by
    simp only [Highest_activate.loop2]
    cases hA : σ.activate with
    | nil => simp [popLoop, Except.map]
    | cons x heap =>
      rw [hA] at hf hb
      by_cases hk : σ.activated < n
      · simp only [List.isEmpty_cons, Bool.not_false, Bool.true_and, hk, decide_true, if_true, Py.popTop_cons, bind,
          Except.bind, popLoop]
        obtain ⟨vis', h1, h2, h3⟩ := pyTriggerAt_id σ.visited σ.fires x.2 (hb x (by simp))
        simp only [h1]
        rw [code_popLoop_high rules n fuel]
        · simp [h2, List.append_assoc]
        · simp at hf ⊢; omega
        · intro y hy; simp only [h3]; exact hb y (by simp at hy; simp [hy])
      · simp [hk, popLoop, Except.map]

theorem enum_fst_lt {β : Type} {rs : List β} {v : Nat × β} (h : v ∈ enum 0 rs) : v.1 < rs.length := by
  obtain ⟨_, h2⟩ := mem_enum (i := v.1) (x := v.2) h
  obtain ⟨hlt, _⟩ := List.getElem?_eq_some_iff.1 h2
  simpa using hlt

theorem default_list {β : Type} : (default : List β) = [] := rfl

theorem code_highest (n : Nat) (rs : List (Rule Rat)) :
    match activate (.highest n) rs with
    | .error e => Highest_activate.run (enum 0 rs) n {} = .error e.toPy
    | .ok o => ∃ σ, Highest_activate.run (enum 0 rs) n {} = .ok σ ∧ σ.visited.map (·.2) = o.rules ∧
        σ.fires = o.fires := by
  have h := code_pushLoop_high (enum 0 rs) n (enum 0 rs) { activate := [] }
  simp only [activate, Highest_activate.run, bind_ok_self, pyEnumerate_enum]
  cases hc : pushLoop X.neg [] (enum 0 rs) with
  | error e => rw [hc] at h; rw [agree_error h]; rfl
  | ok q =>
    rw [hc] at h
    obtain ⟨σ, h1, h2⟩ := agree_ok h
    obtain ⟨i1, i2⟩ := pushLoop_inv X.neg _ _ q hc
    simp only [Prod.mk.injEq, default_list, List.nil_append] at h2
    obtain ⟨v1, v2, v3, v4⟩ := h2
    rw [h1]; simp only [bind, Except.bind]
    have h3 := code_popLoop_high (enum 0 rs) n (σ.activate.length + 1) { σ with activated := 0 } (Nat.lt_succ_self _)
      (by
        intro x hx
        simp only [v1, v2] at hx ⊢
        rcases i2 x hx with hm | ⟨v, hv, hxv⟩
        · cases hm
        · rw [i1, hxv, enum_length]; exact enum_fst_lt hv)
    obtain ⟨σ', g1, g2⟩ := agree_ok (a := (_, _)) h3
    refine ⟨σ', g1, ?_, ?_⟩
    · have := (Prod.mk.inj g2).1; simp only [snds] at this; rw [this]; simp [v1, v2, snds]
    · rw [(Prod.mk.inj g2).2]; simp [v1, v2, v3, snds]

theorem code_pushLoop_low (rules : List (Visit Rat)) (n : Nat) : ∀ (l : List (Visit Rat)) (σ : Lowest_activate.S),
    (Lowest_activate.loop1 rules n (l.map (fun v => (v.1, v))) σ).map
        (fun σ' => (σ'.visited, σ'.activate, σ'.fires, σ'.activated))
      = lift ((pushLoop id σ.activate l).map (fun q => (σ.visited ++ q.1, q.2, σ.fires, σ.activated)))
  | [], σ => by simp [Lowest_activate.loop1, pushLoop, Except.map]
  | (i, r) :: rest, σ => by
    simp only [List.map_cons, Lowest_activate.loop1, pushLoop]
    cases h : (deactivate r).loaded <;> simp only [Bool.false_eq_true, if_false, if_true]
    · rw [code_pushLoop_low rules n rest, lift_map_map]; simp [List.append_assoc]
    · cases hv : (activateWith (deactivate r)).vector <;>
        simp only [Bool.false_eq_true, if_false, if_true, bind, Except.bind]
      · cases hc : X.lt (.fin 0) (activateWith (deactivate r)).actDegree <;>
          simp only [Bool.false_eq_true, if_false, if_true] <;>
          rw [code_pushLoop_low rules n rest, lift_map_map] <;> simp [List.append_assoc]
      · rfl

theorem code_popLoop_low (rules : List (Visit Rat)) (n : Nat) : ∀ (fuel : Nat) (σ : Lowest_activate.S),
    σ.activate.length < fuel → (∀ x ∈ σ.activate, x.2 < σ.visited.length) →
    (Lowest_activate.loop2 rules n fuel σ).map (fun σ' => (snds σ'.visited, σ'.fires))
      = .ok ((popLoop n σ.activated σ.activate (snds σ.visited)).1,
             σ.fires ++ (popLoop n σ.activated σ.activate (snds σ.visited)).2)
  | 0, σ, hf, _ => absurd hf (Nat.not_lt_zero _)
  | fuel + 1, σ, hf, hb => by
    simp only [Lowest_activate.loop2]
    cases hA : σ.activate with
    | nil => simp [popLoop, Except.map]
    | cons x heap =>
      rw [hA] at hf hb
      by_cases hk : σ.activated < n
      · simp only [List.isEmpty_cons, Bool.not_false, Bool.true_and, hk, decide_true, if_true, Py.popTop_cons, bind,
          Except.bind, popLoop]
        obtain ⟨vis', h1, h2, h3⟩ := pyTriggerAt_id σ.visited σ.fires x.2 (hb x (by simp))
        simp only [h1]
        rw [code_popLoop_low rules n fuel]
        · simp [h2, List.append_assoc]
        · simp at hf ⊢; omega
        · intro y hy; simp only [h3]; exact hb y (by simp at hy; simp [hy])
      · simp [hk, popLoop, Except.map]

theorem code_lowest (n : Nat) (rs : List (Rule Rat)) :
    match activate (.lowest n) rs with
    | .error e => Lowest_activate.run (enum 0 rs) n {} = .error e.toPy
    | .ok o => ∃ σ, Lowest_activate.run (enum 0 rs) n {} = .ok σ ∧ σ.visited.map (·.2) = o.rules ∧
        σ.fires = o.fires := by
  have h := code_pushLoop_low (enum 0 rs) n (enum 0 rs) { activate := [] }
  simp only [activate, Lowest_activate.run, bind_ok_self, pyEnumerate_enum]
  cases hc : pushLoop id [] (enum 0 rs) with
  | error e => rw [hc] at h; rw [agree_error h]; rfl
  | ok q =>
    rw [hc] at h
    obtain ⟨σ, h1, h2⟩ := agree_ok h
    obtain ⟨i1, i2⟩ := pushLoop_inv id _ _ q hc
    simp only [Prod.mk.injEq, default_list, List.nil_append] at h2
    obtain ⟨v1, v2, v3, v4⟩ := h2
    rw [h1]; simp only [bind, Except.bind]
    have h3 := code_popLoop_low (enum 0 rs) n (σ.activate.length + 1) { σ with activated := 0 } (Nat.lt_succ_self _)
      (by
        intro x hx
        simp only [v1, v2] at hx ⊢
        rcases i2 x hx with hm | ⟨v, hv, hxv⟩
        · cases hm
        · rw [i1, hxv, enum_length]; exact enum_fst_lt hv)
    obtain ⟨σ', g1, g2⟩ := agree_ok (a := (_, _)) h3
    refine ⟨σ', g1, ?_, ?_⟩
    · have := (Prod.mk.inj g2).1; simp only [snds] at this; rw [this]; simp [v1, v2, snds]
    · rw [(Prod.mk.inj g2).2]; simp [v1, v2, v3, snds]

/-! ## Proportional -/

theorem code_sumLoop (rules : List (Visit Rat)) : ∀ (l : List (Visit Rat)) (σ : Proportional_activate.S),
    (Proportional_activate.loop1 rules l σ).map (fun σ' => (σ'.visited, σ'.activate, σ'.sum_degrees, σ'.fires))
      = lift ((sumLoop σ.sum_degrees l).map (fun q => (σ.visited ++ q.1, σ.activate ++ q.2.1, q.2.2, σ.fires)))
  | [], σ => by simp [Proportional_activate.loop1, sumLoop, Except.map]
  | (i, r) :: rest, σ => by
    simp only [Proportional_activate.loop1, sumLoop]
    cases h : (deactivate r).loaded <;> simp only [Bool.false_eq_true, if_false, if_true]
    · rw [code_sumLoop rules rest, lift_map_map]; simp [List.append_assoc]
    · cases hv : (activateWith (deactivate r)).vector <;>
        simp only [Bool.false_eq_true, if_false, if_true, bind, Except.bind]
      · cases hc : X.lt (.fin 0) (activateWith (deactivate r)).actDegree <;>
          simp only [Bool.false_eq_true, if_false, if_true] <;>
          rw [code_sumLoop rules rest, lift_map_map] <;> simp [List.append_assoc]
      · rfl

/-- what the first loop of the model returns: one visited rule per rule, the collected rules are positions of rules -/
theorem sumLoop_inv : ∀ (l : List (Visit Rat)) (s : X Rat) (q : List (Visit Rat) × List Nat × X Rat),
    sumLoop s l = .ok q → q.1.length = l.length ∧ ∀ x ∈ q.2.1, ∃ v ∈ l, x = v.1
  | [], s, q, h => by
    simp only [sumLoop, Except.ok.injEq] at h
    subst h; simp
  | (i, r) :: rest, s, q, h => by
    simp only [sumLoop] at h
    split at h
    · split at h
      · cases h
      · split at h
        · cases hq : sumLoop (X.add s (activateWith (deactivate r)).actDegree) rest with
          | error e => rw [hq] at h; cases h
          | ok q' =>
            rw [hq] at h; simp only [Except.map, Except.ok.injEq] at h; subst h
            obtain ⟨h1, h2⟩ := sumLoop_inv rest _ q' hq
            refine ⟨by simp [h1], fun x hx => ?_⟩
            rcases List.mem_cons.1 hx with hm | hm
            · exact ⟨(i, r), by simp, hm⟩
            · obtain ⟨v, hv, hxv⟩ := h2 x hm
              exact ⟨v, by simp [hv], hxv⟩
        · cases hq : sumLoop s rest with
          | error e => rw [hq] at h; cases h
          | ok q' =>
            rw [hq] at h; simp only [Except.map, Except.ok.injEq] at h; subst h
            obtain ⟨h1, h2⟩ := sumLoop_inv rest _ q' hq
            refine ⟨by simp [h1], fun x hx => ?_⟩
            obtain ⟨v, hv, hxv⟩ := h2 x hx
            exact ⟨v, by simp [hv], hxv⟩
    · cases hq : sumLoop s rest with
      | error e => rw [hq] at h; cases h
      | ok q' =>
        rw [hq] at h; simp only [Except.map, Except.ok.injEq] at h; subst h
        obtain ⟨h1, h2⟩ := sumLoop_inv rest _ q' hq
        refine ⟨by simp [h1], fun x hx => ?_⟩
        obtain ⟨v, hv, hxv⟩ := h2 x hx
        exact ⟨v, by simp [hv], hxv⟩

/-- `ref.activation_degree /= sum_degrees; ref.trigger(implication)` on the visited rules is `triggerAt (· / s)` of
    the model on their states -/
theorem pyDivTriggerAt (vis : List (Visit Rat)) (fires : List (Fire Rat)) (idx : Nat) (s : X Rat) (h : idx < vis.length) :
    ∃ vis1 vis', Py.Act.modifyAt vis idx (fun r => { r with actDegree := X.div r.actDegree s }) = .ok vis1 ∧
      Py.Act.triggerAt vis1 fires idx = .ok (vis', fires ++ (triggerAt (fun d => X.div d s) idx (snds vis)).2) ∧
      snds vis' = (triggerAt (fun d => X.div d s) idx (snds vis)).1 ∧ vis'.length = vis.length := by
  have hs : (snds vis)[idx]? = some (vis[idx]).2 := by simp [snds, h]
  refine ⟨vis.set idx ((vis[idx]).1, { (vis[idx]).2 with actDegree := X.div (vis[idx]).2.actDegree s }),
    vis.set idx ((vis[idx]).1, (trigger idx { (vis[idx]).2 with actDegree := X.div (vis[idx]).2.actDegree s }).1),
    ?_, ?_, ?_, by simp⟩
  · simp only [Py.Act.modifyAt, List.getElem?_eq_getElem h]
  · simp only [Py.Act.triggerAt, List.getElem?_set_self h, List.set_set, triggerAt, hs]
  · simp only [triggerAt, hs]
    simp only [snds, List.map_set]

theorem code_divLoop (rules : List (Visit Rat)) : ∀ (idxs : List Nat) (σ : Proportional_activate.S),
    (∀ i ∈ idxs, i < σ.visited.length) →
    (Proportional_activate.loop2 rules idxs σ).map (fun σ' => (snds σ'.visited, σ'.fires))
      = .ok ((divLoop σ.sum_degrees idxs (snds σ.visited)).1,
             σ.fires ++ (divLoop σ.sum_degrees idxs (snds σ.visited)).2)
  | [], σ, _ => by simp [Proportional_activate.loop2, divLoop, Except.map]
  | i :: rest, σ, hb => by
    obtain ⟨vis1, vis', h0, h1, h2, h3⟩ := pyDivTriggerAt σ.visited σ.fires i σ.sum_degrees (hb i (by simp))
    simp only [Proportional_activate.loop2, divLoop, h0, bind, Except.bind, h1]
    rw [code_divLoop rules rest]
    · simp [h2, List.append_assoc]
    · intro y hy; simp only [h3]; exact hb y (by simp [hy])

theorem code_proportional (rs : List (Rule Rat)) :
    match activate .proportional rs with
    | .error e => Proportional_activate.run (enum 0 rs) {} = .error e.toPy
    | .ok o => ∃ σ, Proportional_activate.run (enum 0 rs) {} = .ok σ ∧ σ.visited.map (·.2) = o.rules ∧
        σ.fires = o.fires := by
  have h := code_sumLoop (enum 0 rs) (enum 0 rs) { activate := [], sum_degrees := .fin 0 }
  simp only [activate, Proportional_activate.run, bind_ok_self]
  cases hc : sumLoop (.fin 0) (enum 0 rs) with
  | error e => rw [hc] at h; rw [agree_error h]; rfl
  | ok q =>
    rw [hc] at h
    obtain ⟨σ, h1, h2⟩ := agree_ok h
    obtain ⟨i1, i2⟩ := sumLoop_inv _ _ q hc
    simp only [Prod.mk.injEq, default_list, List.nil_append] at h2
    obtain ⟨v1, v2, v3, v4⟩ := h2
    rw [h1]; simp only [bind, Except.bind]
    have h3 := code_divLoop (enum 0 rs) σ.activate σ
      (by
        intro x hx
        simp only [v1, v2] at hx ⊢
        obtain ⟨v, hv, hxv⟩ := i2 x hx
        rw [i1, hxv, enum_length]; exact enum_fst_lt hv)
    obtain ⟨σ', g1, g2⟩ := agree_ok (a := (_, _)) h3
    refine ⟨σ', g1, ?_, ?_⟩
    · have := (Prod.mk.inj g2).1; simp only [snds] at this; rw [this]; simp [v1, v2, v3, snds]
    · rw [(Prod.mk.inj g2).2]; simp [v1, v2, v3, v4, snds]

/-! ## all methods -/

theorem agree_combine {S : Type} (g : Py.M S) (x : Except Err (Outcome Rat)) (f : S → List (Rule Rat))
    (fi : S → List (Fire Rat)) :
    (match x with
      | .error e => g = .error e.toPy
      | .ok o => ∃ σ, g = .ok σ ∧ f σ = o.rules ∧ fi σ = o.fires) →
    g.map (fun σ => (f σ, fi σ)) = match x with
      | .error e => .error e.toPy
      | .ok o => .ok (o.rules, o.fires) := by
  intro h
  cases x with
  | error e => simp only at h; rw [h]; rfl
  | ok o =>
    simp only at h
    obtain ⟨σ, h1, h2, h3⟩ := h
    rw [h1]; simp only [Except.map, h2, h3]

/-- the translated method that `m` names, run on the rules paired with their positions, returns the rule states
    (in block order) and the contributions of `Op.Activation.activate m`, or raises the same exception -/
theorem code_activate (m : Method Rat) (rs : List (Rule Rat)) :
    (match m with
      | .general => (General_activate.run (enum 0 rs) {}).map (fun σ : General_activate.S => (σ.visited.map (·.2), σ.fires))
      | .first n t => (First_activate.run (enum 0 rs) n t {}).map (fun σ : First_activate.S => (σ.visited.map (·.2), σ.fires))
      | .last n t => (Last_activate.run (enum 0 rs) n t {}).map (fun σ : Last_activate.S => ((σ.visited.map (·.2)).reverse, σ.fires))
      | .highest n => (Highest_activate.run (enum 0 rs) n {}).map (fun σ : Highest_activate.S => (σ.visited.map (·.2), σ.fires))
      | .lowest n => (Lowest_activate.run (enum 0 rs) n {}).map (fun σ : Lowest_activate.S => (σ.visited.map (·.2), σ.fires))
      | .proportional => (Proportional_activate.run (enum 0 rs) {}).map (fun σ : Proportional_activate.S => (σ.visited.map (·.2), σ.fires))
      | .threshold c t => (Threshold_activate.run (enum 0 rs) c t {}).map (fun σ : Threshold_activate.S => (σ.visited.map (·.2), σ.fires))
      : Py.M (List (Rule Rat) × List (Fire Rat)))
    = match activate m rs with
      | .error e => .error e.toPy
      | .ok o => .ok (o.rules, o.fires) := by
  cases m with
  | general => exact agree_combine (S := General_activate.S) _ (activate .general rs) (fun σ => σ.visited.map (·.2)) (fun σ => σ.fires) (code_general rs)
  | first n t => exact agree_combine (S := First_activate.S) _ _ (fun σ => σ.visited.map (·.2)) (fun σ => σ.fires) (code_first n t rs)
  | last n t => exact agree_combine (S := Last_activate.S) _ _ (fun σ => (σ.visited.map (·.2)).reverse) (fun σ => σ.fires) (code_last n t rs)
  | highest n => exact agree_combine (S := Highest_activate.S) _ _ (fun σ => σ.visited.map (·.2)) (fun σ => σ.fires) (code_highest n rs)
  | lowest n => exact agree_combine (S := Lowest_activate.S) _ _ (fun σ => σ.visited.map (·.2)) (fun σ => σ.fires) (code_lowest n rs)
  | proportional => exact agree_combine (S := Proportional_activate.S) _ _ (fun σ => σ.visited.map (·.2)) (fun σ => σ.fires) (code_proportional rs)
  | threshold c t => exact agree_combine (S := Threshold_activate.S) _ _ (fun σ => σ.visited.map (·.2)) (fun σ => σ.fires) (code_threshold c t rs)

end Op.Activation
