import FlVerif.Gen.CodeActivation
import FlVerif.Lemmas.Activation

/-! # Tie A for the seven activation methods: the loops translated from the current source of
`fuzzylite/activation.py` (`Gen.Code.<Cls>_activate`) compute what the model `Op.Activation.activate` computes -/

namespace Op.Activation
open Spec.Activation Gen.Code

/-- the exception class of the translated code that corresponds to the error of the model -/
def Err.toPy : Err → Py.Err
  | .value => .value

/-- a result of the model as a result of the translated code -/
def lift {A : Type} : Except Err A → Py.M A
  | .ok a => .ok a
  | .error e => .error e.toPy

@[simp] theorem lift_ok {A : Type} (a : A) : lift (.ok a : Except Err A) = .ok a := rfl
@[simp] theorem lift_error {A : Type} (e : Err) : lift (.error e : Except Err A) = .error e.toPy := rfl

theorem lift_map_map {A B C : Type} (x : Except Err A) (f : A → B) (g : B → C) :
    lift ((x.map f).map g) = lift (x.map (fun a => g (f a))) := by
  cases x <;> rfl

/-- an equation between the observable part of a run and a result of the model, as the two cases of the theorems -/
theorem agree_error {S A : Type} {g : Py.M S} {e : Err} {f : S → A} (h : g.map f = lift (.error e)) :
    g = .error e.toPy := by
  cases g with
  | error e' => simp only [Except.map, lift, Except.error.injEq] at h; simp only [h]
  | ok s => simp [Except.map, lift] at h

theorem agree_ok {S A : Type} {g : Py.M S} {a : A} {f : S → A} (h : g.map f = lift (.ok a)) :
    ∃ σ, g = .ok σ ∧ f σ = a := by
  cases g with
  | error e' => simp [Except.map] at h
  | ok s => simp only [Except.map, lift, Except.ok.injEq] at h; exact ⟨s, rfl, h⟩

theorem bind_ok_self {S : Type} (g : Py.M S) : (g >>= fun σ => Except.ok σ) = g := by cases g <;> rfl

/-! ## General -/

theorem code_generalLoop (rules : List (Visit Rat)) : ∀ (l : List (Visit Rat)) (σ : General_activate.S),
    (General_activate.loop1 rules l σ).map (fun σ' => (σ'.visited, σ'.fires))
      = .ok (σ.visited ++ (generalLoop l).1, σ.fires ++ (generalLoop l).2)
  | [], σ => by simp [General_activate.loop1, generalLoop, Except.map]
  | (i, r) :: rest, σ => by
    simp only [General_activate.loop1, generalLoop]
    cases h : (deactivate r).loaded <;> simp only [Bool.false_eq_true, if_false, if_true] <;>
      rw [code_generalLoop rules rest] <;> simp [List.append_assoc]

/-! ## First / Last -/

theorem code_countLoop_first (rules : List (Visit Rat)) (n : Nat) (t : X Rat) :
    ∀ (l : List (Visit Rat)) (σ : First_activate.S),
    (First_activate.loop1 rules n t l σ).map (fun σ' => (σ'.visited, σ'.fires))
      = lift ((countLoop n t σ.activated l).map (fun q => (σ.visited ++ q.1, σ.fires ++ q.2)))
  | [], σ => by simp [First_activate.loop1, countLoop, Except.map]
  | (i, r) :: rest, σ => by
    simp only [First_activate.loop1, countLoop]
    cases h : (deactivate r).loaded <;> simp only [Bool.false_eq_true, if_false, if_true]
    · rw [code_countLoop_first rules n t rest, lift_map_map]; simp [List.append_assoc]
    · cases hv : (activateWith (deactivate r)).vector <;>
        simp only [Bool.false_eq_true, if_false, if_true, bind, Except.bind]
      · cases hc : (decide (σ.activated < n) && (X.lt (.fin 0) (activateWith (deactivate r)).actDegree
            && X.le t (activateWith (deactivate r)).actDegree))
        · rw [Bool.and_assoc, hc]
          simp only [Bool.false_eq_true, if_false]
          rw [code_countLoop_first rules n t rest, lift_map_map]; simp [List.append_assoc]
        · rw [Bool.and_assoc, hc]
          simp only [if_true]
          rw [code_countLoop_first rules n t rest, lift_map_map]; simp [List.append_assoc]
      · rfl

theorem code_countLoop_last (rules : List (Visit Rat)) (n : Nat) (t : X Rat) :
    ∀ (l : List (Visit Rat)) (σ : Last_activate.S),
    (Last_activate.loop1 rules n t l σ).map (fun σ' => (σ'.visited, σ'.fires))
      = lift ((countLoop n t σ.activated l).map (fun q => (σ.visited ++ q.1, σ.fires ++ q.2)))
  | [], σ => by simp [Last_activate.loop1, countLoop, Except.map]
  | (i, r) :: rest, σ => by
    simp only [Last_activate.loop1, countLoop]
    cases h : (deactivate r).loaded <;> simp only [Bool.false_eq_true, if_false, if_true]
    · rw [code_countLoop_last rules n t rest, lift_map_map]; simp [List.append_assoc]
    · cases hv : (activateWith (deactivate r)).vector <;>
        simp only [Bool.false_eq_true, if_false, if_true, bind, Except.bind]
      · cases hc : (decide (σ.activated < n) && (X.lt (.fin 0) (activateWith (deactivate r)).actDegree
            && X.le t (activateWith (deactivate r)).actDegree))
        · rw [Bool.and_assoc, hc]
          simp only [Bool.false_eq_true, if_false]
          rw [code_countLoop_last rules n t rest, lift_map_map]; simp [List.append_assoc]
        · rw [Bool.and_assoc, hc]
          simp only [if_true]
          rw [code_countLoop_last rules n t rest, lift_map_map]; simp [List.append_assoc]
      · rfl

/-! ## Threshold -/

theorem code_thresholdLoop (rules : List (Visit Rat)) (c : Comparator) (t : X Rat) :
    ∀ (l : List (Visit Rat)) (σ : Threshold_activate.S),
    (Threshold_activate.loop1 rules c t l σ).map (fun σ' => (σ'.visited, σ'.fires))
      = lift ((thresholdLoop c t l).map (fun q => (σ.visited ++ q.1, σ.fires ++ q.2)))
  | [], σ => by simp [Threshold_activate.loop1, thresholdLoop, Except.map]
  | (i, r) :: rest, σ => by
    simp only [Threshold_activate.loop1, thresholdLoop]
    cases h : (deactivate r).loaded <;> simp only [Bool.false_eq_true, if_false, if_true]
    · rw [code_thresholdLoop rules c t rest, lift_map_map]; simp [List.append_assoc]
    · cases hv : (activateWith (deactivate r)).vector <;>
        simp only [Bool.false_eq_true, if_false, if_true, bind, Except.bind]
      · cases hc : c.eval (activateWith (deactivate r)).actDegree t <;>
          simp only [Bool.false_eq_true, if_false, if_true] <;>
          rw [code_thresholdLoop rules c t rest, lift_map_map] <;> simp [List.append_assoc]
      · rfl

/-! ## the methods with a single loop -/

theorem code_general (rs : List (Rule Rat)) :
    match activate .general rs with
    | .error e => General_activate.run (enum 0 rs) {} = .error e.toPy
    | .ok o => ∃ σ, General_activate.run (enum 0 rs) {} = .ok σ ∧ σ.visited.map (·.2) = o.rules ∧ σ.fires = o.fires := by
  obtain ⟨σ, h1, h2⟩ := agree_ok (code_generalLoop (enum 0 rs) (enum 0 rs) {})
  simp only [activate, General_activate.run, bind_ok_self]
  refine ⟨σ, h1, ?_, ?_⟩
  · rw [(Prod.mk.inj h2).1]; simp [snds]; rfl
  · rw [(Prod.mk.inj h2).2]; simp; rfl

theorem code_first (n : Nat) (t : X Rat) (rs : List (Rule Rat)) :
    match activate (.first n t) rs with
    | .error e => First_activate.run (enum 0 rs) n t {} = .error e.toPy
    | .ok o => ∃ σ, First_activate.run (enum 0 rs) n t {} = .ok σ ∧ σ.visited.map (·.2) = o.rules ∧ σ.fires = o.fires := by
  have h := code_countLoop_first (enum 0 rs) n t (enum 0 rs) { activated := 0 }
  simp only [activate, First_activate.run, bind_ok_self]
  cases hc : countLoop n t 0 (enum 0 rs) with
  | error e => rw [hc] at h; exact agree_error h
  | ok q =>
    rw [hc] at h
    obtain ⟨σ, h1, h2⟩ := agree_ok h
    refine ⟨σ, h1, ?_, ?_⟩
    · rw [(Prod.mk.inj h2).1]; simp [snds]; rfl
    · rw [(Prod.mk.inj h2).2]; simp; rfl

theorem code_last (n : Nat) (t : X Rat) (rs : List (Rule Rat)) :
    match activate (.last n t) rs with
    | .error e => Last_activate.run (enum 0 rs) n t {} = .error e.toPy
    | .ok o => ∃ σ, Last_activate.run (enum 0 rs) n t {} = .ok σ ∧ (σ.visited.map (·.2)).reverse = o.rules ∧
        σ.fires = o.fires := by
  have h := code_countLoop_last (enum 0 rs) n t (enum 0 rs).reverse { activated := 0 }
  simp only [activate, Last_activate.run, bind_ok_self]
  cases hc : countLoop n t 0 (enum 0 rs).reverse with
  | error e => rw [hc] at h; exact agree_error h
  | ok q =>
    rw [hc] at h
    obtain ⟨σ, h1, h2⟩ := agree_ok h
    refine ⟨σ, h1, ?_, ?_⟩
    · rw [(Prod.mk.inj h2).1]; simp [snds, List.map_reverse]; rfl
    · rw [(Prod.mk.inj h2).2]; simp; rfl

theorem code_threshold (c : Comparator) (t : X Rat) (rs : List (Rule Rat)) :
    match activate (.threshold c t) rs with
    | .error e => Threshold_activate.run (enum 0 rs) c t {} = .error e.toPy
    | .ok o => ∃ σ, Threshold_activate.run (enum 0 rs) c t {} = .ok σ ∧ σ.visited.map (·.2) = o.rules ∧
        σ.fires = o.fires := by
  have h := code_thresholdLoop (enum 0 rs) c t (enum 0 rs) {}
  simp only [activate, Threshold_activate.run, bind_ok_self]
  cases hc : thresholdLoop c t (enum 0 rs) with
  | error e => rw [hc] at h; exact agree_error h
  | ok q =>
    rw [hc] at h
    obtain ⟨σ, h1, h2⟩ := agree_ok h
    refine ⟨σ, h1, ?_, ?_⟩
    · rw [(Prod.mk.inj h2).1]; simp [snds]; rfl
    · rw [(Prod.mk.inj h2).2]; simp; rfl

end Op.Activation
