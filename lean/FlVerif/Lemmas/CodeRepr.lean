import FlVerif.Gen.CodeRepr

/-! # Tie A for `Representation.construction_arguments`: the definition translated from the current source equals
the model `Op.PyRepr.emit` -/

namespace Op.PyRepr
open Gen.Code

/-- the text of one argument: `name=value`, or `value` alone for a positional argument -/
def argText (a : Option String × String) : String :=
  (match a.1 with
   | none => ""
   | some n => n ++ "=") ++ a.2

/-- the parameters the loop looks at: all but `self` -/
def notSelf (ps : List Param) : List Param := ps.filter (fun p => p.name != "self")

/-- what the translated loop and `emit` have in common -/
def EmitAgree (r : Option (List (Option String × String))) (acc : List String)
    (g : Py.M construction_arguments.S) : Prop :=
  match r with
  | none => g = .error .value
  | some args => ∃ σ', g = .ok σ' ∧ σ'.arguments = acc ++ args.map argText

/-- the loop over the signature is `emit` -/
theorem code_emitLoop (noInit : Bool) (sig : List Param) (fields : String → Option String) (p0 : Bool) :
    ∀ (ps : List Param) (σ : construction_arguments.S),
      EmitAgree (emit fields σ.positional (notSelf ps)) σ.arguments
        (construction_arguments.loop1 noInit sig fields p0 ps σ)
  | [], σ => by
    simp only [notSelf, List.filter_nil, emit, EmitAgree, construction_arguments.loop1]
    exact ⟨σ, rfl, by simp⟩
  | p :: ps, σ => by
    by_cases hs : p.name = "self"
    · have hf : notSelf (p :: ps) = notSelf ps := by simp [notSelf, hs]
      rw [hf, construction_arguments.loop1]
      simp only [hs, beq_self_eq_true, if_true]
      exact code_emitLoop noInit sig fields p0 ps { σ with parameter := p }
    · have hf : notSelf (p :: ps) = p :: notSelf ps := by simp [notSelf, hs]
      rw [hf, construction_arguments.loop1]
      simp only [beq_iff_eq, hs, if_false, emit]
      cases hv : fields p.name with
      | some v =>
        simp only [Option.isSome_some, if_true, Py.Repr.field, hv, bind, Except.bind]
        have ih := code_emitLoop noInit sig fields p0 ps
          { σ with parameter := p, value := v,
                   argument := (if σ.positional then "" else (p.name ++ "=")) ++ v,
                   arguments := σ.arguments ++ [(if σ.positional then "" else (p.name ++ "=")) ++ v] }
        simp only at ih
        cases he : emit fields σ.positional (notSelf ps) with
        | none => rw [he] at ih; simpa [EmitAgree] using ih
        | some as =>
          rw [he] at ih
          simp only [EmitAgree, Option.map_some] at ih ⊢
          obtain ⟨σ', h1, h2⟩ := ih
          refine ⟨σ', h1, ?_⟩
          rw [h2]
          cases σ.positional <;> simp [argText]
      | none =>
        simp only [Option.isSome_none, Bool.false_eq_true, if_false]
        by_cases hd : p.hasDefault = true
        · simp only [hd, if_true]
          exact code_emitLoop noInit sig fields p0 ps { σ with parameter := p, positional := false }
        · simp only [hd, if_false, Bool.false_eq_true, EmitAgree]

/-- **`construction_arguments` as translated from the source = the model `Op.PyRepr.emit`** over the signature
    without `self` (no parameters for a class without constructor): `ValueError` exactly when `emit` fails, otherwise
    the returned texts are the arguments of `emit`, `name=value` for a keyword argument -/
theorem code_constructionArguments (noInit : Bool) (sig : List Param) (fields : String → Option String)
    (positional : Bool) :
    match emit fields positional (if noInit then [] else notSelf sig) with
    | none => construction_arguments.run noInit sig fields positional {} = .error .value
    | some args => ∃ σ, construction_arguments.run noInit sig fields positional {} = .ok σ ∧
        σ.ret = some (args.map argText) := by
  unfold construction_arguments.run
  cases noInit with
  | true =>
    simp [emit, construction_arguments.loop1, bind, Except.bind]
  | false =>
    simp only [Bool.false_eq_true, if_false]
    have h := code_emitLoop false sig fields positional sig { positional := positional, arguments := [], constructor := sig }
    simp only at h
    cases he : emit fields positional (notSelf sig) with
    | none =>
      rw [he] at h; simp only [EmitAgree] at h
      simp only [h, bind, Except.bind]
    | some as =>
      rw [he] at h; simp only [EmitAgree, List.nil_append] at h
      obtain ⟨σ', h1, h2⟩ := h
      simp only [h1, bind, Except.bind]
      exact ⟨_, rfl, by simp [h2]⟩

end Op.PyRepr
