import FlVerif.Gen.CodeTermParse
import FlVerif.Lemmas.FllLayers

/-! # Tie A for the import side of term parameters: `Term._parse` and the `configure` methods

The definitions translated from the current source (`Gen/CodeTermParse.lean`) work on the parameter *text*; the model
`Op.FllIO` (`numsOf`, `parseShape`, `configure`) on its *tokens* `Py.FllIn.toks rd parameters` – the words of the
text, a word being a number token where the reader `rd` (`to_float`) reads one.  Every theorem holds for every
reader. -/

namespace Py.FllIn
open Op.FllIO Dec Gen.Code

/-- all words read as numbers -/
def reads (rd : String → Option Num) : List String → Option (List Num)
  | [] => some []
  | s :: r =>
    match rd s, reads rd r with
    | some x, some xs => some (x :: xs)
    | _, _ => none

/-- `numsOf` on the tokens of words -/
theorem numsOf_tokOf (rd : String → Option Num) (l : List String) :
    numsOf (l.map (tokOf rd)) = match reads rd l with | some xs => .ok xs | none => .error .value := by
  induction l with
  | nil => rfl
  | cons s r ih =>
    simp only [List.map_cons, tokOf, reads]
    cases hs : rd s with
    | none => simp only [numsOf]
    | some x =>
      simp only [numsOf, ih]
      cases reads rd r <;> rfl

/-- the comprehension `[to_float(x) for x in l]` -/
theorem mapM_toFloat (rd : String → Option Num) (l : List String) :
    l.mapM (toFloat rd) = match reads rd l with | some xs => .ok xs | none => .error .value := by
  induction l with
  | nil => rfl
  | cons s r ih =>
    rw [List.mapM_cons, ih]
    simp only [toFloat, reads]
    cases hs : rd s with
    | none => rfl
    | some x => cases reads rd r <;> rfl

theorem reads_length (rd : String → Option Num) : ∀ (l : List String) (xs : List Num), reads rd l = some xs → xs.length = l.length
  | [], xs, h => by simp only [reads, Option.some.injEq] at h; subst h; rfl
  | s :: r, xs, h => by
    simp only [reads] at h
    cases hs : rd s with
    | none => simp [hs] at h
    | some x =>
      cases hr : reads rd r with
      | none => simp [hs, hr] at h
      | some ys =>
        simp only [hs, hr, Option.some.injEq] at h
        subst h
        simp [reads_length rd r ys hr]

theorem reads_concat (rd : String → Option Num) (a : String) : ∀ (l : List String),
    reads rd (l ++ [a]) = match reads rd l, rd a with | some xs, some x => some (xs ++ [x]) | _, _ => none
  | [] => by
    simp only [List.nil_append, reads]
    cases rd a <;> rfl
  | s :: r => by
    simp only [List.cons_append, reads, reads_concat rd a r]
    cases rd s <;> cases reads rd r <;> cases rd a <;> rfl

theorem dropLast_lastOr (d : Num) : ∀ xs : List Num, xs ≠ [] → xs.dropLast ++ [lastOr d xs] = xs
  | [], h => absurd rfl h
  | [x], _ => rfl
  | x :: y :: r, _ => by
    have := dropLast_lastOr d (y :: r) (by simp)
    simp only [List.dropLast_cons_cons, lastOr, List.cons_append, this]

/-! ### `Term._parse` -/

theorem code_termParse (rd : String → Option Num) (required : ℕ) (parameters : String) (height : Bool) :
    match numsOf (toks rd parameters) >>= parseShape required height with
    | .error e => Term_parse.run rd required parameters height {} = .error e.toPy
    | .ok b => ∃ σ, Term_parse.run rd required parameters height {} = .ok σ ∧ σ.ret = some (shapeValues b) := by
  unfold toks Term_parse.run
  rw [numsOf_tokOf, mapM_toFloat]
  cases reads rd (Py.split parameters) with
  | none => simp only [except_bind_error, Err.toPy]
  | some xs =>
    simp only [except_bind_ok, parseShape]
    cases height with
    | true =>
      simp only [if_true, Bool.true_and, Bool.toNat_true, beq_iff_eq]
      by_cases h1 : xs.length = required
      · simp only [h1, if_true, List.length_append, List.length_singleton, shapeValues, Option.toList]
        exact ⟨_, rfl, rfl⟩
      · simp only [h1, if_false]
        by_cases h2 : xs.length = required + 1
        · simp only [h2, if_true, shapeValues, Option.toList]
          refine ⟨_, rfl, ?_⟩
          have hne : xs ≠ [] := by intro h; subst h; simp at h2
          simp only [dropLast_lastOr one xs hne]
        · simp only [h2, if_false, Err.toPy]
    | false =>
      simp only [Bool.false_and, Bool.false_eq_true, if_false, Bool.toNat_false, Nat.add_zero, beq_iff_eq]
      by_cases h1 : xs.length = required
      · simp only [h1, if_true, shapeValues, Option.toList, List.append_nil]
        exact ⟨_, rfl, rfl⟩
      · simp only [h1, if_false, Err.toPy]

/-! ### `configure` of the classes that go through `Term._parse` -/

theorem code_triangleConfigure (rd : String → Option Num) (parameters : String) :
    match numsOf (toks rd parameters) >>= parseShape 3 true with
    | .error e => Triangle_configure.run rd parameters {} = .error e.toPy
    | .ok b => ∃ σ, Triangle_configure.run rd parameters {} = .ok σ ∧
        b = .shape [σ.self_left, σ.self_top, σ.self_right] (some σ.self_height) := by
  unfold Triangle_configure.run parseVals
  cases numsOf (toks rd parameters) with
  | error e => simp only [except_bind_error]
  | ok xs =>
    rcases xs with _ | ⟨a, _ | ⟨b, _ | ⟨c, _ | ⟨d, _ | ⟨e, r⟩⟩⟩⟩⟩ <;>
      simp [parseShape, shapeValues, lastOr, Err.toPy]

theorem code_trapezoidConfigure (rd : String → Option Num) (parameters : String) :
    match numsOf (toks rd parameters) >>= parseShape 4 true with
    | .error e => Trapezoid_configure.run rd parameters {} = .error e.toPy
    | .ok b => ∃ σ, Trapezoid_configure.run rd parameters {} = .ok σ ∧
        b = .shape [σ.self_bottom_left, σ.self_top_left, σ.self_top_right, σ.self_bottom_right] (some σ.self_height) := by
  unfold Trapezoid_configure.run parseVals
  cases numsOf (toks rd parameters) with
  | error e => simp only [except_bind_error]
  | ok xs =>
    rcases xs with _ | ⟨a, _ | ⟨b, _ | ⟨c, _ | ⟨d, _ | ⟨e, _ | ⟨f, r⟩⟩⟩⟩⟩⟩ <;>
      simp [parseShape, shapeValues, lastOr, Err.toPy]

theorem code_constantConfigure (rd : String → Option Num) (parameters : String) :
    match numsOf (toks rd parameters) >>= parseShape 1 false with
    | .error e => Constant_configure.run rd parameters {} = .error e.toPy
    | .ok b => ∃ σ, Constant_configure.run rd parameters {} = .ok σ ∧ b = .shape [σ.self_value] none := by
  unfold Constant_configure.run parseVals
  cases numsOf (toks rd parameters) with
  | error e => simp only [except_bind_error]
  | ok xs =>
    rcases xs with _ | ⟨a, _ | ⟨b, r⟩⟩ <;>
      simp [parseShape, shapeValues, Err.toPy, Py.nth]

/-- the importer's `configure` of a class that goes through `Term._parse` (called with parameters) -/
theorem configure_of_arity (cls : String) (req : ℕ) (hasH : Bool) (ps : List Tok) (hk : cls ∈ Gen.Tables.termKeys)
    (hs : isSpecialTerm cls = false) (ha : termArity cls = some (req, hasH)) (hp : ps ≠ []) :
    configure cls ps = numsOf ps >>= parseShape req hasH := by
  simp only [isSpecialTerm, Bool.or_eq_false_iff, decide_eq_false_iff_not] at hs
  obtain ⟨⟨h1, h2⟩, h3⟩ := hs
  simp only [configure, hk, not_true_eq_false, if_false, h1, h2, h3, ha, hp]

/-! ### `Linear.configure`, `Discrete.configure`, `Function.configure` -/

theorem configure_linear (ps : List Tok) : configure "Linear" ps = (numsOf ps).map .linear := by
  have hk : "Linear" ∈ Gen.Tables.termKeys := by decide
  simp [configure, hk]

theorem configure_discrete (ps : List Tok) :
    configure "Discrete" ps =
      (numsOf ps).map (fun xs => if xs.length % 2 = 0 then .discrete xs one else .discrete xs.dropLast (lastOr one xs)) := by
  have hk : "Discrete" ∈ Gen.Tables.termKeys := by decide
  simp [configure, hk]

theorem code_linearConfigure (rd : String → Option Num) (parameters : String) :
    match configure "Linear" (toks rd parameters) with
    | .error e => Linear_configure.run rd parameters {} = .error e.toPy
    | .ok b => ∃ σ, Linear_configure.run rd parameters {} = .ok σ ∧ b = .linear σ.self_coefficients := by
  rw [configure_linear]
  unfold toks Linear_configure.run
  rw [numsOf_tokOf, mapM_toFloat]
  cases reads rd (Py.split parameters) with
  | none => simp only [except_map_error, except_bind_error, Err.toPy]
  | some xs => simp only [except_map_ok, except_bind_ok]; exact ⟨_, rfl, rfl⟩

theorem last_concat {α : Type} (l : List α) (a : α) : Py.last (l ++ [a]) = .ok a := by
  simp [Py.last]

theorem popLast_concat {α : Type} (l : List α) (a : α) : Py.popLast (l ++ [a]) = .ok (a, l) := by
  simp [Py.popLast]

theorem toXY_eq (rd : String → Option Num) (l : List String) :
    toXY rd l = match reads rd l with
      | some xs => if l.length % 2 = 0 then .ok xs else .error .value
      | none => .error .value := by
  unfold toXY
  rw [mapM_toFloat]
  cases reads rd l <;> rfl

theorem code_discreteConfigure (rd : String → Option Num) (parameters : String) :
    match configure "Discrete" (toks rd parameters) with
    | .error e => Discrete_configure.run rd parameters {} = .error e.toPy
    | .ok b => ∃ σ, Discrete_configure.run rd parameters {} = .ok σ ∧ b = .discrete σ.self_values σ.self_height := by
  rw [configure_discrete]
  unfold toks Discrete_configure.run
  rw [numsOf_tokOf]
  generalize Py.split parameters = l
  by_cases hpar : l.length % 2 = 0
  · simp only [hpar, beq_self_eq_true, if_true, toXY_eq]
    cases hr : reads rd l with
    | none => simp only [except_map_error, except_bind_error, Err.toPy]
    | some xs =>
      have hl := reads_length rd l xs hr
      simp only [except_map_ok, except_bind_ok, hl, hpar, if_true]
      exact ⟨_, rfl, rfl⟩
  · rcases List.eq_nil_or_concat l with rfl | ⟨l', a, rfl⟩
    · simp at hpar
    · simp only [List.concat_eq_append] at hpar ⊢
      have hev : l'.length % 2 = 0 := by
        simp only [List.length_append, List.length_singleton] at hpar
        omega
      simp only [beq_iff_eq, hpar, if_false, last_concat, popLast_concat, except_bind_ok, reads_concat, toXY_eq, toFloat]
      cases hr : reads rd l' with
      | none =>
        cases ha : rd a with
        | none => simp only [except_map_error, except_bind_error, Err.toPy]
        | some x => simp only [except_map_error, except_bind_ok, except_bind_error, Err.toPy]
      | some xs =>
        cases ha : rd a with
        | none => simp only [except_map_error, except_bind_error, Err.toPy]
        | some x =>
          have hl := reads_length rd l' xs hr
          have hodd : ¬ ((xs ++ [x]).length % 2 = 0) := by
            simp only [List.length_append, List.length_singleton, hl]
            omega
          simp only [except_map_ok, except_bind_ok, hodd, hev, if_true, if_false, List.dropLast_concat, lastOr_concat]
          exact ⟨_, rfl, rfl⟩

/-- `Function.configure`: the formula is the parameter text; `load` is what `Function.load` does with it -/
theorem code_functionConfigure (load : String → Py.M Unit) (parameters : String) :
    match load parameters with
    | .error e => Function_configure.run load parameters {} = .error e
    | .ok _ => ∃ σ, Function_configure.run load parameters {} = .ok σ ∧
        configure "Function" [.w parameters] = .ok (.function σ.self_formula) := by
  have hk : "Function" ∈ Gen.Tables.termKeys := by decide
  have hrun : Function_configure.run load parameters {} = load parameters >>= fun _ => .ok { self_formula := parameters } := rfl
  rw [hrun]
  cases load parameters with
  | error e => rfl
  | ok u => exact ⟨_, rfl, by simp [configure, hk]⟩

end Py.FllIn
