import FlVerif.Gen.CodeWave5YAct
import FlVerif.Spec.Activation
import FlVerif.Lemmas.CodeFllExportStr
import FlVerif.Lemmas.CodeTermParse

/-! # Tie A for the parameter readers / writers and the constructors of the activation methods
(`First`, `Last`, `Highest`, `Lowest`, `Threshold` of `activation.py`)

`configure(parameters)` does nothing for the empty text (the object keeps its values); for any other text the words are
unpacked – a text of white space only is a `ValueError` there – and read; the result is the model's `activParams` on the
tokens of the words (`activToks` / `thresholdToks`, the readers `int` / `to_float` being parameters).  The model's case
"no tokens ↦ the defaults" is the importer's "no parameters ↦ `configure` is not called": the defaults are those of the
constructors' signatures (`*_defaults`). -/

namespace Py.W5Y
open Op.FllIO Dec Gen.Code Py.FllIn

theorem joinSp_pair (a b : String) : Py.joinSp [a, b] = a ++ " " ++ b := by
  rw [Py.joinSp, String.intercalate_cons_cons, String.intercalate_singleton]

theorem joinSp_single (a : String) : Py.joinSp [a] = a := String.intercalate_singleton

/-! ## constructors -/

theorem code_firstInit (rules : Int) (threshold : Num) (σ0 : First_init.S) :
    ∃ σ, First_init.run rules threshold σ0 = .ok σ ∧ σ.self_rules = rules ∧ σ.self_threshold = threshold :=
  ⟨_, rfl, rfl, rfl⟩

theorem code_lastInit (rules : Int) (threshold : Num) (σ0 : Last_init.S) :
    ∃ σ, Last_init.run rules threshold σ0 = .ok σ ∧ σ.self_rules = rules ∧ σ.self_threshold = threshold :=
  ⟨_, rfl, rfl, rfl⟩

theorem code_highestInit (rules : Int) (σ0 : Highest_init.S) :
    ∃ σ, Highest_init.run rules σ0 = .ok σ ∧ σ.self_rules = rules :=
  ⟨_, rfl, rfl⟩

theorem code_lowestInit (rules : Int) (σ0 : Lowest_init.S) :
    ∃ σ, Lowest_init.run rules σ0 = .ok σ ∧ σ.self_rules = rules :=
  ⟨_, rfl, rfl⟩

/-- `Threshold.__init__`: a string is looked up in the enumeration (`ValueError` when it is no symbol), a member is
    stored as it is; the threshold is stored -/
theorem code_thresholdInit (comparator : CmpArg) (threshold : Num) (σ0 : Threshold_init.S) :
    match comparatorOf comparator with
    | .error e => Threshold_init.run comparator threshold σ0 = .error e
    | .ok m => ∃ σ, Threshold_init.run comparator threshold σ0 = .ok σ ∧ σ.self_comparator = m ∧
        σ.self_threshold = threshold := by
  unfold Threshold_init.run
  cases comparator with
  | member s => exact ⟨_, rfl, rfl, rfl⟩
  | text s =>
    simp only [CmpArg.isStr, if_true, comparatorOf]
    cases comparatorOfText s with
    | error e => rfl
    | ok m => exact ⟨_, rfl, rfl, rfl⟩

/-- the defaults of the signatures are the parameters of the model's default activation methods (what the importer
    builds when the line has no parameters) -/
theorem activation_defaults (cls : String) :
    activParams cls .nth [] = .ok (.nth cls First_init.dflt_rules First_init.dflt_threshold) ∧
    activParams cls .nth [] = .ok (.nth cls Last_init.dflt_rules Last_init.dflt_threshold) ∧
    activParams cls .best [] = .ok (.best cls Highest_init.dflt_rules) ∧
    activParams cls .best [] = .ok (.best cls Lowest_init.dflt_rules) ∧
    Threshold_init.dflt_comparator = .member ">" ∧
    activParams cls .threshold [] = .ok (.threshold cls ">" Threshold_init.dflt_threshold) :=
  ⟨rfl, rfl, rfl, rfl, rfl, rfl⟩

/-! ## `parameters` -/

theorem code_firstParameters (cls : String) (c : Cfg) (rules : Int) (threshold : Num) :
    ∃ σ, First_parameters.run c rules threshold {} = .ok σ ∧
      σ.ret = some (Py.Fll.activParameters c (.nth cls rules threshold)) := by
  refine ⟨_, rfl, ?_⟩
  simp only [Py.Fll.activParameters, Py.Fll.activParamToks, List.map_cons, List.map_nil, joinSp_pair, Py.Fll.render_numTok]
  rfl

theorem code_lastParameters (cls : String) (c : Cfg) (rules : Int) (threshold : Num) :
    ∃ σ, Last_parameters.run c rules threshold {} = .ok σ ∧
      σ.ret = some (Py.Fll.activParameters c (.nth cls rules threshold)) := by
  refine ⟨_, rfl, ?_⟩
  simp only [Py.Fll.activParameters, Py.Fll.activParamToks, List.map_cons, List.map_nil, joinSp_pair, Py.Fll.render_numTok]
  rfl

theorem code_highestParameters (cls : String) (c : Cfg) (rules : Int) :
    ∃ σ, Highest_parameters.run c rules {} = .ok σ ∧ σ.ret = some (Py.Fll.activParameters c (.best cls rules)) := by
  refine ⟨_, rfl, ?_⟩
  simp only [Py.Fll.activParameters, Py.Fll.activParamToks, List.map_cons, List.map_nil, joinSp_single]
  rfl

theorem code_lowestParameters (cls : String) (c : Cfg) (rules : Int) :
    ∃ σ, Lowest_parameters.run c rules {} = .ok σ ∧ σ.ret = some (Py.Fll.activParameters c (.best cls rules)) := by
  refine ⟨_, rfl, ?_⟩
  simp only [Py.Fll.activParameters, Py.Fll.activParamToks, List.map_cons, List.map_nil, joinSp_single]
  rfl

theorem code_thresholdParameters (cls : String) (c : Cfg) (comparator : String) (threshold : Num) :
    ∃ σ, Threshold_parameters.run c comparator threshold {} = .ok σ ∧
      σ.ret = some (Py.Fll.activParameters c (.threshold cls comparator threshold)) := by
  refine ⟨_, rfl, ?_⟩
  simp only [Py.Fll.activParameters, Py.Fll.activParamToks, List.map_cons, List.map_nil, joinSp_pair, Py.Fll.render_numTok]
  rfl

/-! ## `configure` -/

/-- the model on the tokens of two words (`First` / `Last`) -/
theorem activParams_nth_two (cls : String) (rdi : String → Option Int) (rd : String → Option Num) (a b : String) :
    activParams cls .nth (activToks rdi rd [a, b]) =
      match rdi a, rd b with
      | some r, some t => .ok (.nth cls r t)
      | _, _ => .error .value := by
  simp only [activToks, List.map_cons, List.map_nil, tokOf]
  cases rdi a <;> cases rd a <;> cases rd b <;> rfl

theorem activParams_nth_other (cls : String) (rdi : String → Option Int) (rd : String → Option Num) (l : List String)
    (h0 : l ≠ []) (h2 : ∀ a b, l ≠ [a, b]) : activParams cls .nth (activToks rdi rd l) = .error .value := by
  rcases l with _ | ⟨a, _ | ⟨b, _ | ⟨c, r⟩⟩⟩
  · exact absurd rfl h0
  · simp only [activToks, List.map_nil]
    cases rdi a <;> simp [activParams, tokOf] <;> cases rd a <;> rfl
  · exact absurd rfl (h2 a b)
  · simp only [activToks, List.map_cons]
    cases rdi a <;> simp [activParams]

set_option hygiene false in
/-- the shared script of `First.configure` / `Last.configure` -/
macro "nth_configure " run:ident : tactic =>
  `(tactic| (
    unfold $run
    by_cases hp : parameters = ""
    · simp [hp]
    · simp only [hp, if_false, bne_iff_ne, ne_eq, not_false_eq_true, if_true, except_bind_ok]
      by_cases h0 : Py.split parameters = []
      · simp [h0]
      · simp only [h0, if_false]
        rcases hl : Py.split parameters with _ | ⟨a, _ | ⟨b, _ | ⟨c, r⟩⟩⟩
        · exact absurd hl h0
        · rw [activParams_nth_other cls rdi rd [a] (by simp) (by simp)]; rfl
        · rw [activParams_nth_two]
          simp only [toInt, toFloat]
          cases rdi a with
          | none => rfl
          | some r =>
            cases rd b with
            | none => rfl
            | some t => exact ⟨_, rfl, rfl⟩
        · rw [activParams_nth_other cls rdi rd (a :: b :: c :: r) (by simp) (by simp)]; rfl))

theorem code_firstConfigure (cls : String) (rdi : String → Option Int) (rd : String → Option Num) (parameters : String)
    (σ0 : First_configure.S) :
    if parameters = "" then First_configure.run rdi rd parameters σ0 = .ok σ0
    else if Py.split parameters = [] then First_configure.run rdi rd parameters σ0 = .error .value
    else match activParams cls .nth (activToks rdi rd (Py.split parameters)) with
      | .error e => First_configure.run rdi rd parameters σ0 = .error e.toPy
      | .ok a => ∃ σ, First_configure.run rdi rd parameters σ0 = .ok σ ∧ a = .nth cls σ.self_rules σ.self_threshold := by
  nth_configure First_configure.run

theorem code_lastConfigure (cls : String) (rdi : String → Option Int) (rd : String → Option Num) (parameters : String)
    (σ0 : Last_configure.S) :
    if parameters = "" then Last_configure.run rdi rd parameters σ0 = .ok σ0
    else if Py.split parameters = [] then Last_configure.run rdi rd parameters σ0 = .error .value
    else match activParams cls .nth (activToks rdi rd (Py.split parameters)) with
      | .error e => Last_configure.run rdi rd parameters σ0 = .error e.toPy
      | .ok a => ∃ σ, Last_configure.run rdi rd parameters σ0 = .ok σ ∧ a = .nth cls σ.self_rules σ.self_threshold := by
  nth_configure Last_configure.run

/-- the shared script of `Highest.configure` / `Lowest.configure`: `if parameters: self.rules = int(parameters)` -/
theorem code_highestConfigure (cls : String) (rdi : String → Option Int) (parameters : String) (σ0 : Highest_configure.S) :
    if parameters = "" then Highest_configure.run rdi parameters σ0 = .ok σ0
    else match activParams cls .best (match rdi parameters with | some z => [Tok.i z] | none => [Tok.w parameters]) with
      | .error e => Highest_configure.run rdi parameters σ0 = .error e.toPy
      | .ok a => ∃ σ, Highest_configure.run rdi parameters σ0 = .ok σ ∧ a = .best cls σ.self_rules := by
  unfold Highest_configure.run
  by_cases hp : parameters = ""
  · simp [hp]
  · simp only [hp, if_false, bne_iff_ne, ne_eq, not_false_eq_true, if_true, toInt]
    cases rdi parameters with
    | none => rfl
    | some r => exact ⟨_, rfl, rfl⟩

theorem code_lowestConfigure (cls : String) (rdi : String → Option Int) (parameters : String) (σ0 : Lowest_configure.S) :
    if parameters = "" then Lowest_configure.run rdi parameters σ0 = .ok σ0
    else match activParams cls .best (match rdi parameters with | some z => [Tok.i z] | none => [Tok.w parameters]) with
      | .error e => Lowest_configure.run rdi parameters σ0 = .error e.toPy
      | .ok a => ∃ σ, Lowest_configure.run rdi parameters σ0 = .ok σ ∧ a = .best cls σ.self_rules := by
  unfold Lowest_configure.run
  by_cases hp : parameters = ""
  · simp [hp]
  · simp only [hp, if_false, bne_iff_ne, ne_eq, not_false_eq_true, if_true, toInt]
    cases rdi parameters with
    | none => rfl
    | some r => exact ⟨_, rfl, rfl⟩

/-- the model on the tokens of two words (`Threshold`) -/
theorem activParams_threshold_two (cls : String) (rd : String → Option Num) (a b : String) :
    activParams cls .threshold (thresholdToks rd [a, b]) =
      if a ∈ comparatorSymbols then (match rd b with | some t => .ok (.threshold cls a t) | none => .error .value)
      else .error .value := by
  simp only [thresholdToks, List.map_cons, List.map_nil, tokOf]
  cases rd b with
  | none => simp [activParams]
  | some t => simp only [activParams]

theorem activParams_threshold_other (cls : String) (rd : String → Option Num) (l : List String)
    (h0 : l ≠ []) (h2 : ∀ a b, l ≠ [a, b]) : activParams cls .threshold (thresholdToks rd l) = .error .value := by
  rcases l with _ | ⟨a, _ | ⟨b, _ | ⟨c, r⟩⟩⟩
  · exact absurd rfl h0
  · rfl
  · exact absurd rfl (h2 a b)
  · simp only [thresholdToks, List.map_cons, tokOf]
    cases rd b <;> simp [activParams]

theorem code_thresholdConfigure (cls : String) (rd : String → Option Num) (parameters : String)
    (σ0 : Threshold_configure.S) :
    if parameters = "" then Threshold_configure.run rd parameters σ0 = .ok σ0
    else if Py.split parameters = [] then Threshold_configure.run rd parameters σ0 = .error .value
    else match activParams cls .threshold (thresholdToks rd (Py.split parameters)) with
      | .error e => Threshold_configure.run rd parameters σ0 = .error e.toPy
      | .ok a => ∃ σ, Threshold_configure.run rd parameters σ0 = .ok σ ∧
          a = .threshold cls σ.self_comparator σ.self_threshold := by
  unfold Threshold_configure.run
  by_cases hp : parameters = ""
  · simp [hp]
  · simp only [hp, if_false, bne_iff_ne, ne_eq, not_false_eq_true, if_true, except_bind_ok]
    by_cases h0 : Py.split parameters = []
    · simp [h0]
    · simp only [h0, if_false]
      rcases hl : Py.split parameters with _ | ⟨a, _ | ⟨b, _ | ⟨c, r⟩⟩⟩
      · exact absurd hl h0
      · rw [activParams_threshold_other cls rd [a] (by simp) (by simp)]; rfl
      · rw [activParams_threshold_two]
        simp only [comparatorOfText, toFloat, symbols]
        by_cases hm : a ∈ comparatorSymbols
        · simp only [hm, if_true]
          cases rd b with
          | none => rfl
          | some t => exact ⟨_, rfl, rfl⟩
        · simp only [hm, if_false]; rfl
      · rw [activParams_threshold_other cls rd (a :: b :: c :: r) (by simp) (by simp)]; rfl

/-! ## round trips: `configure` on the text `parameters()` prints -/

set_option hygiene false in
/-- the shared script of the round trips of `First` / `Last` -/
macro "nth_roundtrip " conf:ident : tactic =>
  `(tactic| (
    obtain ⟨hne, htoks⟩ := hrd
    have h := $conf cls rdi rd (Py.Fll.activParameters c (.nth cls rules threshold)) σ0
    have hs : Py.split (Py.Fll.activParameters c (.nth cls rules threshold)) ≠ [] := by
      intro h0; rw [h0] at htoks; exact absurd htoks (by simp [activToks, Py.Fll.activParamToks])
    simp only [hne, hs, if_false, htoks, Py.Fll.activParamToks, numTok, activParams] at h
    obtain ⟨σ, hσ, ha⟩ := h
    injection ha with _ h1 h2
    exact ⟨σ, hσ, h1.symm, h2.symm⟩))

theorem configure_parameters_first (cls : String) (rdi : String → Option Int) (rd : String → Option Num) (c : Cfg)
    (rules : Int) (threshold : Num) (σ0 : First_configure.S)
    (hrd : ReadsBackActiv rdi rd c (.nth cls rules threshold)) :
    ∃ σc, First_configure.run rdi rd (Py.Fll.activParameters c (.nth cls rules threshold)) σ0 = .ok σc ∧
      σc.self_rules = rules ∧ σc.self_threshold = rnd c.d threshold := by
  nth_roundtrip code_firstConfigure

theorem configure_parameters_last (cls : String) (rdi : String → Option Int) (rd : String → Option Num) (c : Cfg)
    (rules : Int) (threshold : Num) (σ0 : Last_configure.S)
    (hrd : ReadsBackActiv rdi rd c (.nth cls rules threshold)) :
    ∃ σc, Last_configure.run rdi rd (Py.Fll.activParameters c (.nth cls rules threshold)) σ0 = .ok σc ∧
      σc.self_rules = rules ∧ σc.self_threshold = rnd c.d threshold := by
  nth_roundtrip code_lastConfigure

theorem configure_parameters_threshold (cls : String) (rd : String → Option Num) (c : Cfg)
    (comparator : String) (threshold : Num) (σ0 : Threshold_configure.S) (hc : comparator ∈ comparatorSymbols)
    (hrd : ReadsBackThreshold rd c (.threshold cls comparator threshold)) :
    ∃ σc, Threshold_configure.run rd (Py.Fll.activParameters c (.threshold cls comparator threshold)) σ0 = .ok σc ∧
      σc.self_comparator = comparator ∧ σc.self_threshold = rnd c.d threshold := by
  obtain ⟨hne, htoks⟩ := hrd
  have h := code_thresholdConfigure cls rd (Py.Fll.activParameters c (.threshold cls comparator threshold)) σ0
  have hs : Py.split (Py.Fll.activParameters c (.threshold cls comparator threshold)) ≠ [] := by
    intro h0; rw [h0] at htoks; exact absurd htoks (by simp [thresholdToks, Py.Fll.activParamToks])
  simp only [hne, hs, if_false, htoks, Py.Fll.activParamToks, numTok, activParams, hc, if_true] at h
  obtain ⟨σ, hσ, ha⟩ := h
  injection ha with _ h1 h2
  exact ⟨σ, hσ, h1.symm, h2.symm⟩

/-- `Highest` / `Lowest`: the text is the printed integer; `int` reads it back -/
theorem configure_parameters_highest (cls : String) (rdi : String → Option Int) (c : Cfg) (rules : Int)
    (σ0 : Highest_configure.S) (hrd : rdi (toString rules) = some rules) :
    ∃ σc, Highest_configure.run rdi (Py.Fll.activParameters c (.best cls rules)) σ0 = .ok σc ∧ σc.self_rules = rules := by
  have ht : Py.Fll.activParameters c (.best cls rules) = toString rules := by
    simp only [Py.Fll.activParameters, Py.Fll.activParamToks, List.map_cons, List.map_nil, joinSp_single]; rfl
  have h := code_highestConfigure cls rdi (toString rules) σ0
  simp only [Py.Fll.int_toString_ne, if_false, hrd, activParams] at h
  obtain ⟨σ, hσ, ha⟩ := h
  injection ha with _ h1
  exact ⟨σ, ht ▸ hσ, h1.symm⟩

theorem configure_parameters_lowest (cls : String) (rdi : String → Option Int) (c : Cfg) (rules : Int)
    (σ0 : Lowest_configure.S) (hrd : rdi (toString rules) = some rules) :
    ∃ σc, Lowest_configure.run rdi (Py.Fll.activParameters c (.best cls rules)) σ0 = .ok σc ∧ σc.self_rules = rules := by
  have ht : Py.Fll.activParameters c (.best cls rules) = toString rules := by
    simp only [Py.Fll.activParameters, Py.Fll.activParamToks, List.map_cons, List.map_nil, joinSp_single]; rfl
  have h := code_lowestConfigure cls rdi (toString rules) σ0
  simp only [Py.Fll.int_toString_ne, if_false, hrd, activParams] at h
  obtain ⟨σ, hσ, ha⟩ := h
  injection ha with _ h1
  exact ⟨σ, ht ▸ hσ, h1.symm⟩

/-! ## the comparator symbols -/

/-- the symbols `Threshold.Comparator(text)` accepts are the six of the regenerated enumeration; the lexer of the text
    layer reads each of them as a word (neither `int` nor `float` reads one), so the tokens `thresholdToks` are the
    tokens `activParamToks` of the importer's text layer on such a text -/
theorem comparator_symbols_are_words :
    symbols = ["<", "<=", "==", "!=", ">=", ">"] ∧ ∀ s ∈ symbols, intTokOf s = .w s := by
  decide +kernel

/-- `Threshold.Comparator(text)` succeeds exactly for the symbols `Spec.Activation.Comparator.ofSymbol` knows (whose
    operators are tied by `C08.code_comparator`) and returns the member with that value -/
theorem comparatorOfText_spec (s : String) :
    match Spec.Activation.Comparator.ofSymbol s with
    | some _ => comparatorOfText s = .ok s
    | none => comparatorOfText s = .error .value := by
  have hs : symbols = ["<", "<=", "==", "!=", ">=", ">"] := comparator_symbols_are_words.1
  have hmem : (Spec.Activation.Comparator.ofSymbol s).isSome = decide (s ∈ ["<", "<=", "==", "!=", ">=", ">"]) := by
    unfold Spec.Activation.Comparator.ofSymbol
    split <;> simp_all
  unfold comparatorOfText
  rw [hs]
  cases h : Spec.Activation.Comparator.ofSymbol s with
  | none =>
    rw [h] at hmem
    have : s ∉ ["<", "<=", "==", "!=", ">=", ">"] := by simpa using hmem.symm
    simp only [this, if_false]
  | some c =>
    rw [h] at hmem
    have : s ∈ ["<", "<=", "==", "!=", ">=", ">"] := by simpa using hmem.symm
    simp only [this, if_true]

end Py.W5Y
