import FlVerif.Gen.CodeEngine

/-! # Tie A for `Engine.process`: the three loops translated from the current source are the top-level structure of
    the model `Op.Engine.processRow` -/

namespace Op.Engine
open Gen.Code

/-- the observations of the enabled blocks (the model records `[]` for a disabled block, the code touches nothing) -/
def enabledObs : List (Block Rat) → List (List (RuleObs Rat)) → List (List (RuleObs Rat))
  | b :: bs, o :: os => if b.enabled then o :: enabledObs bs os else enabledObs bs os
  | _, _ => []

/-- one step of the fold over the rule blocks in `processRow` -/
def blockStep (F : Fn Rat) (e : EngineD Rat) (acc : Fuzzy Rat × List (List (RuleObs Rat))) (b : Block Rat) :
    Option (Fuzzy Rat × List (List (RuleObs Rat))) :=
  if b.enabled then do
    let (fz', o) ← activateBlock F e.inputs e.outputs b acc.1
    pure (fz', acc.2 ++ [o])
  else pure (acc.1, acc.2 ++ [[]])

/-- the function mapped over the output variables in `processRow` -/
def rawStep (F : Fn Rat) (e : EngineD Rat) (fz : Fuzzy Rat) (p : OutVar Rat × Nat) : Option (Option (X Rat)) :=
  if p.1.enabled then do pure (some (← defuzzRaw F (e.inputs.map (·.value)) p.1 (fz.getD p.2 []))) else pure none

theorem processRow_eq (F : Fn Rat) (e : EngineD Rat) :
    processRow F e = (do
      let p ← e.blocks.foldlM (blockStep F e) (e.outputs.map (fun _ => []), [])
      let raw ← e.outputs.zipIdx.mapM (rawStep F e p.1)
      pure { fuzzy := p.1, rules := p.2, raw := raw }) := rfl

/-- first loop: `variable.fuzzy.clear()` for every output variable, position by position -/
theorem code_clearLoop (F : Fn Rat) (e : EngineD Rat) (fz0 : Nat → List (Act Rat)) : ∀ (l : List (OutVar Rat)) (k : Nat)
    (σ : Engine_process.S) (pre post : Fuzzy Rat), σ.fuzzy = pre ++ post → pre.length = k → post.length = l.length →
    ∃ σ', Engine_process.loop1 F e fz0 ((l.zipIdx k).map (fun p => (p.2, p.1))) σ = .ok σ' ∧
      σ'.fuzzy = pre ++ l.map (fun _ => []) ∧ σ'.rules = σ.rules ∧ σ'.raw = σ.raw
  | [], k, σ, pre, post, h, _, hp => by
    have : post = [] := List.eq_nil_of_length_eq_zero hp
    exact ⟨σ, rfl, by simp [h, this], rfl, rfl⟩
  | v :: l, k, σ, pre, post, h, hk, hp => by
    cases post with
    | nil => simp at hp
    | cons a post =>
      simp only [List.zipIdx_cons, List.map_cons, Engine_process.loop1]
      obtain ⟨σ', g, g1, g2, g3⟩ := code_clearLoop F e fz0 l (k + 1)
        { σ with variable_ := (k, v), fuzzy := σ.fuzzy.set k [] } (pre ++ [[]]) post
        (by simp [h, hk]) (by simp [hk]) (by simpa using hp)
      exact ⟨σ', g, by simpa using g1, g2, g3⟩

/-- second loop: the enabled rule blocks are activated in order on the fuzzy outputs accumulated so far -/
theorem code_blockLoop (F : Fn Rat) (e : EngineD Rat) (fz0 : Nat → List (Act Rat)) : ∀ (bs : List (Block Rat))
    (acc : Fuzzy Rat × List (List (RuleObs Rat))) (σ : Engine_process.S), σ.fuzzy = acc.1 →
    match bs.foldlM (blockStep F e) acc with
    | none => ∃ err, Engine_process.loop2 F e fz0 bs σ = .error err
    | some r => ∃ σ' extra, Engine_process.loop2 F e fz0 bs σ = .ok σ' ∧ σ'.fuzzy = r.1 ∧ r.2 = acc.2 ++ extra ∧
        σ'.rules = σ.rules ++ enabledObs bs extra ∧ σ'.raw = σ.raw
  | [], acc, σ, h => by
    simp only [List.foldlM_nil, pure]
    exact ⟨σ, [], rfl, h, by simp, by simp [enabledObs], rfl⟩
  | b :: bs, acc, σ, h => by
    simp only [List.foldlM_cons, Engine_process.loop2, blockStep]
    cases hb : b.enabled
    · simp only [Bool.false_eq_true, if_false, pure, bind, Option.bind]
      have ih := code_blockLoop F e fz0 bs (acc.1, acc.2 ++ [[]]) { σ with block := b } h
      cases hf : bs.foldlM (blockStep F e) (acc.1, acc.2 ++ [[]]) with
      | none => rw [hf] at ih; exact ih
      | some r =>
        rw [hf] at ih
        obtain ⟨σ', extra, g, g1, g2, g3, g4⟩ := ih
        exact ⟨σ', [] :: extra, g, g1, by simp [g2], by simpa [enabledObs, hb] using g3, g4⟩
    · simp only [if_true, h]
      cases ha : activateBlock F e.inputs e.outputs b acc.1 with
      | none => exact ⟨.value, rfl⟩
      | some p =>
        obtain ⟨fz', o⟩ := p
        simp only [Py.Eng.ofOption, pure, bind, Option.bind, Except.bind]
        have ih := code_blockLoop F e fz0 bs (fz', acc.2 ++ [o])
          { σ with block := b, fuzzy := fz', rules := σ.rules ++ [o] } rfl
        cases hf : bs.foldlM (blockStep F e) (fz', acc.2 ++ [o]) with
        | none => rw [hf] at ih; exact ih
        | some r =>
          rw [hf] at ih
          obtain ⟨σ', extra, g, g1, g2, g3, g4⟩ := ih
          exact ⟨σ', o :: extra, g, g1, by simp [g2], by simpa [enabledObs, hb] using g3, g4⟩

/-- third loop: every output variable is defuzzified on the final fuzzy outputs, in order -/
theorem code_defuzzLoop (F : Fn Rat) (e : EngineD Rat) (fz0 : Nat → List (Act Rat)) : ∀ (l : List (OutVar Rat × Nat))
    (σ : Engine_process.S),
    match l.mapM (rawStep F e σ.fuzzy) with
    | none => ∃ err, Engine_process.loop3 F e fz0 (l.map (fun p => (p.2, p.1))) σ = .error err
    | some rs => ∃ σ', Engine_process.loop3 F e fz0 (l.map (fun p => (p.2, p.1))) σ = .ok σ' ∧
        σ'.raw = σ.raw ++ rs ∧ σ'.fuzzy = σ.fuzzy ∧ σ'.rules = σ.rules
  | [], σ => by
    simp only [List.mapM_nil, pure]
    exact ⟨σ, rfl, by simp, rfl, rfl⟩
  | (ov, i) :: l, σ => by
    simp only [List.mapM_cons, List.map_cons, Engine_process.loop3, rawStep, Py.Eng.defuzzifyVar]
    cases he : ov.enabled
    · simp only [Bool.false_eq_true, if_false, pure, bind, Option.bind, Except.bind]
      have ih := code_defuzzLoop F e fz0 l { σ with variable_ := (i, ov), raw := σ.raw ++ [none] }
      simp only at ih
      cases hm : l.mapM (rawStep F e σ.fuzzy) with
      | none => rw [hm] at ih; exact ih
      | some rs =>
        rw [hm] at ih
        obtain ⟨σ', g, g1, g2, g3⟩ := ih
        exact ⟨σ', g, by simpa using g1, g2, g3⟩
    · simp only [if_true]
      cases hd : defuzzRaw F (e.inputs.map (·.value)) ov (σ.fuzzy.getD i []) with
      | none => exact ⟨.value, rfl⟩
      | some r =>
        simp only [Py.Eng.ofOption, pure, bind, Option.bind, Except.bind]
        have ih := code_defuzzLoop F e fz0 l { σ with variable_ := (i, ov), raw := σ.raw ++ [some r] }
        simp only at ih
        cases hm : l.mapM (rawStep F e σ.fuzzy) with
        | none => rw [hm] at ih; exact ih
        | some rs =>
          rw [hm] at ih
          obtain ⟨σ', g, g1, g2, g3⟩ := ih
          exact ⟨σ', g, by simpa using g1, g2, g3⟩

/-- **`Engine.process` as translated from the source = the model `Op.Engine.processRow`** (top-level structure: clear the
    fuzzy outputs, activate the enabled blocks in order, defuzzify the outputs in order).  `fz i` is the fuzzy output
    of the `i`-th output variable before the call. -/
theorem code_process (F : Fn Rat) (e : EngineD Rat) (fz : Nat → List (Act Rat)) :
    match processRow F e with
    | none => ∃ err, Engine_process.run F e fz {} = .error err
    | some r => ∃ σ, Engine_process.run F e fz {} = .ok σ ∧ σ.fuzzy = r.fuzzy ∧ σ.raw = r.raw ∧
        σ.rules = enabledObs e.blocks r.rules := by
  rw [processRow_eq]
  unfold Engine_process.run Py.enumerate
  obtain ⟨σ1, h1, f1, r1, w1⟩ := code_clearLoop F e fz e.outputs 0 { fuzzy := (List.range e.outputs.length).map fz } []
    ((List.range e.outputs.length).map fz) rfl rfl (by simp)
  simp only [h1, bind, Except.bind, Option.bind]
  have h2 := code_blockLoop F e fz e.blocks (e.outputs.map (fun _ => []), []) σ1 (by simpa using f1)
  cases hf : e.blocks.foldlM (blockStep F e) (e.outputs.map (fun _ => []), []) with
  | none =>
    rw [hf] at h2; obtain ⟨err, g⟩ := h2
    exact ⟨err, by simp only [g]⟩
  | some p =>
    rw [hf] at h2
    obtain ⟨σ2, extra, g, g1, g2, g3, g4⟩ := h2
    simp only [g]
    have h3 := code_defuzzLoop F e fz e.outputs.zipIdx σ2
    rw [g1] at h3
    cases hm : e.outputs.zipIdx.mapM (rawStep F e p.1) with
    | none =>
      rw [hm] at h3; obtain ⟨err, g'⟩ := h3
      exact ⟨err, by simp only [g']⟩
    | some rs =>
      rw [hm] at h3
      obtain ⟨σ3, g', k1, k2, k3⟩ := h3
      simp only [g', pure]
      refine ⟨σ3, rfl, k2, ?_, ?_⟩
      · rw [k1, g4, w1]; rfl
      · rw [k3, g3, r1]
        simp only [List.nil_append] at g2
        rw [g2]; rfl

end Op.Engine
