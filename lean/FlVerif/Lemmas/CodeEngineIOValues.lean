import FlVerif.Gen.CodeEngineIO
import FlVerif.Lemmas.CodeRule

/-! # Tie A for the getters `Engine.input_values`, `Engine.output_values`, `Engine.values`: the code translated from the
    current source equals the models `Op.Engine.inputValues`, `outputValues`, `allValues` -/

namespace Op.Engine
open Lang Gen.Code

/-! ## `np.column_stack` of values that all have `n` rows -/

theorem columnStack_cons (v : VarValue Rat) (vs : List (VarValue Rat)) :
    Py.EIO.columnStack (v :: vs) =
      if vs.all (fun w => w.rows.length == v.rows.length) then .ok (ofColumns v.rows.length ((v :: vs).map (·.rows)))
      else .error .value := by
  simp only [Py.EIO.columnStack, Py.EIO.nrows, ofColumns, List.length_map, List.map_map, Function.comp_def]
  rfl

/-- **the getter of `Engine.input_values` as translated from the source = `Op.Engine.inputValues`** on the values the
    input variables hold -/
theorem code_inputValues (ins : List (InVar Rat × VarValue Rat)) :
    match inputValues (ins.map (·.2)) with
    | .error e => Engine_input_values.run ins {} = .error e.toPy
    | .ok a => ∃ σ, Engine_input_values.run ins {} = .ok σ ∧ σ.ret = some a := by
  unfold Engine_input_values.run inputValues
  cases h : ins.map (·.2) with
  | nil =>
    simp only [h, List.isEmpty_nil, Bool.not_true, bind, Except.bind, Bool.false_eq_true, if_false, Py.EIO.npArray,
      Py.EIO.allScalar, List.mapM_nil, Option.pure_def]
    exact ⟨_, rfl, rfl⟩
  | cons v vs =>
    simp only [h, List.isEmpty_cons, Bool.not_false, bind, Except.bind, if_true, columnStack_cons]
    by_cases hc : vs.all (fun w => w.rows.length == v.rows.length) = true
    · simp only [hc, if_true]
      exact ⟨_, rfl, rfl⟩
    · simp only [hc, if_false, Bool.false_eq_true, ErrKind.toPy]

/-! ## broadcasting: the fold `Py.EIO.bcLen` finds the batch length of the model -/

theorem batchLength_cons (n : Nat) (ns : List Nat) :
    batchLength (n :: ns) = if n = 1 then batchLength ns else n := by
  unfold batchLength
  by_cases h : n = 1
  · simp [h]
  · simp [h]

/-- the batch length is 1 or one of the lengths -/
theorem batchLength_mem (ns : List Nat) : batchLength ns ≠ 1 → batchLength ns ∈ ns := by
  induction ns with
  | nil => intro h; exact absurd rfl h
  | cons a as ih =>
    rw [batchLength_cons]
    by_cases ha : a = 1
    · simp only [ha, if_true]; intro h; exact List.mem_cons_of_mem _ (ih h)
    · simp only [ha, if_false]; intro _; exact List.mem_cons_self

theorem batchLength_ones (ns : List Nat) (h : ∀ l ∈ ns, l = 1) : batchLength ns = 1 := by
  induction ns with
  | nil => rfl
  | cons a as ih =>
    rw [batchLength_cons, if_pos (h a List.mem_cons_self)]
    exact ih (fun l hl => h l (List.mem_cons_of_mem _ hl))

/-- when every length is `k` or 1 and `k ≠ 1` occurs, `k` is the batch length -/
theorem batchLength_of_compat (k : Nat) (hk : k ≠ 1) (ns : List Nat) (hm : k ∈ ns) (hc : ∀ l ∈ ns, l = k ∨ l = 1) :
    batchLength ns = k := by
  induction ns with
  | nil => cases hm
  | cons a as ih =>
    rw [batchLength_cons]
    by_cases ha : a = 1
    · simp only [ha, if_true]
      have : k ∈ as := by
        rcases List.mem_cons.mp hm with h | h
        · exact absurd (h.trans ha) hk
        · exact h
      exact ih this (fun l hl => hc l (List.mem_cons_of_mem _ hl))
    · simp only [ha, if_false]
      rcases hc a List.mem_cons_self with h | h
      · exact h
      · exact absurd h ha

/-- every length is `n` or 1 -/
def Compat (n : Nat) (ns : List Nat) : Prop := ∀ l ∈ ns, l = n ∨ l = 1

instance (n : Nat) (ns : List Nat) : Decidable (Compat n ns) := by unfold Compat; infer_instance

theorem compat_cons (n a : Nat) (as : List Nat) : Compat n (a :: as) ↔ (a = n ∨ a = 1) ∧ Compat n as := by
  simp [Compat]

/-- **the fold of NumPy's broadcasting rule over the lengths gives the batch length of the model, exactly when every
    length is the batch length or 1** -/
theorem bcLen_eq (ns : List Nat) :
    Py.EIO.bcLen ns = if Compat (batchLength ns) ns then some (batchLength ns) else none := by
  induction ns with
  | nil => simp [Py.EIO.bcLen, batchLength, Compat]
  | cons n ns ih =>
    rw [Py.EIO.bcLen, ih, batchLength_cons]
    by_cases hn : n = 1
    · subst hn
      simp only [if_true, compat_cons, or_true, true_and]
      by_cases hc : Compat (batchLength ns) ns
      · simp only [hc, if_true, Py.EIO.bcAxis]
        by_cases h1 : 1 = batchLength ns
        · simp only [h1, if_true]
        · simp only [h1, if_false, if_true]
      · simp only [hc, if_false]
    · simp only [hn, if_false, compat_cons, true_or, true_and]
      by_cases hc : Compat (batchLength ns) ns
      · simp only [hc, if_true, Py.EIO.bcAxis, hn, if_false]
        by_cases h1 : n = batchLength ns
        · simp only [h1, if_true, hc]
        · simp only [h1, if_false]
          by_cases h2 : batchLength ns = 1
          · have : Compat n ns := fun l hl => by
              rcases hc l hl with h | h
              · exact Or.inr (h.trans h2)
              · exact Or.inr h
            simp only [h2, if_true, this]
          · have : ¬ Compat n ns := fun hcn => by
              rcases hcn _ (batchLength_mem ns h2) with h | h
              · exact h1 h.symm
              · exact h2 h
            simp only [h2, if_false, this]
      · simp only [hc, if_false]
        have : ¬ Compat n ns := fun hcn => by
          by_cases hm : n ∈ ns
          · exact hc (by rw [batchLength_of_compat n hn ns hm hcn]; exact hcn)
          · have h1 : ∀ l ∈ ns, l = 1 := fun l hl => by
              rcases hcn l hl with h | h
              · exact absurd (h ▸ hl) hm
              · exact h
            exact hc (by rw [batchLength_ones ns h1]; exact fun l hl => Or.inr (h1 l hl))
        simp only [this, if_false]

/-! ## `Engine.output_values` -/

theorem rows_vector (r : List (X Rat)) : (VarValue.vector r : VarValue Rat).rows = r := rfl

theorem atleast1d_eq (v : VarValue Rat) : Py.EIO.atleast1d v = .vector v.rows := by cases v <;> rfl

theorem allScalar_vector (r : List (X Rat)) (vs : List (VarValue Rat)) : Py.EIO.allScalar (.vector r :: vs) = none := by
  simp [Py.EIO.allScalar, List.mapM_cons]

theorem stretch_length (n : Nat) (r : List (X Rat)) (h : r.length = n ∨ r.length = 1) : (stretch n r).length = n := by
  match r, h with
  | [], h => simpa [stretch] using h
  | [x], _ => simp [stretch]
  | x :: y :: t, h =>
    rcases h with h | h
    · simpa [stretch] using h
    · simp at h

/-- what `np.broadcast_arrays` does to a 1-D array is the model's `stretch` -/
theorem stretchTo_vector (n : Nat) (r : List (X Rat)) : Py.EIO.stretchTo n (.vector r) = .vector (stretch n r) := by
  match r with
  | [] => rfl
  | [x] => rfl
  | x :: y :: t => rfl

theorem lens_of_vectors (vals : List (VarValue Rat)) :
    List.filterMap Py.EIO.len1d (vals.map (fun v => VarValue.vector v.rows)) = vals.map (·.rows.length) := by
  induction vals with
  | nil => rfl
  | cons v vs ih => simp only [List.map_cons, List.filterMap_cons, Py.EIO.len1d, ih]

/-- the condition of the model, as a proposition about the lengths -/
theorem compat_iff (n : Nat) (vals : List (VarValue Rat)) :
    vals.all (fun v => v.rows.length == n || v.rows.length == 1) = true ↔ Compat n (vals.map (·.rows.length)) := by
  simp [Compat]

/-- `np.broadcast_arrays` of 1-D arrays: every one of them has the batch length or a single row (stretched), or it
    raises `ValueError` -/
theorem broadcast_vectors (vals : List (VarValue Rat)) :
    Py.EIO.broadcastArrays (vals.map (fun v => VarValue.vector v.rows)) =
      if vals.all (fun v => v.rows.length == batchLength (vals.map (·.rows.length)) || v.rows.length == 1) then
        .ok (vals.map (fun v => VarValue.vector (stretch (batchLength (vals.map (·.rows.length))) v.rows)))
      else .error .value := by
  cases vals with
  | nil => rfl
  | cons v vs =>
    have hl := lens_of_vectors (v :: vs)
    simp only [List.map_cons] at hl ⊢
    simp only [Py.EIO.broadcastArrays, allScalar_vector, Option.isSome_none, Bool.false_eq_true, if_false, hl, bcLen_eq]
    set n := batchLength (v.rows.length :: vs.map (·.rows.length)) with hn
    have hci := compat_iff n (v :: vs)
    simp only [List.map_cons] at hci
    by_cases hc : Compat n (v.rows.length :: vs.map (·.rows.length))
    · rw [if_pos hc, if_pos (hci.mpr hc)]
      simp only [List.map_cons, stretchTo_vector, List.map_map, Function.comp_def]
    · have hall : ¬ ((v :: vs).all (fun v => v.rows.length == n || v.rows.length == 1) = true) := fun h => hc (hci.mp h)
      rw [if_neg hc, if_neg hall]

/-- `np.column_stack` of columns that were stretched to `n` rows -/
theorem columnStack_stretched (n : Nat) (v : VarValue Rat) (vs : List (VarValue Rat))
    (hc : ∀ w ∈ v :: vs, w.rows.length = n ∨ w.rows.length = 1) :
    Py.EIO.columnStack ((v :: vs).map (fun w => VarValue.vector (stretch n w.rows)))
      = .ok (ofColumns n ((v :: vs).map (fun w => stretch n w.rows))) := by
  have hlen : ∀ w ∈ v :: vs, (stretch n w.rows).length = n := fun w hw => stretch_length n w.rows (hc w hw)
  simp only [List.map_cons, columnStack_cons, rows_vector, List.all_map, List.map_map, Function.comp_def]
  have h1 : (vs.all fun w => (stretch n w.rows).length == (stretch n v.rows).length) = true := by
    rw [List.all_eq_true]
    intro w hw
    rw [hlen w (List.mem_cons_of_mem _ hw), hlen v List.mem_cons_self]
    exact beq_self_eq_true n
  rw [if_pos h1, hlen v List.mem_cons_self]

/-- **the getter of `Engine.output_values` as translated from the source = `Op.Engine.outputValues`** on the values the
    input variables and the output variables hold -/
theorem code_outputValues (ins : List (InVar Rat × VarValue Rat)) (outs : List (OutVar Rat × VarValue Rat)) :
    match outputValues (ins.map (·.2)) (outs.map (·.2)) with
    | .error e => Engine_output_values.run ins outs {} = .error e.toPy
    | .ok a => ∃ σ, Engine_output_values.run ins outs {} = .ok σ ∧ σ.ret = some a := by
  unfold Engine_output_values.run outputValues
  have hA : List.map (fun (v : Py.EIO.Variable × VarValue Rat) => Py.EIO.atleast1d v.2)
        (ins.map Py.EIO.inVariable ++ outs.map Py.EIO.outVariable)
      = (ins.map (·.2) ++ outs.map (·.2)).map (fun v => VarValue.vector v.rows) := by
    simp only [List.map_append, List.map_map, Function.comp_def, atleast1d_eq, Py.EIO.inVariable, Py.EIO.outVariable]
  have hL : (ins.map Py.EIO.inVariable).length = (ins.map (·.2)).length := by simp only [List.length_map]
  simp only [hA, hL, broadcast_vectors]
  generalize ins.map (·.2) = ivals
  generalize outs.map (·.2) = ovals
  set n := batchLength ((ivals ++ ovals).map (·.rows.length)) with hn
  by_cases hall : (ivals ++ ovals).all (fun v => v.rows.length == n || v.rows.length == 1) = true
  · rw [if_pos hall, if_pos hall]
    have hd : List.drop ivals.length ((ivals ++ ovals).map (fun v => VarValue.vector (stretch n v.rows)))
        = ovals.map (fun v => VarValue.vector (stretch n v.rows)) := by
      rw [List.map_append, List.drop_append_of_le_length (by simp), List.drop_eq_nil_of_le (by simp)]
      · rfl
    simp only [bind, Except.bind, hd]
    cases ovals with
    | nil =>
      simp only [List.map_nil, List.isEmpty_nil, Bool.not_true, Bool.false_eq_true, if_false, if_true, Py.EIO.npArray,
        Py.EIO.allScalar, List.mapM_nil, Option.pure_def]
      exact ⟨_, rfl, rfl⟩
    | cons v vs =>
      have hc : ∀ w ∈ v :: vs, w.rows.length = n ∨ w.rows.length = 1 := fun w hw => by
        have := (List.all_eq_true.mp hall) w (List.mem_append_right _ hw)
        simpa using this
      have hcs := columnStack_stretched n v vs hc
      simp only [List.map_cons] at hcs
      simp only [List.map_cons, List.isEmpty_cons, Bool.not_false, if_true, Bool.false_eq_true, if_false, hcs]
      exact ⟨_, rfl, rfl⟩
  · rw [if_neg hall, if_neg hall]
    simp only [bind, Except.bind, ErrKind.toPy]

/-- the batch length of lengths that are all `n` or 1, when `n` is 1 or occurs among them -/
theorem batchLength_eq (n : Nat) (ns : List Nat) (hc : ∀ l ∈ ns, l = n ∨ l = 1) (hn : n = 1 ∨ n ∈ ns) :
    batchLength ns = n := by
  by_cases h1 : n = 1
  · subst h1
    apply batchLength_ones
    intro l hl
    rcases hc l hl with h | h <;> exact h
  · rcases hn with h | h
    · exact absurd h h1
    · exact batchLength_of_compat n h1 ns h hc

/-- **the case F12 and F17 are about**: after a batch of `n` rows every input variable holds `n` rows (or a single
    value given as a float), and every output variable holds `n` rows or – disabled, or without activations – a single
    row.  When `n` is 1 or SOME value, of an input variable or of an output variable, has `n` rows, `output_values` does
    not raise and is the 2-D array of `n` rows in which the single rows are repeated -/
theorem outputValues_batch (ins outs : List (VarValue Rat)) (n : Nat) (hne : outs ≠ [])
    (hc : ∀ v ∈ ins ++ outs, v.rows.length = n ∨ v.rows.length = 1)
    (hn : n = 1 ∨ ∃ v ∈ ins ++ outs, v.rows.length = n) :
    outputValues ins outs = .ok (ofColumns n (outs.map (fun v => stretch n v.rows))) := by
  have hcl : Compat n ((ins ++ outs).map (·.rows.length)) := fun l hl => by
    obtain ⟨w, hw, rfl⟩ := List.mem_map.mp hl
    exact hc w hw
  have hB : batchLength ((ins ++ outs).map (·.rows.length)) = n := by
    apply batchLength_eq n _ hcl
    rcases hn with h | ⟨v, hv, hvn⟩
    · exact Or.inl h
    · exact Or.inr (List.mem_map.mpr ⟨v, hv, hvn⟩)
  unfold outputValues
  simp only [hB]
  have hall : (ins ++ outs).all (fun v => v.rows.length == n || v.rows.length == 1) = true :=
    (compat_iff n (ins ++ outs)).mpr hcl
  have he : outs.isEmpty = false := by
    cases outs with
    | nil => exact absurd rfl hne
    | cons _ _ => rfl
  simp only [hall, if_true, he, Bool.false_eq_true, if_false]

theorem stretch_single (n : Nat) (r : List (X Rat)) (h : r.length = 1) :
    stretch n r = List.replicate n (r.headD .nan) := by
  match r, h with
  | [x], _ => rfl

/-- **F17**: no output variable holds a value per row (all of them disabled, no rule block enabled, no rule concluding
    them) while the input variables hold the `n` rows of the batch: `output_values` has `n` rows, each the single
    values of the output variables.  (Before the repair it had ONE row, so `Engine.values` raised.) -/
theorem outputValues_no_activations (ins outs : List (VarValue Rat)) (n : Nat) (hne : outs ≠ []) (hi : ins ≠ [])
    (hins : ∀ v ∈ ins, v.rows.length = n) (houts : ∀ v ∈ outs, v.rows.length = 1) :
    outputValues ins outs = .ok (ofColumns n (outs.map (fun v => List.replicate n (v.rows.headD .nan)))) := by
  have h := outputValues_batch ins outs n hne
    (fun v hv => by
      rcases List.mem_append.mp hv with h | h
      · exact Or.inl (hins v h)
      · exact Or.inr (houts v h))
    (by
      cases ins with
      | nil => exact absurd rfl hi
      | cons v vs => exact Or.inr ⟨v, List.mem_append_left _ List.mem_cons_self, hins v List.mem_cons_self⟩)
  rw [h]
  congr 2
  apply List.map_congr_left
  intro v hv
  exact stretch_single n v.rows (houts v hv)

/-! ## `Engine.values` -/

/-- what the two getters return: the empty 1-D array or a 2-D array -/
inductive GetterShape : NdArr Rat → Prop where
  | empty : GetterShape (.vector [])
  | matrix (c : Nat) (rows : List (List (X Rat))) : GetterShape (.matrix c rows)

theorem inputValues_shape (vals : List (VarValue Rat)) (a : NdArr Rat) (h : inputValues vals = .ok a) : GetterShape a := by
  unfold inputValues at h
  cases vals with
  | nil => cases h; exact .empty
  | cons v vs =>
    simp only at h
    split at h
    · cases h; exact .matrix _ _
    · cases h

theorem outputValues_shape (ins outs : List (VarValue Rat)) (a : NdArr Rat) (h : outputValues ins outs = .ok a) :
    GetterShape a := by
  unfold outputValues at h
  simp only at h
  split at h
  · split at h
    · cases h; exact .empty
    · cases h; exact .matrix _ _
  · cases h

/-- `np.hstack` of two arrays the getters return is the model's `sideBySide` -/
theorem hstack_eq (a b : NdArr Rat) (ha : GetterShape a) (hb : GetterShape b) :
    Py.EIO.hstack a b = (match sideBySide a b with | .ok r => .ok r | .error e => .error e.toPy) := by
  cases ha <;> cases hb <;> simp only [Py.EIO.hstack, sideBySide, ErrKind.toPy]
  split <;> rfl

/-- **the getter of `Engine.values` as translated from the source = `Op.Engine.allValues`**: the two generated getters
    (input values first), then `np.hstack` -/
theorem code_values (ins : List (InVar Rat × VarValue Rat)) (outs : List (OutVar Rat × VarValue Rat)) :
    match allValues (ins.map (·.2)) (outs.map (·.2)) with
    | .error e => Engine_values.run ins outs {} = .error e.toPy
    | .ok a => ∃ σ, Engine_values.run ins outs {} = .ok σ ∧ σ.ret = some a := by
  unfold allValues Engine_values.run
  have Hi := code_inputValues ins
  cases hi : inputValues (ins.map (·.2)) with
  | error e => rw [hi] at Hi; simp only at Hi; simp only [Hi, bind, Except.bind]
  | ok a =>
    rw [hi] at Hi; obtain ⟨σi, ei, ri⟩ := Hi
    have Ho := code_outputValues ins outs
    cases ho : outputValues (ins.map (·.2)) (outs.map (·.2)) with
    | error e => rw [ho] at Ho; simp only at Ho; simp only [ei, ri, Ho, bind, Except.bind, Py.deref_some]
    | ok b =>
      rw [ho] at Ho; obtain ⟨σo, eo, ro⟩ := Ho
      simp only [ei, ri, eo, ro, bind, Except.bind, Py.deref_some,
        hstack_eq a b (inputValues_shape _ _ hi) (outputValues_shape _ _ _ ho)]
      cases sideBySide a b with
      | error e => rfl
      | ok r => exact ⟨_, rfl, rfl⟩

/-- F17 for `Engine.values`: with the `n` rows of the batch on every input variable and single values on every output
    variable the two getters return `n` rows each, so `values` is their `n` rows side by side -/
theorem allValues_no_activations (ins outs : List (VarValue Rat)) (n : Nat) (hne : outs ≠ []) (hi : ins ≠ [])
    (hins : ∀ v ∈ ins, v.rows.length = n) (houts : ∀ v ∈ outs, v.rows.length = 1) :
    ∃ rows, allValues ins outs = .ok (.matrix (ins.length + outs.length) rows) ∧ rows.length = n := by
  unfold allValues
  rw [outputValues_no_activations ins outs n hne hi hins houts]
  cases ins with
  | nil => exact absurd rfl hi
  | cons v vs =>
    have hv := hins v List.mem_cons_self
    have hall : vs.all (fun w => w.rows.length == n) = true := by
      rw [List.all_eq_true]
      intro w hw
      rw [hins w (List.mem_cons_of_mem _ hw)]
      exact beq_self_eq_true n
    simp only [inputValues, hv, hall, if_true, ofColumns, sideBySide, List.length_map, List.length_range]
    exact ⟨_, rfl, by simp⟩

end Op.Engine
