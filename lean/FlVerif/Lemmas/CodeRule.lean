import FlVerif.Gen.CodeRule
import FlVerif.Op.RuleParse

/-! # Tie A for `Rule.parse`: the definition translated from the current source equals the model `Op.ruleParse` -/

namespace Lang

/-- the exception class of the translated code that corresponds to an error kind of the models -/
def ErrKind.toPy : ErrKind → Py.Err
  | .syntax => .syntax | .value => .value | .lookup => .lookup | .runtime => .runtime

end Lang

namespace Op
open Lang Gen.Code

/-- numbering of `s_begin, s_if, s_then, s_with, s_end = range(5)` -/
def PState.code : PState → Nat
  | .sBegin => 0 | .sIf => 1 | .sThen => 2 | .sWith => 3 | .sEnd => 4

/-- what the translated loop and the loop of the model have in common -/
def LoopAgree (r : Except ErrKind (PState × List String × List String × X Rat)) (g : Py.M Rule_parse.S) : Prop :=
  match r with
  | .error e => g = .error e.toPy
  | .ok (s', a, c, w) => ∃ σ', g = .ok σ' ∧ σ'.state = s'.code ∧ σ'.antecedent = a ∧ σ'.consequent = c ∧ σ'.weight = w

/-- the loop of the translated code is the loop of the model -/
theorem code_parseLoop (text : String) : ∀ (ts : List String) (s : PState) (σ : Rule_parse.S), σ.state = s.code →
    LoopAgree (parseLoop s σ.antecedent σ.consequent σ.weight ts) (Rule_parse.loop1 text ts σ)
  | [], s, σ, h => by
    simp only [parseLoop, Rule_parse.loop1, LoopAgree]
    exact ⟨σ, rfl, h, rfl, rfl, rfl⟩
  | t :: ts, s, σ, h => by
    cases s <;> simp only [PState.code] at h <;>
      simp only [Rule_parse.loop1, parseLoop, h, beq_iff_eq, Nat.reduceEqDiff, if_true, if_false, reduceCtorEq,
        OfNat.ofNat_ne_zero, OfNat.ofNat_ne_one, Nat.succ_ne_self, one_ne_zero, zero_ne_one]
    · by_cases ht : t = "if"
      · simp only [ht, if_true]
        exact code_parseLoop text ts .sIf { σ with token := "if", state := 1 } rfl
      · simp only [ht, if_false, LoopAgree, ErrKind.toPy]
    · by_cases ht : t = "then"
      · simp only [ht, if_true]
        exact code_parseLoop text ts .sThen { σ with token := "then", state := 2 } rfl
      · simp only [ht, if_false]
        exact code_parseLoop text ts .sIf { σ with token := t, antecedent := σ.antecedent ++ [t], state := 1 } rfl
    · by_cases ht : t = "with"
      · simp only [ht, if_true]
        exact code_parseLoop text ts .sWith { σ with token := "with", state := 3 } rfl
      · simp only [ht, if_false]
        exact code_parseLoop text ts .sThen { σ with token := t, consequent := σ.consequent ++ [t], state := 2 } rfl
    · simp only [Py.float]
      cases hf : parseFloat t with
      | none => simp only [LoopAgree, ErrKind.toPy, bind, Except.bind]
      | some v =>
        simp only [bind, Except.bind]
        exact code_parseLoop text ts .sEnd { σ with token := t, weight := v, state := 4 } rfl
    · simp only [LoopAgree, ErrKind.toPy]

end Op

namespace Py

theorem findCharAux_spec (c : Char) : ∀ (l : List Char) (i : Nat),
    (c ∉ l → findCharAux c l i = -1) ∧
    (c ∈ l → findCharAux c l i = ((i + (l.takeWhile (· != c)).length : Nat) : Int))
  | [], i => by simp [findCharAux]
  | d :: rest, i => by
    by_cases h : d = c
    · subst h; simp [findCharAux]
    · have ih := findCharAux_spec c rest (i + 1)
      have h' : ¬ c = d := fun e => h e.symm
      simp only [findCharAux, h, if_false, List.mem_cons, h', false_or, List.takeWhile_cons, bne_iff_ne, ne_eq,
        not_false_eq_true, decide_true, if_true, List.length_cons]
      refine ⟨ih.1, fun hm => ?_⟩
      rw [ih.2 hm]; congr 1; omega

theorem takeWhile_ne_of_not_mem (c : Char) : ∀ (l : List Char), c ∉ l → l.takeWhile (· != c) = l
  | [], _ => rfl
  | d :: rest, h => by
    have h1 : d ≠ c := fun e => h (by simp [e])
    have h2 : c ∉ rest := fun hm => h (by simp [hm])
    simp [List.takeWhile_cons, h1, takeWhile_ne_of_not_mem c rest h2]

theorem take_takeWhile_length (c : Char) : ∀ (l : List Char), l.take (l.takeWhile (· != c)).length = l.takeWhile (· != c)
  | [] => rfl
  | d :: rest => by
    by_cases h : d = c
    · simp [List.takeWhile_cons, h]
    · simp [List.takeWhile_cons, h, take_takeWhile_length c rest]

/-- `text if text.find("#") == -1 else text[0:text.find("#")]` is the text before the first `#` -/
theorem cut_comment (text : String) :
    (if (findChar text '#' == (-1)) then text else strPrefix text (findChar text '#')).toList
      = Op.cutComment text.toList := by
  unfold findChar strPrefix Op.cutComment
  have hs := findCharAux_spec '#' text.toList 0
  by_cases hm : '#' ∈ text.toList
  · rw [hs.2 hm]
    have hne : ((((0 + (text.toList.takeWhile (· != '#')).length : Nat) : Int)) == -1) = false := by
      rw [beq_eq_false_iff_ne]; omega
    rw [hne]
    simp only [Bool.false_eq_true, if_false, Nat.zero_add, Int.toNat_natCast, String.toList_ofList]
    exact take_takeWhile_length '#' text.toList
  · rw [hs.1 hm]
    simp only [beq_self_eq_true, if_true]
    exact (takeWhile_ne_of_not_mem '#' text.toList hm).symm

end Py

namespace Op
open Lang Gen.Code

/-- **`Rule.parse` as translated from the source = the model `Op.ruleParse`**: same exception class, and on success
    the texts assigned to the antecedent / consequent are the joined token lists and the weight is the parsed one -/
theorem code_ruleParse (text : String) :
    match ruleParse text with
    | .error e => Rule_parse.run text {} = .error e.toPy
    | .ok p => ∃ σ, Rule_parse.run text {} = .ok σ ∧ σ.self_antecedent_text = " ".intercalate p.ante ∧
        σ.self_consequent_text = " ".intercalate p.cons ∧ σ.self_weight = p.weight := by
  have hsplit : Py.split (if (Py.findChar text '#' == (-1)) then text else Py.strPrefix text (Py.findChar text '#'))
      = scan [] (cutComment text.toList) 0 [] := by
    unfold Py.split splitWords; rw [Py.cut_comment]
  unfold ruleParse ruleParseTokens Rule_parse.run
  simp only [hsplit]
  have hl := code_parseLoop text (scan [] (cutComment text.toList) 0 []) .sBegin
    { comment_index := Py.findChar text '#',
      rule := (if (Py.findChar text '#' == (-1)) then text else Py.strPrefix text (Py.findChar text '#')),
      antecedent := [], consequent := [], weight := .fin 1, state := 0 } rfl
  simp only at hl
  cases hp : parseLoop .sBegin [] [] (.fin 1) (scan [] (cutComment text.toList) 0 []) with
  | error e =>
    rw [hp] at hl; simp only [LoopAgree] at hl
    simp only [hl, bind, Except.bind]
  | ok r =>
    obtain ⟨s', a, c, w⟩ := r
    rw [hp] at hl; simp only [LoopAgree] at hl
    obtain ⟨σ', hσ, h1, h2, h3, h4⟩ := hl
    simp only [hσ, bind, Except.bind, h1, h2, h3, h4]
    cases s' <;> simp only [PState.code, beq_iff_eq, Nat.reduceEqDiff, if_true, if_false, reduceCtorEq, true_or, or_true,
      or_false, false_or, ErrKind.toPy, OfNat.ofNat_ne_zero, OfNat.ofNat_ne_one, one_ne_zero]
    all_goals
      cases a with
      | nil => simp [ErrKind.toPy]
      | cons a0 a1 =>
        cases c with
        | nil => simp [ErrKind.toPy]
        | cons c0 c1 => simp [Py.joinSp]

end Op
