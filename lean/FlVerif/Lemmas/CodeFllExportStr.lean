import FlVerif.Op.PyExtFllExport

/-! # String facts used by the ties of the FLL exporter (`Lemmas/CodeFllExport*.lean`)

`sep.join` of a list in which some elements are themselves `sep.join`s of non-empty lists is the join of the
flattened list; printed numbers are not empty; `Py.Fll.format` on the value shapes the exporter passes. -/

namespace Py.Fll
open Op.FllIO Dec

theorem join_nil (sep : String) : join sep [] = "" := String.intercalate_nil
theorem join_singleton (sep s : String) : join sep [s] = s := String.intercalate_singleton

theorem join_append (sep : String) {l m : List String} (hl : l ≠ []) (hm : m ≠ []) :
    join sep (l ++ m) = join sep l ++ sep ++ join sep m := String.intercalate_append_of_ne_nil hl hm

/-- joining joined non-empty groups = joining the flattened list -/
theorem join_map_join (sep : String) : ∀ (L : List (List String)), (∀ l ∈ L, l ≠ []) →
    join sep (L.map (join sep)) = join sep L.flatten
  | [], _ => by simp [join_nil]
  | [l], _ => by simp [join_singleton]
  | l :: l' :: R, h => by
    have hl : l ≠ [] := h l (by simp)
    have hl' : l' ≠ [] := h l' (by simp)
    have ih := join_map_join sep (l' :: R) (fun x hx => h x (by simp [List.mem_cons] at hx ⊢; tauto))
    have hne : (l' :: R).flatten ≠ [] := by simp [hl']
    rw [List.map_cons, List.map_cons, join, String.intercalate_cons_cons]
    rw [show sep.intercalate (join sep l' :: List.map (join sep) R) = join sep ((l' :: R).map (join sep)) from rfl, ih]
    have e : (l :: l' :: R).flatten = l ++ (l' :: R).flatten := rfl
    rw [e, join_append sep hl hne]

/-- groups in the middle of a list -/
theorem join_groups (sep : String) (A : List String) (L : List (List String)) (B : List String)
    (h : ∀ l ∈ L, l ≠ []) :
    join sep (A ++ L.map (join sep) ++ B) = join sep (A ++ L.flatten ++ B) := by
  have e1 : A ++ L.map (join sep) ++ B = (A.map (fun a => [a]) ++ L ++ B.map (fun b => [b])).map (join sep) := by
    simp [join_singleton, Function.comp_def]
  have e2 : A ++ L.flatten ++ B = (A.map (fun a => [a]) ++ L ++ B.map (fun b => [b])).flatten := by
    have hs : ∀ X : List String, (X.map (fun a => [a])).flatten = X := by
      intro X; induction X with
      | nil => rfl
      | cons x X ih => simp [ih]
    simp [List.flatten_append, hs]
  rw [e1, e2]
  apply join_map_join
  intro l hl
  simp only [List.mem_append, List.mem_map] at hl
  rcases hl with (⟨a, _, rfl⟩ | hl) | ⟨b, _, rfl⟩
  · simp
  · exact h l hl
  · simp

/-- one group in the middle of a list -/
theorem join_group (sep : String) (A b B : List String) (hb : b ≠ []) :
    join sep (A ++ [join sep b] ++ B) = join sep (A ++ b ++ B) := by
  have := join_groups sep A [b] B (by simpa using hb)
  simpa using this

theorem joinSp_eq (l : List String) : Py.joinSp l = join " " l := rfl

theorem join_cons_ne (sep x : String) (r : List String) (hx : x ≠ "") : join sep (x :: r) ≠ "" := by
  cases r with
  | nil => simpa [join_singleton] using hx
  | cons y r =>
    rw [join, String.intercalate_cons_cons]
    intro h
    rw [String.append_eq_empty_iff, String.append_eq_empty_iff] at h
    exact hx h.1.1

/-! ### printed numbers are not empty -/

theorem render_ne (d : ℕ) (k : Dec) : Dec.render d k ≠ "" := by
  cases k with
  | nan => simp only [Dec.render]; decide
  | pinf => simp only [Dec.render]; decide
  | ninf => simp only [Dec.render]; decide
  | num neg k =>
    simp only [Dec.render]
    intro h
    rw [String.append_eq_empty_iff, String.append_eq_empty_iff] at h
    exact Nat.repr_ne_empty h.1.2

theorem int_toString_ne (z : Int) : toString z ≠ "" := by
  cases z with
  | ofNat n => exact Nat.repr_ne_empty
  | negSucc n =>
    show ("-" ++ Nat.repr (n + 1)) ≠ ""
    intro h
    rw [String.append_eq_empty_iff] at h
    exact absurd h.1 (by decide)

theorem numText_ne (d : ℕ) (x : Num) : numText d x ≠ "" := render_ne d _

theorem render_numTok (c : Cfg) (x : Num) : Tok.render c.d (numTok c x) = numText c.d x := by
  simp only [numTok, Tok.render, numText, fmt_rnd]

end Py.Fll
