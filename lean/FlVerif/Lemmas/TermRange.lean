import FlVerif.Spec.Term
import FlVerif.Lemmas.Interp
import FlVerif.Base.FnReal
import Mathlib.Tactic.FieldSimp
import Mathlib.Tactic.Positivity
import Mathlib.Tactic.NormNum

/-! Ranges of the documented membership functions (C03): `0 ≤ μ(x) ≤ h` -/

set_option linter.unusedSectionVars false
set_option linter.unusedVariables false
set_option linter.unusedSimpArgs false

namespace TermRange
open Spec

/-- `0 ≤ v ≤ h` -/
def In (h v : α) [LE α] [Zero α] : Prop := 0 ≤ v ∧ v ≤ h

section generic
variable {α : Type} [Field α] [LinearOrder α] [IsStrictOrderedRing α]

theorem in_zero {h : α} (hh : 0 ≤ h) : In h (0 : α) := ⟨le_refl _, hh⟩
theorem in_top {h : α} (hh : 0 ≤ h) : In h h := ⟨hh, le_refl _⟩
/-- `h · t` with `t ∈ [0,1]` -/
theorem in_mul {h t : α} (hh : 0 ≤ h) (h0 : 0 ≤ t) (h1 : t ≤ 1) : In h (h * t) :=
  ⟨mul_nonneg hh h0, by nlinarith⟩

theorem binary_range (s : α) (d : X α) (h x : α) (hh : 0 ≤ h) : In h (Mu.binary s d h x) := by
  unfold Mu.binary; split_ifs
  · exact in_top hh
  · exact in_zero hh

theorem rectangle_range (s e h x : α) (hh : 0 ≤ h) : In h (Mu.rectangle s e h x) := by
  unfold Mu.rectangle; split_ifs
  · exact in_top hh
  · exact in_zero hh

theorem concave_range (i e h x : α) (hh : 0 ≤ h) : In h (Mu.concave i e h x) := by
  unfold Mu.concave
  split_ifs with h1 h2
  · have hd : 0 < 2 * e - i - x := by linarith [h1.1, h1.2]
    exact in_mul hh (div_nonneg (by linarith [h1.1]) hd.le) ((div_le_one hd).2 (by linarith [h1.2]))
  · have hd : 0 < -2 * e + i + x := by linarith [h2.1, h2.2]
    exact in_mul hh (div_nonneg (by linarith [h2.1]) hd.le) ((div_le_one hd).2 (by linarith [h2.2]))
  · exact in_top hh

theorem ramp_range (s e h x : α) (hh : 0 ≤ h) : In h (Mu.ramp s e h x) := by
  unfold Mu.ramp
  split_ifs with h1 h2 h3 h4
  · have hd : 0 < e - s := by linarith [h1.1, h1.2]
    exact in_mul hh (div_nonneg (by linarith [h1.1]) hd.le) ((div_le_one hd).2 (by linarith [h1.2]))
  · have hd : 0 < s - e := by linarith [h2.1, h2.2]
    exact in_mul hh (div_nonneg (by linarith [h2.2]) hd.le) ((div_le_one hd).2 (by linarith [h2.1]))
  · exact in_top hh
  · exact in_top hh
  · exact in_zero hh

/-- the unit S-curve in the normalised variable `t = (x − s)/(e − s)` -/
def sUnit (t : α) : α := if t ≤ 0 then 0 else if t ≤ 1 / 2 then 2 * t ^ 2 else if t < 1 then 1 - 2 * (t - 1) ^ 2 else 1

theorem sUnit_range (t : α) : 0 ≤ sUnit t ∧ sUnit t ≤ 1 := by
  unfold sUnit
  split_ifs with h1 h2 h3
  · exact ⟨le_refl _, zero_le_one⟩
  · simp only [not_le] at h1; constructor <;> nlinarith
  · simp only [not_le] at h1 h2; constructor <;> nlinarith
  · exact ⟨zero_le_one, le_refl _⟩

theorem sUnit_mono {t u : α} (htu : t ≤ u) : sUnit t ≤ sUnit u := by
  unfold sUnit
  split_ifs
  all_goals (try simp only [not_le, not_lt] at *)
  all_goals first | exact le_refl _ | nlinarith

theorem sShape_eq (s e h x : α) (hse : s < e) : Mu.sShape s e h x = h * sUnit ((x - s) / (e - s)) := by
  have hd : 0 < e - s := by linarith
  have c1 : (x - s) / (e - s) ≤ 0 ↔ x ≤ s := by rw [div_le_iff₀ hd]; constructor <;> intro h <;> linarith
  have c2 : (x - s) / (e - s) ≤ 1 / 2 ↔ x ≤ (s + e) / 2 := by
    rw [div_le_iff₀ hd]; constructor <;> intro h <;> linarith
  have c3 : (x - s) / (e - s) < 1 ↔ x < e := by rw [div_lt_iff₀ hd]; constructor <;> intro h <;> linarith
  have e1 : (x - e) / (e - s) = (x - s) / (e - s) - 1 := by field_simp; ring
  unfold Mu.sShape sUnit
  simp only [c1, c2, c3, e1]
  split_ifs <;> ring

theorem zShape_eq (s e h x : α) (hse : s < e) : Mu.zShape s e h x = h - Mu.sShape s e h x := by
  have hd : e - s ≠ 0 := by intro h0; linarith
  unfold Mu.zShape Mu.sShape
  by_cases h1 : x ≤ s
  · simp [h1]
  · by_cases h2 : x < (s + e) / 2
    · simp [h1, h2, h2.le]
    · by_cases h2' : x = (s + e) / 2
      · have hx : x < e := by linarith
        simp only [h1, h2, hx, h2'.le, if_true, if_false]
        rw [h2']; field_simp; ring
      · have h3 : ¬ x ≤ (s + e) / 2 := by
          intro h; exact h2 (lt_of_le_of_ne h h2')
        by_cases h4 : x < e
        · simp [h1, h2, h3, h4]
        · simp [h1, h2, h3, h4]

theorem sShape_range (s e h x : α) (hse : s < e) (hh : 0 ≤ h) : In h (Mu.sShape s e h x) := by
  rw [sShape_eq s e h x hse]
  exact in_mul hh (sUnit_range _).1 (sUnit_range _).2

theorem zShape_range (s e h x : α) (hse : s < e) (hh : 0 ≤ h) : In h (Mu.zShape s e h x) := by
  rw [zShape_eq s e h x hse]
  have := sShape_range s e h x hse hh
  exact ⟨by linarith [this.2], by linarith [this.1]⟩

theorem piShape_range (a b c d h x : α) (hab : a < b) (hcd : c < d) (hh : 0 ≤ h) : In h (Mu.piShape a b c d h x) := by
  unfold Mu.piShape
  have h1 := sShape_range a b 1 x hab zero_le_one
  have h2 := zShape_range c d 1 x hcd zero_le_one
  exact in_mul hh (mul_nonneg h1.1 h2.1) (by nlinarith [h1.1, h1.2, h2.1, h2.2])

theorem triangle_range (a : X α) (b : α) (c : X α) (h x : α) (ha : LeftEnd a b) (hc : RightEnd b c) (hh : 0 ≤ h) :
    In h (Mu.triangle a b c h x) := by
  unfold Mu.triangle
  split_ifs with h1 h2 h3
  · exact in_zero hh
  · exact in_top hh
  · simp only [not_or] at h2
    rcases ha with rfl | ⟨a', rfl, hab⟩
    · exact absurd ⟨rfl, h3⟩ h2.2.1
    · have hxa : a' ≤ x := by
        by_contra hlt; simp only [not_le] at hlt; simp [X.lt, hlt] at h1
      have hd : 0 < b - a' := by linarith
      exact in_mul hh (div_nonneg (by simpa using hxa) hd.le) ((div_le_one hd).2 (by simp; linarith))
  · simp only [not_or] at h2
    have hbx : b < x := lt_of_le_of_ne (not_lt.1 h3) (Ne.symm h2.1)
    rcases hc with rfl | ⟨c', rfl, hbc⟩
    · exact absurd ⟨rfl, hbx⟩ h2.2.2
    · have hxc : x ≤ c' := by
        by_contra hlt; simp only [not_le] at hlt; simp [X.lt, hlt] at h1
      have hd : 0 < c' - b := by linarith
      exact in_mul hh (div_nonneg (by simpa using hxc) hd.le) ((div_le_one hd).2 (by simp; linarith))

theorem trapezoid_range (a : X α) (b c : α) (d : X α) (h x : α) (ha : LeftEnd a b) (hd : RightEnd c d)
    (hh : 0 ≤ h) : In h (Mu.trapezoid a b c d h x) := by
  unfold Mu.trapezoid
  split_ifs with h1 h2 h3
  · exact in_zero hh
  · exact in_top hh
  · simp only [not_or] at h2
    rcases ha with rfl | ⟨a', rfl, hab⟩
    · exact absurd ⟨rfl, h3⟩ h2.2.1
    · have hxa : a' ≤ x := by
        by_contra hlt; simp only [not_le] at hlt; simp [X.lt, hlt] at h1
      have hd : 0 < b - a' := by linarith
      exact in_mul hh (div_nonneg (by simpa using hxa) hd.le) ((div_le_one hd).2 (by simp; linarith))
  · simp only [not_or, not_and, not_le] at h2
    have hcx : c < x := h2.1 (not_lt.1 h3)
    rcases hd with rfl | ⟨d', rfl, hcd⟩
    · exact absurd hcx (h2.2.2 rfl)
    · have hxd : x ≤ d' := by
        by_contra hlt; simp only [not_le] at hlt; simp [X.lt, hlt] at h1
      have hd : 0 < d' - c := by linarith
      exact in_mul hh (div_nonneg (by simpa using hxd) hd.le) ((div_le_one hd).2 (by simp; linarith))

theorem discreteOk_incX : ∀ pts : List (α × α), DiscreteOk pts → Op.IncX pts ∧ ∀ q ∈ pts, 0 ≤ q.2 ∧ q.2 ≤ 1
  | [], h => absurd h (by simp [DiscreteOk])
  | [p], h => ⟨trivial, by intro q hq; simp at hq; subst hq; exact h⟩
  | p :: q :: rest, h => by
    obtain ⟨h0, h1, h2, h3⟩ := h
    have ih := discreteOk_incX (q :: rest) h3
    refine ⟨⟨h2, ih.1⟩, ?_⟩
    intro t ht
    rcases List.mem_cons.1 ht with rfl | ht
    · exact ⟨h0, h1⟩
    · exact ih.2 t ht

theorem discrete_range (pts : List (α × α)) (h x : α) (hp : DiscreteOk pts) (hh : 0 ≤ h) :
    In h (Mu.discrete pts h x) := by
  have hne : pts ≠ [] := by rintro rfl; simp [DiscreteOk] at hp
  obtain ⟨hi, hb⟩ := discreteOk_incX pts hp
  have := Op.interp_range pts x 0 1 hne hi hb
  exact in_mul hh this.1 this.2

end generic

section real
open Real
local notation "F" => Fn.real

theorem arc_range (s e h x : ℝ) (hse : s ≠ e) (hh : 0 ≤ h) : In h (Mu.arc F s e h x) := by
  unfold Mu.arc
  split_ifs with h1 h2
  · have hr : 0 < |e - s| := abs_pos.2 (sub_ne_zero.2 (Ne.symm hse))
    have hle : √((e - s) ^ 2 - (x - e) ^ 2) ≤ |e - s| := by
      rw [Real.sqrt_le_left hr.le, sq_abs]; nlinarith [sq_nonneg (x - e)]
    exact in_mul hh (div_nonneg (Real.sqrt_nonneg _) hr.le) ((div_le_one hr).2 hle)
  · exact in_top hh
  · exact in_zero hh

theorem powNN_nonneg_real {a : ℝ} (ha : 0 ≤ a) (b : ℝ) : 0 ≤ powNN F a b := by
  unfold powNN
  split_ifs
  · exact zero_le_one
  · exact le_refl _
  · exact Real.rpow_nonneg ha b

theorem bell_range (c w sl h x : ℝ) (hw : 0 < w) (hh : 0 ≤ h) : In h (Mu.bell F c w sl h x) := by
  unfold Mu.bell
  have hp := powNN_nonneg_real (div_nonneg (abs_nonneg (x - c)) hw.le) (2 * sl)
  have hd : 0 < 1 + powNN F (|x - c| / w) (2 * sl) := by linarith
  exact ⟨div_nonneg hh hd.le, div_le_self hh (by linarith)⟩

theorem cosine_range (c w h x : ℝ) (hh : 0 ≤ h) : In h (Mu.cosine F c w h x) := by
  unfold Mu.cosine
  split_ifs
  · have h1 := Real.neg_one_le_cos (2 / w * π * (x - c))
    have h2 := Real.cos_le_one (2 / w * π * (x - c))
    simp only [Fn.real]
    constructor <;> nlinarith
  · exact in_zero hh

theorem exp_unit {a : ℝ} (ha : a ≤ 0) : 0 ≤ Real.exp a ∧ Real.exp a ≤ 1 :=
  ⟨(Real.exp_pos a).le, Real.exp_le_one_iff.2 ha⟩

theorem gauss_arg_nonpos (x m sd : ℝ) : -(x - m) ^ 2 / (2 * sd ^ 2) ≤ 0 :=
  div_nonpos_of_nonpos_of_nonneg (by nlinarith [sq_nonneg (x - m)]) (by positivity)

theorem gaussian_range (m sd h x : ℝ) (hh : 0 ≤ h) : In h (Mu.gaussian F m sd h x) := by
  unfold Mu.gaussian
  have := exp_unit (gauss_arg_nonpos x m sd)
  exact in_mul hh this.1 this.2

theorem gaussianProduct_range (ma sa mb sb h x : ℝ) (hh : 0 ≤ h) : In h (Mu.gaussianProduct F ma sa mb sb h x) := by
  unfold Mu.gaussianProduct
  have ha : 0 ≤ (if x < ma then Mu.gaussian F ma sa 1 x else 1) ∧ (if x < ma then Mu.gaussian F ma sa 1 x else 1) ≤ 1 := by
    split_ifs
    · exact gaussian_range ma sa 1 x zero_le_one
    · exact ⟨zero_le_one, le_refl _⟩
  have hb : 0 ≤ (if mb < x then Mu.gaussian F mb sb 1 x else 1) ∧ (if mb < x then Mu.gaussian F mb sb 1 x else 1) ≤ 1 := by
    split_ifs
    · exact gaussian_range mb sb 1 x zero_le_one
    · exact ⟨zero_le_one, le_refl _⟩
  exact in_mul hh (mul_nonneg ha.1 hb.1) (by nlinarith [ha.1, ha.2, hb.1, hb.2])

theorem semiEllipse_range (s e h x : ℝ) (hse : s ≠ e) (hh : 0 ≤ h) : In h (Mu.semiEllipse F s e h x) := by
  unfold Mu.semiEllipse
  split_ifs with hx
  · have hlt : min s e < max s e := by
      rcases lt_or_gt_of_ne hse with h1 | h1
      · rw [min_eq_left h1.le, max_eq_right h1.le]; exact h1
      · rw [min_eq_right h1.le, max_eq_left h1.le]; exact h1
    have hr : 0 < (max s e - min s e) / 2 := by linarith
    have hle : √(((max s e - min s e) / 2) ^ 2 - (x - (min s e + max s e) / 2) ^ 2) ≤ (max s e - min s e) / 2 := by
      rw [Real.sqrt_le_left hr.le]; nlinarith [sq_nonneg (x - (min s e + max s e) / 2)]
    exact in_mul hh (div_nonneg (Real.sqrt_nonneg _) hr.le) ((div_le_one hr).2 hle)
  · exact in_zero hh

/-- the unit sigmoid lies strictly between 0 and 1 -/
theorem sigmoid_unit (i sl x : ℝ) : 0 < Mu.sigmoid F i sl 1 x ∧ Mu.sigmoid F i sl 1 x < 1 := by
  unfold Mu.sigmoid
  have := Real.exp_pos (-sl * (x - i))
  simp only [Fn.real]
  constructor
  · positivity
  · rw [div_lt_one (by positivity)]; linarith

theorem sigmoid_scale (i sl h x : ℝ) : Mu.sigmoid F i sl h x = h * Mu.sigmoid F i sl 1 x := by
  unfold Mu.sigmoid; ring

theorem sigmoid_range (i sl h x : ℝ) (hh : 0 ≤ h) : In h (Mu.sigmoid F i sl h x) := by
  rw [sigmoid_scale]
  have := sigmoid_unit i sl x
  exact in_mul hh this.1.le this.2.le

theorem sigmoidDifference_range (l r f rt h x : ℝ) (hh : 0 ≤ h) : In h (Mu.sigmoidDifference F l r f rt h x) := by
  unfold Mu.sigmoidDifference
  have h1 := sigmoid_unit l r x
  have h2 := sigmoid_unit rt f x
  exact in_mul hh (abs_nonneg _) (abs_le.2 ⟨by linarith [h1.1, h2.2], by linarith [h1.2, h2.1]⟩)

theorem sigmoidProduct_range (l r f rt h x : ℝ) (hh : 0 ≤ h) : In h (Mu.sigmoidProduct F l r f rt h x) := by
  unfold Mu.sigmoidProduct
  have h1 := sigmoid_unit l r x
  have h2 := sigmoid_unit rt f x
  exact in_mul hh (mul_nonneg h1.1.le h2.1.le) (by nlinarith [h1.1, h1.2, h2.1, h2.2])

theorem spike_range (c w h x : ℝ) (hh : 0 ≤ h) : In h (Mu.spike F c w h x) := by
  unfold Mu.spike
  have := exp_unit (a := -|10 / w * (x - c)|) (by linarith [abs_nonneg (10 / w * (x - c))])
  exact in_mul hh this.1 this.2

end real
end TermRange
