import FlVerif.Lemmas.CodeFllImportLoops

/-! # Tie A for the FuzzyLite Language importer, part 3: `input_variable`, `output_variable`, `rule_block` as
functions of a text, `_process`, and the block cutting loop of `engine` -/

namespace Op.FllIO
open Gen.Code Py.Fll

/-- `FllImporter.input_variable` on the raw lines of the text -/
def importInputText (lines : List String) : Except Err Var :=
  (lines.foldlM (stepText (importVarLine .inputVariable)) {}).map finishVar

/-- `FllImporter.output_variable` on the raw lines of the text -/
def importOutputText (lines : List String) : Except Err OutVar :=
  (lines.foldlM (stepText importOutLine) {}).map (fun o => { o with base := finishVar o.base })

/-- `FllImporter.rule_block` on the raw lines of the text -/
def importBlockText (lines : List String) : Except Err Block := lines.foldlM (stepText importBlockLine) {}

/-- `Agree` with an optional result, case by case -/
theorem agree_some {S β : Type} (proj : S → Option β) (r : Except Err β) (g : Py.M S) :
    Agree proj (r.map some) g →
    match r with
    | .error e => g = .error e.toPy
    | .ok v => ∃ σ, g = .ok σ ∧ proj σ = some v := by
  cases r <;> exact id

/-- `Agree`, case by case -/
theorem agree_cases {S β : Type} (proj : S → β) (r : Except Err β) (g : Py.M S) :
    Agree proj r g →
    match r with
    | .error e => g = .error e.toPy
    | .ok v => ∃ σ, g = .ok σ ∧ proj σ = v := by
  cases r <;> exact id

/-- the value a caller takes from the field `ret` -/
theorem agree_val {S β : Type} (ret : S → Option β) (r : Except Err β) (g : Py.M S) (h : Agree ret (r.map some) g) :
    (g >>= fun σ => Py.deref (ret σ)) = lift r := by
  cases r with
  | error e => simp only [Agree, Except.map] at h; simp only [h, bind, Except.bind, lift]
  | ok v =>
    obtain ⟨σ, e1, e2⟩ := h
    simp only [e1, bind, Except.bind, lift, e2, Py.deref_some]

theorem code_inputVariable_agree (fll : String) :
    Agree (·.ret) ((importInputText (splitLines fll)).map some) (FllImporter_input_variable.run fll {}) := by
  have h := code_ivLoop fll (splitLines fll) { iv := {} } {} rfl
  unfold FllImporter_input_variable.run importInputText
  cases hm : (splitLines fll).foldlM (stepText (importVarLine .inputVariable)) {} with
  | error e =>
    rw [hm] at h
    simp only [Agree] at h
    simp only [h, bind, Except.bind, Except.map, Agree]
  | ok v =>
    rw [hm] at h
    obtain ⟨σ', e, hv⟩ := h
    refine ⟨_, by simp only [e, bind, Except.bind]; rfl, ?_⟩
    simp only [← hv, finishVar]

theorem code_outputVariable_agree (fll : String) :
    Agree (·.ret) ((importOutputText (splitLines fll)).map some) (FllImporter_output_variable.run fll {}) := by
  have h := code_ovLoop fll (splitLines fll) { ov := {} } {} rfl
  unfold FllImporter_output_variable.run importOutputText
  cases hm : (splitLines fll).foldlM (stepText importOutLine) {} with
  | error e =>
    rw [hm] at h
    simp only [Agree] at h
    simp only [h, bind, Except.bind, Except.map, Agree]
  | ok v =>
    rw [hm] at h
    obtain ⟨σ', e, hv⟩ := h
    refine ⟨_, by simp only [e, bind, Except.bind]; rfl, ?_⟩
    simp only [← hv, finishVar]

theorem code_ruleBlock_agree (fll : String) :
    Agree (·.ret) ((importBlockText (splitLines fll)).map some) (FllImporter_rule_block.run fll {}) := by
  have h := code_rbLoop fll (splitLines fll) { rb := {} } {} rfl
  unfold FllImporter_rule_block.run importBlockText
  cases hm : (splitLines fll).foldlM (stepText importBlockLine) {} with
  | error e =>
    rw [hm] at h
    simp only [Agree] at h
    simp only [h, bind, Except.bind, Except.map, Agree]
  | ok v =>
    rw [hm] at h
    obtain ⟨σ', e, hv⟩ := h
    refine ⟨_, by simp only [e, bind, Except.bind]; rfl, ?_⟩
    simp only [← hv]

theorem code_inputVariable (fll : String) :
    (FllImporter_input_variable.run fll {} >>= fun r => Py.deref r.ret) = lift (importInputText (splitLines fll)) :=
  agree_val _ _ _ (code_inputVariable_agree fll)

theorem code_outputVariable (fll : String) :
    (FllImporter_output_variable.run fll {} >>= fun r => Py.deref r.ret) = lift (importOutputText (splitLines fll)) :=
  agree_val _ _ _ (code_outputVariable_agree fll)

theorem code_ruleBlock (fll : String) :
    (FllImporter_rule_block.run fll {} >>= fun r => Py.deref r.ret) = lift (importBlockText (splitLines fll)) :=
  agree_val _ _ _ (code_ruleBlock_agree fll)

/-! ## `_process` -/

/-- a raw line of the `Engine` component: the loop of `_process` has no `if not line: continue`, an empty line is a
    `SyntaxError` of `extract_key_value` -/
def stepTextStrict {β : Type} (f : β → Line → Except Err β) (b : β) (raw : String) : Except Err β :=
  match lexLine raw.toList with
  | .error e => .error e
  | .ok none => .error .syntax
  | .ok (some l) => f b l

/-- `FllImporter._process` on the raw lines of a block (the lines are joined and split again for the three
    component methods) -/
def processText (comp : String) (block : List String) (e : Engine) : Except Err Engine :=
  if comp = "Engine" then block.foldlM (stepTextStrict importEngineLine) e
  else if comp = "InputVariable" then
    (importInputText (splitLines (joinLines block))).map (fun v => { e with inputs := e.inputs ++ [v] })
  else if comp = "OutputVariable" then
    (importOutputText (splitLines (joinLines block))).map (fun v => { e with outputs := e.outputs ++ [v] })
  else if comp = "RuleBlock" then
    (importBlockText (splitLines (joinLines block))).map (fun b => { e with blocks := e.blocks ++ [b] })
  else .ok e

theorem keyValue_empty (c : Option String) : keyValue "" c = .error .syntax := by
  unfold keyValue
  rw [show splitColon (stripComments "") = [""] from by decide]

theorem code_engineLines (component : String) (block : List String) (e0 : Engine) :
    ∀ (lines : List String) (σ : FllImporter__process.S) (v0 : Engine), σ.engine = v0 →
    Agree (·.engine) (lines.foldlM (stepTextStrict importEngineLine) v0) (FllImporter__process.loop1 component block e0 lines σ)
  | [], σ, v0, h0 => ⟨σ, rfl, h0⟩
  | x :: rest, σ, v0, h0 => by
    have ih := code_engineLines component block e0 rest
    subst h0
    rw [List.foldlM_cons]
    rcases lineCase x with ⟨hb, hl⟩ | ⟨hb, hk, hl⟩ | ⟨k, v, hb, hs, hl⟩
    · simp only [FllImporter__process.loop1, stepTextStrict, hl, hb, bind, Except.bind, code_keyValue, keyValue_empty, Except.map]
      rfl
    · simp only [FllImporter__process.loop1, stepTextStrict, hl, bind, Except.bind, code_keyValue, hk, Except.map]
      rfl
    · have hkv := keyValue_pair x k v hs none
      simp only [truthyOptStr, Bool.false_and] at hkv
      simp only [FllImporter__process.loop1, bind, Except.bind,
        code_keyValue, hkv, Except.map, Bool.false_eq_true, if_false, Py.deref_some]
      have hst : ∀ f : Engine → Line → Except Err Engine, stepTextStrict f σ.engine x = stepText f σ.engine x := by
        intro f; unfold stepTextStrict stepText; rw [hl]; split_ifs <;> rfl
      rw [hst]
      by_cases h1 : strip k = "Engine"
      · rw [stepText_plain _ _ x k v .engine hl (by rw [h1]; rfl) (by decide) (by decide), h1, if_pos (beq_self_eq_true _)]
        simp only [importEngineLine, lexValue, textOf_textTok, Except.map]
        exact ih _ _ rfl
      rw [if_neg (by simpa using h1)]
      by_cases h2 : strip k = "description"
      · rw [stepText_plain _ _ x k v .description hl (by rw [h2]; rfl) (by decide) (by decide), h2, if_pos (beq_self_eq_true _)]
        simp only [importEngineLine, lexValue, textOf_textTok, Except.map]
        exact ih _ _ rfl
      rw [if_neg (by simpa using h2)]
      rw [stepText_unknown _ _ x k v hl (fun toks => by
        have e1 := ofText_ne (strip k) .engine h1
        have e2 := ofText_ne (strip k) .description h2
        generalize Key.ofText (strip k) = K at *
        cases K <;> simp_all [importEngineLine]) (fun _ _ => rfl)]
      rfl

theorem code_process (component : String) (block : List String) (e : Engine) :
    Agree (·.engine) (processText component block e) (FllImporter__process.run component block e {}) := by
  unfold FllImporter__process.run processText
  by_cases h1 : component = "Engine"
  · subst h1
    rw [if_pos rfl, if_pos (beq_self_eq_true _)]
    have h := code_engineLines "Engine" block e block { engine := e } e rfl
    cases hm : block.foldlM (stepTextStrict importEngineLine) e with
    | error err => rw [hm] at h; simp only [Agree] at h ⊢; simp only [h, bind, Except.bind]
    | ok v => rw [hm] at h; obtain ⟨σ', e', hv⟩ := h; exact ⟨σ', by simp only [e', bind, Except.bind], hv⟩
  rw [if_neg h1, if_neg (show ¬ ((component == "Engine") = true) by simpa using h1)]
  by_cases h2 : component = "InputVariable"
  · subst h2
    rw [if_pos rfl, if_pos (beq_self_eq_true _), code_inputVariable]
    cases importInputText (splitLines (joinLines block)) with
    | error err => rfl
    | ok v => exact ⟨_, rfl, rfl⟩
  rw [if_neg h2, if_neg (show ¬ ((component == "InputVariable") = true) by simpa using h2)]
  by_cases h3 : component = "OutputVariable"
  · subst h3
    rw [if_pos rfl, if_pos (beq_self_eq_true _), code_outputVariable]
    cases importOutputText (splitLines (joinLines block)) with
    | error err => rfl
    | ok v => exact ⟨_, rfl, rfl⟩
  rw [if_neg h3, if_neg (show ¬ ((component == "OutputVariable") = true) by simpa using h3)]
  by_cases h4 : component = "RuleBlock"
  · subst h4
    rw [if_pos rfl, if_pos (beq_self_eq_true _), code_ruleBlock]
    cases importBlockText (splitLines (joinLines block)) with
    | error err => rfl
    | ok v => exact ⟨_, rfl, rfl⟩
  rw [if_neg h4, if_neg (show ¬ ((component == "RuleBlock") = true) by simpa using h4)]
  exact ⟨_, rfl, rfl⟩

/-! ## lines: `split("\n")` and `"\n".join` -/

def NlFree (l : List Char) : Prop := '\n' ∉ l

theorem splitNl_ne_nil : ∀ l, splitNl l ≠ []
  | [] => by simp [splitNl]
  | c :: r => by
    unfold splitNl
    split_ifs
    · simp
    · cases h : splitNl r <;> simp

theorem splitNl_nlfree : ∀ (l : List Char) (w : List Char), w ∈ splitNl l → NlFree w
  | [], w, h => by
    simp only [splitNl, List.mem_singleton] at h; subst h; simp [NlFree]
  | c :: r, w, h => by
    unfold splitNl at h
    split_ifs at h with hc
    · simp only [List.mem_cons] at h
      rcases h with rfl | h
      · simp [NlFree]
      · exact splitNl_nlfree r w h
    · cases hr : splitNl r with
      | nil => exact absurd hr (splitNl_ne_nil r)
      | cons a t =>
        rw [hr] at h
        simp only [List.mem_cons] at h
        rcases h with rfl | h
        · have := splitNl_nlfree r a (by simp [hr])
          simp only [NlFree, List.mem_cons, not_or] at this ⊢
          exact ⟨fun e => hc e.symm, this⟩
        · exact splitNl_nlfree r w (by simp [hr, h])

theorem splitNl_append : ∀ (a rest : List Char), NlFree a → splitNl (a ++ '\n' :: rest) = a :: splitNl rest
  | [], rest, _ => by simp [splitNl]
  | c :: a, rest, h => by
    simp only [NlFree, List.mem_cons, not_or] at h
    have ih := splitNl_append a rest h.2
    simp only [List.cons_append, splitNl, ih]
    rw [if_neg (fun e => h.1 e.symm)]

theorem splitNl_of_nlfree : ∀ (a : List Char), NlFree a → splitNl a = [a]
  | [], _ => rfl
  | c :: a, h => by
    simp only [NlFree, List.mem_cons, not_or] at h
    simp only [splitNl, splitNl_of_nlfree a h.2]
    rw [if_neg (fun e => h.1 e.symm)]

theorem splitNl_joinNl : ∀ (ls : List (List Char)), ls ≠ [] → (∀ l ∈ ls, NlFree l) → splitNl (joinNl ls) = ls
  | [], h, _ => absurd rfl h
  | [a], _, h => by simp only [joinNl]; exact splitNl_of_nlfree a (h a (by simp))
  | a :: b :: r, _, h => by
    simp only [joinNl]
    rw [splitNl_append a _ (h a (by simp)), splitNl_joinNl (b :: r) (by simp) (fun l hl => h l (by simp [hl]))]

theorem splitLines_joinLines (strs : List String) (hne : strs ≠ []) (h : ∀ s ∈ strs, NlFree s.toList) :
    splitLines (joinLines strs) = strs := by
  unfold splitLines joinLines
  rw [String.toList_ofList, splitNl_joinNl _ (by simpa using hne) (by simpa using h)]
  simp [String.ofList_toList]

theorem nlfree_stripComments (x : String) (h : NlFree x.toList) : NlFree (stripComments x).toList := by
  rw [stripComments_toList]
  intro hm
  exact h ((List.takeWhile_sublist _).mem (mem_of_mem_trimChars hm))

theorem lexLine_congr (s t : List Char) (h : lineBody s = lineBody t) : lexLine s = lexLine t := by
  have h' : trimChars (s.takeWhile (· ≠ '#')) = trimChars (t.takeWhile (· ≠ '#')) := h
  simp only [lexLine, h']

theorem lexLine_stripComments (x : String) : lexLine (stripComments x).toList = lexLine x.toList :=
  lexLine_congr _ _ (by rw [stripComments_toList, lineBody_idem])

/-! ## the block cutting loop of `engine` -/

/-- a stripped line kept in the block of the code and the token line kept in the block of the model -/
def LineOK (s : String) (l : Line) : Prop := lexLine s.toList = .ok (some l) ∧ NlFree s.toList

theorem foldlM_stepText {β : Type} (f : β → Line → Except Err β) : ∀ (strs : List String) (lines : List Line),
    List.Forall₂ LineOK strs lines → ∀ b, strs.foldlM (stepText f) b = lines.foldlM f b
  | _, _, .nil, b => rfl
  | _, _, .cons (a := s) (b := l) (l₁ := ss) (l₂ := ls) h t, b => by
    simp only [List.foldlM_cons, stepText, h.1]
    cases f b l with
    | error e => rfl
    | ok b' => exact foldlM_stepText f ss ls t b'

theorem foldlM_stepTextStrict {β : Type} (f : β → Line → Except Err β) : ∀ (strs : List String) (lines : List Line),
    List.Forall₂ LineOK strs lines → ∀ b, strs.foldlM (stepTextStrict f) b = lines.foldlM f b
  | _, _, .nil, b => rfl
  | _, _, .cons (a := s) (b := l) (l₁ := ss) (l₂ := ls) h t, b => by
    simp only [List.foldlM_cons, stepTextStrict, h.1]
    cases f b l with
    | error e => rfl
    | ok b' => exact foldlM_stepTextStrict f ss ls t b'

theorem forall₂_nlfree : ∀ (strs : List String) (lines : List Line), List.Forall₂ LineOK strs lines →
    ∀ s ∈ strs, NlFree s.toList
  | _, _, .nil, s, h => by simp at h
  | _, _, .cons (a := a) (l₁ := ss) (l₂ := ls) h t, s, hs => by
    simp only [List.mem_cons] at hs
    rcases hs with rfl | hs
    · exact h.2
    · exact forall₂_nlfree ss ls t s hs

/-- `_process` on the block of the code is `processBlock` on the block of the model -/
theorem processText_eq (K : Key) (hK : isHeader K = true) (strs : List String) (lines : List Line)
    (h : List.Forall₂ LineOK strs lines) (hne : strs ≠ []) (e : Engine) :
    processText K.text strs e = processBlock K lines e := by
  have rt := splitLines_joinLines strs hne (forall₂_nlfree strs lines h)
  cases K <;> simp only [isHeader, Bool.false_eq_true] at hK
  · simp only [processText, Key.text, if_true, processBlock, foldlM_stepTextStrict _ strs lines h]
  · simp only [processText, Key.text, String.reduceEq, if_false, if_true, processBlock, rt, importInputText, importInput,
      foldlM_stepText _ strs lines h]
  · simp only [processText, Key.text, String.reduceEq, if_false, if_true, processBlock, rt, importOutputText, importOutput,
      foldlM_stepText _ strs lines h]
  · simp only [processText, Key.text, String.reduceEq, if_false, if_true, processBlock, rt, importBlockText, importBlock,
      foldlM_stepText _ strs lines h]

theorem isHeader_ofText (s : String) :
    isHeader (Key.ofText s) = (["Engine", "InputVariable", "OutputVariable", "RuleBlock"]).contains s := by
  have ht := text_ofText s
  by_cases h : (["Engine", "InputVariable", "OutputVariable", "RuleBlock"]).contains s = true
  · rw [h]
    simp only [List.contains_iff_mem, List.mem_cons, List.not_mem_nil, or_false] at h
    rcases h with rfl | rfl | rfl | rfl <;> rfl
  · have h' := h
    simp only [List.contains_iff_mem, List.mem_cons, List.not_mem_nil, or_false, not_or] at h
    rw [Bool.not_eq_true] at h'
    rw [h']
    generalize Key.ofText s = K at ht
    cases K <;> simp_all [Key.text, isHeader]

/-- what the loop of `engine` needs to know of a line with a colon -/
theorem pair_line (x k v : String)
    (hl : lexLine x.toList =
        if (Key.ofText (strip k) = .term ∨ Key.ofText (strip k) = .rule) ∧ k ≠ strip k
        then .ok (some ⟨.other k, textTok (strip v).toList⟩)
        else .ok (some ⟨Key.ofText (strip k), lexValue (Key.ofText (strip k)) (strip v).toList⟩)) :
    ∃ l, lexLine x.toList = .ok (some l) ∧
      isHeader l.key = (["Engine", "InputVariable", "OutputVariable", "RuleBlock"]).contains (strip k) ∧
      (isHeader l.key = true → l.key.text = strip k) := by
  by_cases hs : (Key.ofText (strip k) = .term ∨ Key.ofText (strip k) = .rule) ∧ k ≠ strip k
  · rw [if_pos hs] at hl
    refine ⟨_, hl, ?_, fun h => by simp [isHeader] at h⟩
    rw [← isHeader_ofText]
    rcases hs.1 with h | h <;> rw [h] <;> rfl
  · rw [if_neg hs] at hl
    exact ⟨_, hl, isHeader_ofText _, fun _ => text_ofText _⟩

theorem header_text_ne (K : Key) (h : isHeader K = true) : K.text ≠ "" := by
  cases K <;> simp [isHeader] at h <;> decide

/-- the state of the loop of the code and the state of the loop of the model -/
def EngInv (σ : FllImporter_engine.S) (comp : Option Key) (lines : List Line) : Prop :=
  (match comp with
   | none => σ.component = ""
   | some K => isHeader K = true ∧ σ.component = K.text ∧ σ.block ≠ []) ∧ List.Forall₂ LineOK σ.block lines

/-- the statements of `engine` after the loop -/
def engineFin (σ : FllImporter_engine.S) : Py.M FllImporter_engine.S :=
  let k2 : FllImporter_engine.S → Py.M FllImporter_engine.S := fun σ =>
    Except.ok { σ with ret := (some σ.engine) }
  if ((σ.component != "") && (!(σ.block).isEmpty)) then
    (FllImporter__process.run σ.component σ.block σ.engine {} >>= fun r => .ok { σ with engine := r.engine }) >>= fun σ =>
    k2 σ
  else
    k2 σ

/-- `_process` in the state of the loop -/
theorem process_step (σ : FllImporter_engine.S) (K : Key) (lines : List Line) (hK : isHeader K = true)
    (hc : σ.component = K.text) (hne : σ.block ≠ []) (hb : List.Forall₂ LineOK σ.block lines) :
    (FllImporter__process.run σ.component σ.block σ.engine {} >>= fun r => Except.ok { σ with engine := r.engine }) =
      (lift (processBlock K lines σ.engine)).map (fun e => { σ with engine := e }) := by
  have h := code_process σ.component σ.block σ.engine
  rw [hc, processText_eq K hK σ.block lines hb hne] at h
  rw [hc]
  cases hm : processBlock K lines σ.engine with
  | error err => rw [hm] at h; simp only [Agree] at h; simp only [h, bind, Except.bind, lift, Except.map]
  | ok e' =>
    rw [hm] at h
    obtain ⟨σ', e1, e2⟩ := h
    simp only [e1, bind, Except.bind, lift, Except.map, e2]

theorem code_engineLoop (fll : String) : ∀ (raws : List String) (σ : FllImporter_engine.S) (comp : Option Key)
    (lines : List Line) (e0 : Engine), σ.engine = e0 → EngInv σ comp lines → (∀ r ∈ raws, NlFree r.toList) →
    Agree (·.ret) ((engineLoopText raws comp lines e0).map some) (FllImporter_engine.loop1 fll raws σ >>= engineFin)
  | [], σ, comp, lines, e0, he, hinv, _ => by
    subst he
    simp only [FllImporter_engine.loop1, engineLoopText, engineLoop, bind, Except.bind, engineFin]
    cases comp with
    | none =>
      have hc : σ.component = "" := hinv.1
      simp only [hc, bne_self_eq_false, Bool.false_and, Bool.false_eq_true, if_false, Except.map]
      exact ⟨_, rfl, rfl⟩
    | some K =>
      obtain ⟨⟨hK, hc, hne⟩, hb⟩ := hinv
      have hl : lines ≠ [] := by
        intro e; subst e
        have := hb.length_eq
        simp only [List.length_nil, List.length_eq_zero_iff] at this
        exact hne this
      have hcond : ((σ.component != "") && (!(σ.block).isEmpty)) = true := by
        have := header_text_ne K hK
        simp [hc, this, hne]
      have hp := process_step σ K lines hK hc hne hb
      simp only [bind, Except.bind] at hp
      simp only [hcond, if_true, hl, if_false, hp]
      cases processBlock K lines σ.engine with
      | error err => rfl
      | ok e' => exact ⟨_, rfl, rfl⟩
  | x :: rest, σ, comp, lines, e0, he, hinv, hnl => by
    subst he
    have ih := code_engineLoop fll rest
    have hnl' : ∀ r ∈ rest, NlFree r.toList := fun r hr => hnl r (by simp [hr])
    have hx : NlFree x.toList := hnl x (by simp)
    rcases lineCase x with ⟨hb, hl⟩ | ⟨hb, hk, hl⟩ | ⟨k, v, hb, hs, hl⟩
    · simp only [FllImporter_engine.loop1, engineLoopText, hl, hb, bind, Except.bind]
      exact ih { σ with line := "" } comp lines _ rfl hinv hnl'
    · have hb' : (stripComments x != "") = true := by simpa using hb
      simp only [FllImporter_engine.loop1, engineLoopText, hl, hb', bind, Except.bind,
        code_keyValue, hk, Except.map, Bool.not_true, Bool.false_eq_true, if_false]
      rfl
    · have hkv := keyValue_pair x k v hs none
      simp only [truthyOptStr, Bool.false_and] at hkv
      have hb' : (stripComments x != "") = true := by simpa using hb
      obtain ⟨l, hl', hh, ht⟩ := pair_line x k v hl
      have hok : LineOK (stripComments x) l := ⟨by rw [lexLine_stripComments, hl'], nlfree_stripComments x hx⟩
      simp only [FllImporter_engine.loop1, engineLoopText, hl', hb', bind, Except.bind,
        code_keyValue, hkv, Except.map, Bool.not_true, Bool.false_eq_true, if_false, Py.deref_some]
      by_cases hd : isHeader l.key = true
      · rw [if_pos hd, if_pos (by rw [← hh]; exact hd)]
        have hinv' : ∀ (e : Engine) (ln ky : String) (rt : Option Engine),
            EngInv ⟨e, strip k, [stripComments x], ln, ky, rt⟩ (some l.key) [l] :=
          fun _ _ _ _ => ⟨⟨hd, (ht hd).symm, by simp⟩, .cons hok .nil⟩
        cases comp with
        | none =>
          have hc : σ.component = "" := hinv.1
          simp only [hc, bne_self_eq_false, Bool.false_eq_true, if_false]
          exact ih { σ with line := stripComments x, key := strip k, component := strip k, block := [stripComments x] }
            (some l.key) [l] _ rfl (hinv' _ _ _ _) hnl'
        | some K =>
          obtain ⟨⟨hK, hc, hne⟩, hbl⟩ := hinv
          have hcond : (σ.component != "") = true := by
            have := header_text_ne K hK
            simp [hc, this]
          have hp := process_step { σ with line := stripComments x, key := strip k } K lines hK hc hne hbl
          simp only [bind, Except.bind] at hp
          simp only [hcond, if_true, hp]
          cases processBlock K lines σ.engine with
          | error err => rfl
          | ok e' =>
            exact ih { σ with engine := e', line := stripComments x, key := strip k, component := strip k, block := [stripComments x] }
              (some l.key) [l] _ rfl (hinv' _ _ _ _) hnl'
      · rw [if_neg hd, if_neg (by rw [← hh]; exact hd)]
        refine ih { σ with line := stripComments x, key := strip k, block := σ.block ++ [stripComments x] } comp (lines ++ [l]) _ rfl
          ⟨?_, ?_⟩ hnl'
        · cases comp with
          | none => exact hinv.1
          | some K => exact ⟨hinv.1.1, hinv.1.2.1, by simp⟩
        · exact List.rel_append hinv.2 (.cons hok .nil)

theorem splitLines_nlfree (fll : String) : ∀ r ∈ splitLines fll, NlFree r.toList := by
  intro r hr
  simp only [splitLines, List.mem_map] at hr
  obtain ⟨w, hw, rfl⟩ := hr
  rw [String.toList_ofList]
  exact splitNl_nlfree _ w hw

/-- **`FllImporter.engine`**: the translated code is the text-level loop of the model -/
theorem code_engine (fll : String) :
    Agree (·.ret) ((importTextLazy fll).map some) (FllImporter_engine.run fll {}) :=
  code_engineLoop fll (splitLines fll) { engine := {}, component := "", block := [] } none [] {} rfl
    ⟨rfl, .nil⟩ (splitLines_nlfree fll)

/-- the lexer of `lexText` on a list of raw lines -/
def lexLines (ws : List (List Char)) : Except Err (List Line) :=
  ws.foldr (fun raw acc => do
      let rest ← acc
      match ← lexLine raw with
      | none => pure rest
      | some l => pure (l :: rest)) (.ok [])

theorem lexText_eq (s : String) : lexText s = lexLines (splitNl s.toList) := rfl

/-- when every line lexes, reading the lines one by one is reading the token lines -/
theorem engineLoopText_lexed : ∀ (ws : List (List Char)) (ls : List Line), lexLines ws = .ok ls →
    ∀ comp block e, engineLoopText (ws.map String.ofList) comp block e = engineLoop ls comp block e
  | [], ls, h, comp, block, e => by
    simp only [lexLines, List.foldr_nil, Except.ok.injEq] at h
    subst h; rfl
  | w :: ws, ls, h, comp, block, e => by
    have hstep : lexLines (w :: ws) = (do
        let rest ← lexLines ws
        match ← lexLine w with
        | none => pure rest
        | some l => pure (l :: rest)) := rfl
    rw [hstep] at h
    cases hr : lexLines ws with
    | error err => rw [hr] at h; simp [bind, Except.bind] at h
    | ok rest =>
      have ih := engineLoopText_lexed ws rest hr
      rw [hr] at h
      cases hw : lexLine w with
      | error err => rw [hw] at h; simp [bind, Except.bind] at h
      | ok o =>
        rw [hw] at h
        simp only [List.map_cons, engineLoopText, String.toList_ofList, hw]
        cases o with
        | none =>
          simp only [bind, Except.bind, pure, Except.pure, Except.ok.injEq] at h
          subst h
          exact ih comp block e
        | some l =>
          simp only [bind, Except.bind, pure, Except.pure, Except.ok.injEq] at h
          subst h
          simp only [engineLoop]
          split_ifs
          · cases comp with
            | none => exact ih _ _ _
            | some K =>
              simp only [bind, Except.bind]
              cases processBlock K block e with
              | error err => rfl
              | ok e' => exact ih _ _ _
          · exact ih _ _ _

/-- the model of the driver (`lexText`, then `fllImport`) is the text-level loop whenever the text lexes -/
theorem importTextLazy_lexed (fll : String) (ls : List Line) (h : lexText fll = .ok ls) :
    importTextLazy fll = fllImport ls :=
  engineLoopText_lexed (splitNl fll.toList) ls h none [] {}

end Op.FllIO

namespace Op.FllIO
open Gen.Code Py.Fll

/-- when every line lexes, the text-level reading of a component is the reading of its token lines -/
theorem foldlM_stepText_lexed {β : Type} (f : β → Line → Except Err β) : ∀ (ws : List (List Char)) (ls : List Line),
    lexLines ws = .ok ls → ∀ b, (ws.map String.ofList).foldlM (stepText f) b = ls.foldlM f b
  | [], ls, h, b => by
    simp only [lexLines, List.foldr_nil, Except.ok.injEq] at h
    subst h; rfl
  | w :: ws, ls, h, b => by
    have hstep : lexLines (w :: ws) = (do
        let rest ← lexLines ws
        match ← lexLine w with
        | none => pure rest
        | some l => pure (l :: rest)) := rfl
    rw [hstep] at h
    cases hr : lexLines ws with
    | error err => rw [hr] at h; simp [bind, Except.bind] at h
    | ok rest =>
      have ih := foldlM_stepText_lexed f ws rest hr
      rw [hr] at h
      cases hw : lexLine w with
      | error err => rw [hw] at h; simp [bind, Except.bind] at h
      | ok o =>
        rw [hw] at h
        simp only [List.map_cons, List.foldlM_cons, stepText, String.toList_ofList, hw]
        cases o with
        | none =>
          simp only [bind, Except.bind, pure, Except.pure, Except.ok.injEq] at h
          subst h
          exact ih b
        | some l =>
          simp only [bind, Except.bind, pure, Except.pure, Except.ok.injEq] at h
          subst h
          simp only [List.foldlM_cons, bind, Except.bind]
          cases f b l with
          | error err => rfl
          | ok b' => exact ih b'

/-- a text with a line that does not lex is rejected by the text-level loop -/
theorem engineLoopText_unlexed : ∀ (ws : List (List Char)) (e : Err), lexLines ws = .error e →
    ∀ comp block eng, ∃ e', engineLoopText (ws.map String.ofList) comp block eng = .error e'
  | [], e, h, _, _, _ => by simp [lexLines] at h
  | w :: ws, e, h, comp, block, eng => by
    have hstep : lexLines (w :: ws) = (do
        let rest ← lexLines ws
        match ← lexLine w with
        | none => pure rest
        | some l => pure (l :: rest)) := rfl
    rw [hstep] at h
    simp only [List.map_cons, engineLoopText, String.toList_ofList]
    cases hw : lexLine w with
    | error err => exact ⟨_, rfl⟩
    | ok o =>
      cases hr : lexLines ws with
      | ok rest => rw [hr, hw] at h; cases o <;> simp [bind, Except.bind, pure, Except.pure] at h
      | error err =>
        have ih := engineLoopText_unlexed ws err hr
        cases o with
        | none => exact ih _ _ _
        | some l =>
          simp only
          split_ifs
          · cases comp with
            | none => exact ih _ _ _
            | some K =>
              simp only [bind, Except.bind]
              cases processBlock K block eng with
              | error err' => exact ⟨_, rfl⟩
              | ok e' => exact ih _ _ _
          · exact ih _ _ _

end Op.FllIO
