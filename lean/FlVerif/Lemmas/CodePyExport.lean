import FlVerif.Gen.CodePyExport

/-! # Tie A for the Python representation: `Representation.package_of`, `import_statement`, `as_constructor`,
`repr` / `repr1` (the dispatch on the type name), `repr_float`, `repr_ndarray` (library.py), `Rule.__repr__` (rule.py)
and `PythonExporter.encapsulate / to_string / engine` (exporter.py): the definitions translated from the current
source equal the models of `Op/PyRepr.lean` / `Op/PyExport.lean` -/

namespace Op.PyRepr
open Gen.Code

/-! ## `import_statement`, `package_of` -/

theorem code_importStatement (al : String) :
    import_statement.run al {} = .ok { ret := some (importStatement al) } := by
  unfold import_statement.run importStatement
  by_cases h1 : al = ""
  · simp [h1]
  · by_cases h2 : al = "*"
    · simp [h2]
    · simp [h1, h2]

theorem code_packageOf (al : String) (modname : Option String) :
    ∃ σ, package_of.run al modname {} = .ok σ ∧ σ.ret = some (packageOfOpt al modname) := by
  cases modname with
  | none => exact ⟨_, rfl, rfl⟩
  | some m =>
    unfold package_of.run packageOfOpt packageOf
    simp only [Option.isSome_some, if_true, Py.deref_some, bind, Except.bind, Py.PyExport.strFrom, strFrom]
    generalize String.startsWith m "fuzzylite.examples." = ex
    generalize String.startsWith m "fuzzylite." = fz
    by_cases h1 : al = ""
    · subst h1
      cases ex <;>
        simp only [bne_self_eq_false, Bool.not_false, if_true, Bool.and_false, Bool.false_eq_true, if_false] <;>
        split <;> exact ⟨_, rfl, rfl⟩
    · have h1' : (al != "") = true := by simpa using h1
      by_cases h2 : al = "*"
      · subst h2
        cases ex <;>
          simp only [h1', Bool.not_true, Bool.false_eq_true, if_false, beq_self_eq_true, if_true, h1, Bool.and_true] <;>
          split <;> exact ⟨_, rfl, rfl⟩
      · have h2' : (al == "*") = false := by simpa using h2
        cases ex <;> cases fz <;>
          simp only [h1', h2', Bool.not_true, Bool.false_eq_true, if_false, if_true, h1, h2, Bool.and_true] <;>
          split <;> exact ⟨_, rfl, rfl⟩

/-! ## `as_constructor`, `repr`, `repr1` -/

theorem code_asConstructor (noInit : Bool) (sig : List Param) (fields : String → Option String) (positional : Bool)
    (al : String) (modname : Option String) (cls : String) :
    match emit fields positional (if noInit then [] else notSelf sig) with
    | none => as_constructor.run noInit sig fields positional al modname cls {} = .error .value
    | some args => as_constructor.run noInit sig fields positional al modname cls {} =
        .ok { arguments := args.map argText,
              ret := some (packageOfOpt al modname ++ cls ++ "(" ++ ", ".intercalate (args.map argText) ++ ")") } := by
  unfold as_constructor.run Py.PyExport.constructionArguments
  cases emit fields positional (if noInit then [] else notSelf sig) <;> rfl

theorem code_repr (rec1 : Val → Int → Py.M String) (x : Val) :
    Representation_repr.run rec1 x {} = (rec1 x 10 >>= fun s => .ok { ret := some s }) := by
  unfold Representation_repr.run
  cases rec1 x 10 <;> rfl

/-- the attributes `repr_<typename>` of `Representation` and the functions they are bound to (as regenerated into
    `Gen.Code.Representation_repr1`) -/
def reprMethods : List (String × String) :=
  [("repr_array", "Repr.repr_array"), ("repr_deque", "Repr.repr_deque"), ("repr_dict", "Repr.repr_dict"),
   ("repr_float", "Representation.repr_float"), ("repr_float128", "Representation.repr_float"),
   ("repr_float16", "Representation.repr_float"), ("repr_float32", "Representation.repr_float"),
   ("repr_float64", "Representation.repr_float"), ("repr_frozenset", "Repr.repr_frozenset"),
   ("repr_instance", "Repr.repr_instance"), ("repr_int", "Repr.repr_int"), ("repr_list", "Repr.repr_list"),
   ("repr_ndarray", "Representation.repr_ndarray"), ("repr_set", "Repr.repr_set"), ("repr_str", "Repr.repr_str"),
   ("repr_tuple", "Repr.repr_tuple")]

/-- a type name that is handled by `repr_instance`: no blank in it, no attribute `repr_<name>` -/
def PlainClass (t : String) : Prop :=
  Py.PyExport.hasSpace t = false ∧ Py.PyExport.hasMethod reprMethods ("repr_" ++ t) = false

def floatTypes : List String := ["float", "float16", "float32", "float64", "float128"]

/-- `tn` gives type names as CPython / NumPy do: `type(x).__name__` -/
def TypeName (tn : Val → String) (v : Val) : Prop :=
  match v with
  | .atom (.num _) => tn v ∈ floatTypes
  | .atom (.int _) => tn v = "int"
  | .atom (.str _) => tn v = "str"
  | .node .list _ => tn v = "list"
  | .node .array _ => tn v = "ndarray"
  | .node (.dict _) _ => tn v = "dict"
  | _ => PlainClass (tn v)

/-- the function that `repr1` resolves for a value, by qualified name -/
def methodOf : Val → String
  | .atom (.num _) => "Representation.repr_float"
  | .atom (.int _) => "Repr.repr_int"
  | .atom (.str _) => "Repr.repr_str"
  | .node .list _ => "Repr.repr_list"
  | .node .array _ => "Representation.repr_ndarray"
  | .node (.dict _) _ => "Repr.repr_dict"
  | _ => "Repr.repr_instance"

theorem repr1_named (C : String → Val → Int → Py.M String) (tn : Val → String) (x : Val) (level : Int) (t q : String)
    (ht : tn x = t) (hs : Py.PyExport.hasSpace t = false) (hq : reprMethods.lookup ("repr_" ++ t) = some q) :
    Representation_repr1.run C tn x level {} = (C q x level >>= fun s => .ok { typename := t, ret := some s }) := by
  unfold Representation_repr1.run
  simp only [ht, hs, Bool.false_eq_true, if_false]
  change (if Py.PyExport.hasMethod reprMethods ("repr_" ++ t) = true then _ else _) = _
  simp only [Py.PyExport.hasMethod, hq, Option.isSome_some, if_true]
  change ((Py.PyExport.callMethod reprMethods C ("repr_" ++ t) x level >>= _) >>= _) = _
  simp only [Py.PyExport.callMethod, hq]
  cases C q x level <;> rfl

theorem repr1_plain (C : String → Val → Int → Py.M String) (tn : Val → String) (x : Val) (level : Int)
    (h : PlainClass (tn x)) :
    Representation_repr1.run C tn x level {} =
      (C "Repr.repr_instance" x level >>= fun s => .ok { typename := tn x, ret := some s }) := by
  unfold Representation_repr1.run
  simp only [h.1, Bool.false_eq_true, if_false]
  change (if Py.PyExport.hasMethod reprMethods ("repr_" ++ tn x) = true then _ else _) = _
  simp only [h.2, Bool.false_eq_true, if_false]
  change ((Py.PyExport.callMethod reprMethods C "repr_instance" x level >>= _) >>= _) = _
  have : reprMethods.lookup "repr_instance" = some "Repr.repr_instance" := by decide
  simp only [Py.PyExport.callMethod, this]
  cases C "Repr.repr_instance" x level <;> rfl

theorem repr1_named' (C : String → Val → Int → Py.M String) (tn : Val → String) (x : Val) (level : Int) (t q : String)
    (ht : tn x = t) (hs : Py.PyExport.hasSpace t = false) (hq : reprMethods.lookup ("repr_" ++ t) = some q) (hm : methodOf x = q) :
    Representation_repr1.run C tn x level {} = (C (methodOf x) x level >>= fun s => .ok { typename := tn x, ret := some s }) := by
  rw [repr1_named C tn x level t q ht hs hq, hm, ht]

theorem repr1_plain' (C : String → Val → Int → Py.M String) (tn : Val → String) (x : Val) (level : Int)
    (hp : PlainClass (tn x)) (hm : methodOf x = "Repr.repr_instance") :
    Representation_repr1.run C tn x level {} = (C (methodOf x) x level >>= fun s => .ok { typename := tn x, ret := some s }) := by
  rw [repr1_plain C tn x level hp, hm]

theorem code_repr1 (C : String → Val → Int → Py.M String) (tn : Val → String) (x : Val) (level : Int)
    (h : TypeName tn x) :
    Representation_repr1.run C tn x level {} = (C (methodOf x) x level >>= fun s => .ok { typename := tn x, ret := some s }) := by
  match x, h with
  | .atom (.num _), h =>
    simp only [TypeName, floatTypes, List.mem_cons, List.not_mem_nil, or_false] at h
    rcases h with h | h | h | h | h <;> exact repr1_named' C tn _ level _ "Representation.repr_float" h (by decide) (by decide) rfl
  | .atom (.int _), h => exact repr1_named' C tn _ level _ "Repr.repr_int" h (by decide) (by decide) rfl
  | .atom (.str _), h => exact repr1_named' C tn _ level _ "Repr.repr_str" h (by decide) (by decide) rfl
  | .node .list _, h => exact repr1_named' C tn _ level _ "Repr.repr_list" h (by decide) (by decide) rfl
  | .node .array _, h => exact repr1_named' C tn _ level _ "Representation.repr_ndarray" h (by decide) (by decide) rfl
  | .node (.dict _) _, h => exact repr1_named' C tn _ level _ "Repr.repr_dict" h (by decide) (by decide) rfl
  | .atom (.bool _), h => exact repr1_plain' C tn _ level h rfl
  | .atom .none, h => exact repr1_plain' C tn _ level h rfl
  | .atom (.enum _), h => exact repr1_plain' C tn _ level h rfl
  | .atom (.rule _), h => exact repr1_plain' C tn _ level h rfl
  | .atom (.other _), h => exact repr1_plain' C tn _ level h rfl
  | .node (.obj _ _) _, h => exact repr1_plain' C tn _ level h rfl

/-! ## `repr_float`, `repr_ndarray`, `Rule.__repr__`, `PythonExporter` -/

theorem code_reprFloat (env : Env) (L : Leaf) (x : Num) (level : Int) :
    ∃ σ, repr_float.run env L x level {} = .ok σ ∧ σ.ret = some (reprText L env (.atom (.num x))) := by
  unfold repr_float.run reprText
  cases x <;>
    simp [asConstructor, litSrc, renderAtom, render, Py.PyExport.numIsInf, Py.PyExport.numIsNan, Py.PyExport.numPos,
      Py.PyExport.numAbs, L.num_inf, L.num_nan]

theorem renderList_asConstructorList (L : Leaf) (env : Env) :
    ∀ kids : List Val, renderList L (asConstructorList env kids) = kids.map (reprText L env)
  | [] => by simp [asConstructorList, renderList]
  | v :: vs => by simp [asConstructorList, renderList, reprText, renderList_asConstructorList L env vs]

theorem mapM_ok {α β : Type} (f : α → Py.M β) (g : α → β) :
    ∀ l : List α, (∀ y ∈ l, f y = .ok (g y)) → List.mapM f l = .ok (l.map g)
  | [], _ => rfl
  | y :: ys, h => by
    rw [List.mapM_cons, h y (by simp), mapM_ok f g ys (fun z hz => h z (by simp [hz]))]
    rfl

/-- an array of at least one dimension: the rows through `repr1`, joined, inside `array([…])` with the prefix of the
    `settings` object -/
theorem code_reprNdarray (env : Env) (L : Leaf) (rec1 : Val → Int → Py.M String) (item : Val) (kids : List Val) (level : Int)
    (hrec : ∀ y ∈ kids, rec1 y level = .ok (reprText L env y)) :
    ∃ σ, repr_ndarray.run env rec1 false item (.node .array kids) level {} = .ok σ ∧
      σ.ret = some (reprText L env (.node .array kids)) := by
  unfold repr_ndarray.run
  simp only [Bool.false_eq_true, if_false, Py.PyExport.kids, mapM_ok _ _ kids hrec, bind, Except.bind]
  refine ⟨_, rfl, ?_⟩
  simp [reprText, asConstructor, render, renderList_asConstructorList]

/-- a zero-dimensional array is represented as its only item -/
theorem code_reprNdarray0 (env : Env) (rec1 : Val → Int → Py.M String) (item x : Val) (level : Int) :
    repr_ndarray.run env rec1 true item x level {} = (rec1 item level >>= fun s => .ok { ret := some s }) := by
  unfold repr_ndarray.run
  cases rec1 item level <;> rfl

theorem code_reprRule (env : Env) (L : Leaf) (toks : List Op.FllIO.Tok) :
    Rule_repr.run env (L.rule toks) {} = .ok { ret := some (renderAtom L (.rule (classPrefix env "Rule") toks)) } := rfl

theorem code_encapsulate (al : String) (isEngine : Bool) (ident qual text : String) :
    ∃ σ, PythonExporter_encapsulate.run al isEngine ident qual text {} = .ok σ ∧
      σ.ret = some (encapsulate al isEngine ident qual text) := by
  unfold PythonExporter_encapsulate.run encapsulate
  cases isEngine <;> exact ⟨_, rfl, rfl⟩

theorem code_toString (encapsulated formatted : Bool) (fmt : String → Py.M String) (wrapped text : String) :
    PythonExporter_to_string.run encapsulated formatted fmt wrapped text {} =
      (exportText encapsulated formatted fmt wrapped text >>= fun s => .ok { code := s, ret := some s }) := by
  unfold PythonExporter_to_string.run exportText
  cases formatted
  · rfl
  · show (fmt (if encapsulated = true then wrapped else text) >>= _) = (fmt (if encapsulated = true then wrapped else text) >>= _)
    cases fmt (if encapsulated = true then wrapped else text) <;> rfl

theorem code_engine (toString : Py.M String) :
    PythonExporter_engine.run toString {} = (toString >>= fun s => .ok { ret := some s }) := by
  unfold PythonExporter_engine.run
  cases toString <;> rfl

/-! ## the regenerated tables satisfy the side conditions -/

/-- a module name for which `package_of` has its plain form: not empty, no trailing dot, not below `fuzzylite.examples` -/
def ModuleOK (m : String) : Bool := m != "" && !m.endsWith "." && !m.startsWith "fuzzylite.examples."

/-- for such a module: the module path for the alias `''`, nothing for `'*'`, the alias (with one dot) for a module
    of the library, the module path otherwise -/
theorem packageOf_plain (al m : String) (h : ModuleOK m = true) :
    packageOf al m =
      if al = "" then m ++ "." else if al = "*" then ""
      else if m.startsWith "fuzzylite." then (if al.endsWith "." then al else al ++ ".") else m ++ "." := by
  simp only [ModuleOK, Bool.and_eq_true, Bool.not_eq_true'] at h
  obtain ⟨⟨hm, hdot⟩, hex⟩ := h
  unfold packageOf
  simp only [hex, Bool.false_and, Bool.false_eq_true, if_false]
  by_cases h1 : al = ""
  · simp only [h1, if_true, hm, hdot, Bool.not_false, Bool.and_self]
  · by_cases h2 : al = "*"
    · have hstar : ¬ ("*" : String) = "" := by decide
      subst h2
      simp only [hstar, if_true, if_false, bne_self_eq_false, Bool.false_and, Bool.false_eq_true]
    · have h1' : (al != "") = true := by simpa using h1
      cases hfz : m.startsWith "fuzzylite."
      · simp only [h1, h2, if_false, Bool.false_eq_true, hm, hdot, Bool.not_false, Bool.and_self, if_true]
      · simp only [h1, h2, if_false, if_true, h1', Bool.true_and]
        cases al.endsWith "." <;> simp

/-- the modules of the regenerated class table (and the module of `settings`) are such modules -/
theorem table_modules_ok :
    (Gen.ExportTables.classModule.all (fun p => ModuleOK p.2) && ModuleOK Gen.ExportTables.settingsModule) = true := by
  decide +kernel

/-- the class names of the regenerated tables are handled by `repr_instance`: no blank, no `repr_<Class>` attribute -/
def plainClassB (t : String) : Bool := !Py.PyExport.hasSpace t && !Py.PyExport.hasMethod reprMethods ("repr_" ++ t)

theorem plainClass_of (t : String) (h : plainClassB t = true) : PlainClass t := by
  simpa [plainClassB, PlainClass] using h

theorem table_classes_plain :
    (Gen.ExportTables.classModule.all (fun p => plainClassB p.1) &&
      ["bool", "NoneType", "Rule", "Type"].all plainClassB) = true := by
  decide +kernel

end Op.PyRepr
