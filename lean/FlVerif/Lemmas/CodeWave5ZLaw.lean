import FlVerif.Lemmas.CodeWave5ZNode
import FlVerif.Lemmas.CodeFunEvalParse

/-! # `Node.postfix` of a parsed tree gives the postfix tokens back

`Function.parse` builds the tree from the postfix tokens with a stack machine (`Op.parsePostfix`); `Node.postfix` of that
tree (as the node record `Expr.toNode`) is the list of these tokens joined by blanks - token for token, where a token
that `float()` accepts is printed as a number (`Op.str` of its value: `1` comes back as `1.000`) and parentheses / commas
(which `infix_to_postfix` never emits, and which the stack machine skips) are left out. -/

namespace CodeW5Z
open Lang Op Op.NodeText Py.FunEval

/-- what `Node.postfix` prints for a token of the postfix form -/
def tokText (str : X Rat → String) : Tok → Option String
  | .operand s => some (match parseFloat s with | some x => str x | none => s)
  | .el f => some f.name
  | _ => none

/-- the same for the token as text (classified by the table, as `Function.parse` does) -/
def postToken (tbl : Table) (str : X Rat → String) (s : String) : Option String := tokText str (classify tbl s)

theorem joinSp_singleton (s : String) : Py.joinSp [s] = s := String.intercalate_singleton

theorem joinSp_cons_join (A R : List String) (hA : A ≠ []) (hR : R ≠ []) :
    Py.joinSp (Py.joinSp A :: R) = Py.joinSp (A ++ R) := by
  unfold Py.joinSp
  rw [String.intercalate_append_of_ne_nil hA hR, show " ".intercalate A :: R = [" ".intercalate A] ++ R from rfl,
    String.intercalate_append_of_ne_nil (by simp) hR, String.intercalate_singleton]

theorem pfx_texts_ne (str : X Rat → String) : ∀ (e : Expr), Arities e → e.pfx.filterMap (tokText str) ≠ []
  | .leaf s, _ => by simp [Expr.pfx, tokText]
  | .words _, h => h.elim
  | .app0 f, _ => by simp [Expr.pfx, tokText]
  | .app1 f x, _ => by simp [Expr.pfx, tokText]
  | .app2 f l r, _ => by simp [Expr.pfx, tokText]

/-- the tree keeps its postfix form -/
theorem postText_toNode (str : X Rat → String) : ∀ (e : Expr), Arities e → e.LeavesNonempty →
    postText str e.toNode = Py.joinSp (e.pfx.filterMap (tokText str))
  | .leaf s, _, hs => by
    have hs' : s ≠ "" := hs
    simp only [Expr.toNode, Expr.pfx, List.filterMap_cons, List.filterMap_nil, tokText, joinSp_singleton]
    cases hf : parseFloat s with
    | some x =>
      simp only [postText, postTextO, List.nil_append, value, joinSp_singleton, bne_self_eq_false, Bool.false_eq_true,
        if_false]
      split <;> rfl
    | none =>
      have : (s != "") = true := by simp [hs']
      simp [postText, X.isnan, this]
  | .words _, h, _ => h.elim
  | .app0 f, _, _ => by
    simp [Expr.toNode, Expr.pfx, tokText, postText, postTextO, value, joinSp_singleton, X.isnan]
  | .app1 f x, h, hl => by
    have ih := postText_toNode str x h.2 hl
    have hne := pfx_texts_ne str x h.2
    simp only [Expr.toNode, Expr.pfx, List.filterMap_append, List.filterMap_cons, List.filterMap_nil, tokText]
    rw [← joinSp_cons_join _ _ hne (by simp), ← ih]
    simp [postText, postTextO, value, X.isnan]
  | .app2 f l r, h, hl => by
    have ihl := postText_toNode str l h.2.1 hl.1
    have ihr := postText_toNode str r h.2.2 hl.2
    have hnl := pfx_texts_ne str l h.2.1
    have hnr := pfx_texts_ne str r h.2.2
    simp only [Expr.toNode, Expr.pfx, List.filterMap_append, List.filterMap_cons, List.filterMap_nil, tokText,
      List.append_assoc]
    have hm : postText str { element := some f, left := some l.toNode, right := some r.toNode } =
        Py.joinSp [postText str l.toNode, postText str r.toNode, f.name] := by
      simp [postText, postTextO, value, X.isnan]
    rw [hm, ihl, ihr]
    unfold Py.joinSp
    rw [String.intercalate_append_of_ne_nil hnl (by simp), String.intercalate_append_of_ne_nil hnr (by simp),
      String.intercalate_cons_cons, String.intercalate_cons_cons, String.intercalate_singleton]

/-- the tokens the stack machine does not skip -/
def kept : Tok → Bool
  | .operand _ => true
  | .el _ => true
  | _ => false

theorem filterMap_kept (str : X Rat → String) : ∀ (ts : List Tok),
    (ts.filter kept).filterMap (tokText str) = ts.filterMap (tokText str)
  | [] => rfl
  | t :: ts => by
    cases t <;> (simp [List.filter_cons, kept, tokText, filterMap_kept str ts]; try rfl)

/-- the stack machine keeps the postfix forms: what is on the stack at the end (bottom first) reads as what was on the
    stack at the beginning followed by the tokens consumed -/
theorem build_pfx_inv : ∀ (ts : List Tok) (stk out : List Expr), build ts stk = .ok out →
    out.reverse.flatMap Expr.pfx = stk.reverse.flatMap Expr.pfx ++ ts.filter kept
  | [], stk, out, h => by
    simp only [build, Except.ok.injEq] at h
    subst h; simp
  | .operand s :: ts, stk, out, h => by
    simp only [build] at h
    rw [build_pfx_inv ts _ out h]
    simp [List.filter_cons, kept, Expr.pfx]
  | .el f :: ts, stk, out, h => by
    simp only [build] at h
    by_cases hlt : stk.length < f.arity
    · simp [hlt] at h
    · simp only [hlt, if_false] at h
      by_cases h0 : f.arity = 0
      · simp only [h0, if_true] at h
        rw [build_pfx_inv ts _ out h]
        simp [List.filter_cons, kept, Expr.pfx]
      · simp only [h0, if_false] at h
        by_cases h2 : f.arity = 2
        · simp only [h2, if_true] at h
          match stk, h with
          | [], h => cases h
          | [_], h => cases h
          | r :: l :: s, h =>
            simp only at h
            rw [build_pfx_inv ts _ out h]
            simp [List.filter_cons, kept, Expr.pfx]
        · simp only [h2, if_false] at h
          match stk, h with
          | [], h => cases h
          | r :: s, h =>
            simp only at h
            rw [build_pfx_inv ts _ out h]
            simp [List.filter_cons, kept, Expr.pfx]
  | .comma :: ts, stk, out, h => by
    simp only [build] at h
    rw [build_pfx_inv ts _ out h]; simp [kept]
  | .lp :: ts, stk, out, h => by
    simp only [build] at h
    rw [build_pfx_inv ts _ out h]; simp [kept]
  | .rp :: ts, stk, out, h => by
    simp only [build] at h
    rw [build_pfx_inv ts _ out h]; simp [kept]

/-- **`Node.postfix` of the tree built from the postfix tokens `q` is `" ".join(q)`** - with numbers printed by `Op.str`
    and punctuation left out (`postToken`).  For every table without elements of arity 3 or more and every token list
    without empty tokens (the tokens of a `split()`). -/
theorem postfix_of_parse (tbl : Table) (hT : ∀ r ∈ tbl, r.2.2.1 ≤ 2) (str : X Rat → String) (q : List String)
    (hq : ∀ s ∈ q, s ≠ "") (e : Expr) (h : parsePostfix tbl q = .ok e) :
    postText str e.toNode = Py.joinSp (q.filterMap (postToken tbl str)) := by
  unfold parsePostfix parsePostfixTok at h
  cases hb : build (q.map (classify tbl)) [] with
  | error k => rw [hb] at h; cases h
  | ok stk =>
    rw [hb] at h
    have hall := build_built _ [] stk
      (by
        intro f hf
        obtain ⟨s, _, hs⟩ := List.mem_map.1 hf
        obtain ⟨r, hr, rfl⟩ := classify_el hs
        exact hT r hr)
      (by
        intro s hs
        obtain ⟨s', hs', hc⟩ := List.mem_map.1 hs
        have := classify_str tbl s'
        rw [hc] at this
        simp only [Tok.str] at this
        subst this
        exact hq _ hs')
      (by simp) hb
    have hinv := build_pfx_inv _ [] stk hb
    cases stk with
    | nil => cases h
    | cons e' rest =>
      cases rest with
      | cons _ _ => cases h
      | nil =>
        simp only [Except.ok.injEq] at h
        subst h
        obtain ⟨ha, hl⟩ := hall e' (by simp)
        simp only [List.reverse_cons, List.reverse_nil, List.nil_append, List.flatMap_cons, List.flatMap_nil,
          List.append_nil] at hinv
        rw [postText_toNode str _ ha hl, hinv, filterMap_kept, List.filterMap_map]
        rfl

end CodeW5Z
