import FlVerif.Lemmas.PyFixed

/-! Well-formedness of the regenerated constructor / `__repr__` tables, discharged by evaluation. -/

namespace Op.PyRepr
open Dec Op.FllIO Spec.Fll

/-- no constructor has two parameters of the same name -/
def namesNodupCheck : Bool :=
  Gen.ExportTables.ctorParams.all (fun e => decide ((e.2.map (·.1)).Nodup))

theorem namesNodupCheck_ok : namesNodupCheck = true := by decide +kernel

theorem lookup_mem {α : Type} (l : List (String × α)) (k : String) (v : α) (h : l.lookup k = some v) : (k, v) ∈ l := by
  induction l with
  | nil => simp at h
  | cons a l ih =>
    obtain ⟨k', v'⟩ := a
    simp only [List.lookup_cons] at h
    by_cases hk : k == k'
    · simp only [hk] at h
      have : k = k' := by simpa using hk
      simp_all
    · simp only [hk] at h
      exact List.mem_cons_of_mem _ (ih h)

theorem tablesDistinct : TablesDistinct := by
  intro cls ps hps
  unfold paramsOf at hps
  cases hl : Gen.ExportTables.ctorParams.lookup cls with
  | none => simp [hl] at hps
  | some raw =>
    simp only [hl, Option.map_some, Option.some.injEq] at hps
    have hmem := lookup_mem _ _ _ hl
    have hall := namesNodupCheck_ok
    unfold namesNodupCheck at hall
    have := (List.all_eq_true.1 hall) (cls, raw) hmem
    simp only [decide_eq_true_eq] at this
    apply distinct_of_nodup
    rw [← hps]
    simpa [List.map_map, Function.comp_def] using this

/-- the probed conditions are the two the model knows; a height condition sits on a parameter whose default is 1 -/
def condOK (ps : List Param) (c : String × String) : Bool :=
  match dropKindOf c.2, defaultOf ps c.1 with
  | .eqDefault, some d => eqDefaultVal d d
  | .eqDefault, none => true
  | .close1, some (.atom (.num x)) => decide (x = one)
  | .close1, some _ => false
  | .close1, none => true
  | .unknown, _ => false

def condCheck (e : String × Bool × List String × List (String × String) × List String) : Bool :=
  match paramsOf e.1 with
  | none => false
  | some ps => e.2.2.2.1.all (condOK ps)

def condTableCheck : Bool := Gen.ExportTables.reprProbe.all condCheck

theorem condTableCheck_ok : condTableCheck = true := by decide +kernel

theorem lookup_map_kind (l : List (String × String)) (n : String) (k : DropKind)
    (h : (l.map (fun c => (c.1, dropKindOf c.2))).lookup n = some k) : ∃ ks, (n, ks) ∈ l ∧ dropKindOf ks = k := by
  induction l with
  | nil => simp at h
  | cons a l ih =>
    obtain ⟨m, ks⟩ := a
    simp only [List.map_cons, List.lookup_cons] at h
    by_cases hk : n == m
    · simp only [hk, Option.some.injEq] at h
      have : n = m := by simpa using hk
      exact ⟨ks, by simp [this], h⟩
    · simp only [hk] at h
      obtain ⟨ks', hm, hd⟩ := ih h
      exact ⟨ks', List.mem_cons_of_mem _ hm, hd⟩

/-- wherever a `__repr__` drops a field conditionally, the constructor default satisfies the condition -/
theorem tablesFixed (env : Env) (h0 : 0 ≤ env.cfg.tol) : TablesFixed env := by
  intro cls ps info hps hinfo n k hk d hd
  unfold reprInfoOf at hinfo
  cases hl : Gen.ExportTables.reprProbe.lookup cls with
  | none => simp [hl] at hinfo
  | some raw =>
    obtain ⟨pos, al, cd, ad⟩ := raw
    simp only [hl, Option.map_some, Option.some.injEq] at hinfo
    subst hinfo
    simp only at hk
    obtain ⟨ks, hmem, hkind⟩ := lookup_map_kind cd n k hk
    have hentry := lookup_mem _ _ _ hl
    have hall := condTableCheck_ok
    unfold condTableCheck at hall
    have hc := (List.all_eq_true.1 hall) _ hentry
    simp only [condCheck, hps] at hc
    have hcn := (List.all_eq_true.1 hc) (n, ks) hmem
    simp only [condOK, hkind, hd] at hcn
    cases k with
    | eqDefault => simpa [dropHolds] using hcn
    | unknown => simp at hcn
    | close1 =>
      cases d with
      | node kk kids => simp at hcn
      | atom a =>
        cases a with
        | num x =>
          simp only [decide_eq_true_eq] at hcn
          subst hcn
          simp [dropHolds, isClose1_one env.cfg.tol h0]
        | int z => simp at hcn
        | str s => simp at hcn
        | bool b => simp at hcn
        | none => simp at hcn
        | enum s => simp at hcn
        | rule r => simp at hcn
        | other w => simp at hcn

/-- every call in the tree is a valid Python call for the signature of its class -/
def CallsValid (s : Src) : Prop :=
  Rose.Forall (fun _ => True)
    (fun k kids => match k with
      | .call _ cls kws => ∃ ps, paramsOf cls = some ps ∧ ValidCall ps (kws.zip kids)
      | _ => True) s

theorem callsValid_asConstructor (env : Env) : ∀ v : Val, CallsValid (asConstructor env v) := by
  refine Rose.ind ?_ ?_
  · intro a; simp [asConstructor, CallsValid, Rose.Forall]
  · intro k kids ih
    have hkids : Rose.ForallList _ _ (kids.map (asConstructor env)) :=
      (Rose.forallList_iff _ _ _).2 (fun t ht => by
        obtain ⟨x, hx, rfl⟩ := List.mem_map.1 ht
        exact ih x hx)
    cases k with
    | list => simp only [asConstructor, asConstructorList_eq]; exact ⟨trivial, hkids⟩
    | array => simp only [asConstructor, asConstructorList_eq]; exact ⟨trivial, hkids⟩
    | dict keys => simp only [asConstructor, asConstructorList_eq]; exact ⟨trivial, hkids⟩
    | obj cls names =>
      simp only [asConstructor, asConstructorList_eq]
      cases hps : paramsOf cls with
      | none => simp [CallsValid, Rose.Forall]
      | some ps =>
        cases hinfo : reprInfoOf cls with
        | none => simp [CallsValid, Rose.Forall]
        | some info =>
          simp only
          by_cases hunk : (info.cond.any fun c => c.2 == DropKind.unknown) = true
          · simp [hunk, CallsValid, Rose.Forall]
          · simp only [hunk, Bool.false_eq_true, if_false]
            cases hargs : emit (fun n => if (passed env ps info (names.zip kids) n).isSome
                then (names.zip (kids.map (asConstructor env))).lookup n else none) info.positional ps with
            | none => simp [CallsValid, Rose.Forall]
            | some args =>
              refine ⟨⟨ps, hps, ?_⟩, (Rose.forallList_iff _ _ _).2 ?_⟩
              · rw [zip_map_fst_snd]
                exact emit_validCall _ _ ps (tablesDistinct cls ps hps) args hargs
              · intro t ht
                obtain ⟨a, ha, rfl⟩ := List.mem_map.1 ht
                obtain ⟨n, hn⟩ := emit_values _ _ ps args hargs a ha
                by_cases hp : (passed env ps info (names.zip kids) n).isSome = true
                · simp only [hp, if_true] at hn
                  have := lookup_zip_mem names _ n a.2 hn
                  obtain ⟨x, hx, hxe⟩ := List.mem_map.1 this
                  rw [← hxe]; exact ih x hx
                · simp [hp] at hn

theorem eqDefaultVal_eq (d v : Val) (h : eqDefaultVal d v = true) : v = d := by
  cases d with
  | atom a =>
    cases v with
    | node k ks => cases a <;> simp [eqDefaultVal] at h
    | atom b => cases a <;> simp_all [eqDefaultVal]
  | node k ks =>
    cases v with
    | atom b => cases ks <;> simp [eqDefaultVal] at h
    | node k' ks' =>
      cases ks with
      | cons x xs => simp [eqDefaultVal] at h
      | nil =>
        cases ks' with
        | cons y ys => simp [eqDefaultVal] at h
        | nil => simp [eqDefaultVal] at h; rw [h.2]

end Op.PyRepr
