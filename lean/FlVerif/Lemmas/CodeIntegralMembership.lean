import FlVerif.Gen.CodeIntegral
import FlVerif.Lemmas.CodeIntegralNp

/-! # Tie A for `Activated.membership` and `Aggregated.membership`: the definitions translated from the current
source equal the models `Op.Integral.activatedMat` / `aggregatedMat` (the fuzzy set the integral defuzzifiers sample) -/

namespace Op.Integral
open Gen.Code Py.Np Lemmas.Integral

theorem zipWith_replicate_left {β γ δ : Type} (f : β → γ → δ) (t : β) (l : List γ) :
    List.zipWith f (List.replicate l.length t) l = l.map (fun v => f t v) := by
  induction l with
  | nil => rfl
  | cons a l ih =>
    simp only [List.length_cons, List.replicate_succ, List.zipWith_cons_cons, List.map_cons, ih]

/-! ## `Activated.membership` -/

/-- `implication.compute(np.atleast_2d(self.degree).T, self.term.membership(x))` for `x = [xr]` is the model's matrix:
    one row per degree -/
theorem implication_matrix (mu : X Rat → X Rat) (degrees : List (X Rat)) (f : X Rat → X Rat → X Rat) (xr : Row) :
    zip2 f (degreeColumn degrees) (map2 mu [xr]) = .ok (activatedMat ⟨mu, degrees, f⟩ degrees.length xr) := by
  unfold degreeColumn map2 activatedMat Activated.column activatedRow
  simp only [List.map_cons, List.map_nil, bcastRow_self]
  rw [zip2_row_right f (xr.map mu) degrees (fun d => [X.nanToNum01 d]) (fun _ _ => Or.inr rfl)]
  simp only [bcastRow_singleton, zipWith_replicate_left]

/-- **`Activated.membership` as translated from the source, on the row of sample points `x = [xr]`**: `ValueError`
    without implication operator, otherwise the model's matrix `activatedMat` (one row per degree) - kept as a matrix
    for a batch of degrees, squeezed otherwise -/
theorem code_activatedMembership (mu : X Rat → X Rat) (degrees : List (X Rat))
    (impl : Option (X Rat → X Rat → X Rat)) (xr : Row) :
    match impl with
    | none => Activated_membership.run mu degrees none [xr] {} = .error .value
    | some f => ∃ σ, Activated_membership.run mu degrees (some f) [xr] {} = .ok σ ∧
        σ.ret = some (if 1 < degrees.length then .mat (activatedMat ⟨mu, degrees, f⟩ degrees.length xr)
                      else squeeze2 (activatedMat ⟨mu, degrees, f⟩ degrees.length xr)) := by
  cases impl with
  | none => rfl
  | some f =>
    unfold Activated_membership.run
    have hlen : (activatedMat ⟨mu, degrees, f⟩ degrees.length xr).length = degrees.length := by
      simp [activatedMat, Activated.column]
    simp only [Option.isSome_some, Bool.not_true, Bool.false_eq_true, if_false, Py.deref_some, bind, Except.bind,
      zipNd, implication_matrix, shape0, hlen, beq_self_eq_true, if_true, gt_iff_lt, squeezeNd]
    by_cases hd : 1 < degrees.length
    · simp only [hd, decide_true, if_true]
      exact ⟨_, rfl, rfl⟩
    · simp only [hd, decide_false, Bool.false_eq_true, if_false]
      exact ⟨_, rfl, rfl⟩

/-- the callee external of `Aggregated.membership` is the translated function -/
theorem code_activatedMembership_callee (a : Act) (xr : Row) :
    match activatedMembership a xr with
    | .error e => Activated_membership.run a.mu a.degrees a.impl [xr] {} = .error e
    | .ok v => ∃ σ, Activated_membership.run a.mu a.degrees a.impl [xr] {} = .ok σ ∧ σ.ret = some v := by
  have := code_activatedMembership a.mu a.degrees a.impl xr
  unfold activatedMembership activatedValue
  cases h : a.impl with
  | none => rw [h] at this; exact this
  | some f => rw [h] at this; exact this

/-! ## `Aggregated.membership`

The translated loop keeps `y` as NumPy does: a 0-d scalar, a vector `(n,)` or a matrix `(B, n)`, whichever the
operands seen so far produce.  The model keeps the `(B, n)` matrix throughout.  `bc` is the broadcast of a value to
`(B, n)`; `zipNd` commutes with it. -/

def rank : Nd → Nat
  | .scalar _ => 0
  | .vec _ => 1
  | .mat _ => 2

/-- the value broadcast to shape `(B, n)` -/
def bc (B n : Nat) : Nd → Mat
  | .scalar u => List.replicate B (List.replicate n u)
  | .vec l => List.replicate B l
  | .mat m => m

/-- the value can be broadcast to `(B, n)` the way the model does -/
def wf (B n : Nat) : Nd → Prop
  | .scalar _ => True
  | .vec l => l.length = n
  | .mat m => m.length = B ∧ ∀ q ∈ m, q.length = n

theorem zipWith_replicate_left' {β γ δ : Type} (f : β → γ → δ) (t : β) (l : List γ) {n : Nat} (h : l.length = n) :
    List.zipWith f (List.replicate n t) l = l.map (fun v => f t v) := by
  subst h; exact zipWith_replicate_left f t l

theorem zipWith_replicate_right' {β γ δ : Type} (f : β → γ → δ) (l : List β) (t : γ) {n : Nat} (h : l.length = n) :
    List.zipWith f l (List.replicate n t) = l.map (fun v => f v t) := by
  subst h; exact zipWith_replicate_right f l t

theorem zipRows_eqshape {β γ δ : Type} (f : β → γ → δ) (A : List (List β)) (C : List (List γ)) (n : Nat)
    (hA : ∀ q ∈ A, q.length = n) (hC : ∀ q ∈ C, q.length = n) :
    zipRows f A C = .ok (List.zipWith (List.zipWith f) A C) := by
  unfold zipRows
  have hp : ∀ p ∈ List.zip A C, p.1.length = n ∧ p.2.length = n := by
    intro p hp
    exact ⟨hA _ (List.of_mem_zip hp).1, hC _ (List.of_mem_zip hp).2⟩
  rw [if_pos]
  · congr 1
    rw [List.map_zip_eq_zipWith]
    clear hp
    induction A generalizing C with
    | nil => rfl
    | cons a A ih =>
      cases C with
      | nil => rfl
      | cons c C =>
        simp only [List.zipWith_cons_cons]
        rw [ih C (fun q hq => hA q (by simp [hq])) (fun q hq => hC q (by simp [hq]))]
        simp only [Function.curry]
        rw [hA a (by simp), hC c (by simp)]
        have e1 := bcastRow_len n a (hA a (by simp))
        have e2 := bcastRow_len n c (hC c (by simp))
        rw [e1, e2]
  · rw [List.all_eq_true]
    intro p hp'
    rw [(hp p hp').1, (hp p hp').2]
    exact compat_self n

theorem zip2_eqshape {β γ δ : Type} (f : β → γ → δ) (A : List (List β)) (C : List (List γ)) (n : Nat)
    (hl : A.length = C.length) (hA : ∀ q ∈ A, q.length = n) (hC : ∀ q ∈ C, q.length = n) :
    zip2 f A C = .ok (List.zipWith (List.zipWith f) A C) := by
  unfold zip2
  rw [hl, compat_self, if_pos rfl, bcastRow_self, ← hl, bcastRow_self]
  exact zipRows_eqshape f A C n hA hC

theorem map_rows_congr {f g : List (X Rat) → List (X Rat)} {m : Mat} (h : ∀ q ∈ m, f q = g q) : m.map f = m.map g :=
  List.map_congr_left h

/-- **broadcasting commutes with an elementwise operation**: the NumPy result of `g` on two values, broadcast to
    `(B, n)`, is `g` on the broadcast values; no shape error; the rank is the larger one -/
theorem zipNd_bc (g : X Rat → X Rat → X Rat) (B n : Nat) (v w : Nd) (hv : wf B n v) (hw : wf B n w) :
    ∃ v', zipNd g v w = .ok v' ∧ wf B n v' ∧
      bc B n v' = List.zipWith (List.zipWith g) (bc B n v) (bc B n w) ∧ rank v' = max (rank v) (rank w) := by
  cases v with
  | scalar u =>
    cases w with
    | scalar u' =>
      exact ⟨_, rfl, trivial, by simp [bc], rfl⟩
    | vec l' =>
      refine ⟨_, rfl, by simpa [wf] using hw, ?_, rfl⟩
      simp only [bc, List.zipWith_replicate, Nat.min_self]
      rw [zipWith_replicate_left' g u l' hw]
    | mat m' =>
      obtain ⟨h1, h2⟩ := hw
      refine ⟨_, rfl, ⟨by simp [map2, h1], ?_⟩, ?_, rfl⟩
      · intro q hq
        simp only [map2, List.mem_map] at hq
        obtain ⟨q', hq', rfl⟩ := hq
        simpa using h2 q' hq'
      · simp only [bc, map2]
        rw [zipWith_replicate_left' _ _ m' h1]
        exact map_rows_congr (fun q hq => (zipWith_replicate_left' g u q (h2 q hq)).symm)
  | vec l =>
    cases w with
    | scalar u' =>
      refine ⟨_, rfl, by simpa [wf] using hv, ?_, rfl⟩
      simp only [bc, List.zipWith_replicate, Nat.min_self]
      rw [zipWith_replicate_right' g l u' hv]
    | vec l' =>
      have e := zip1_same g l l' (hv.trans hw.symm)
      refine ⟨.vec (List.zipWith g l l'), by simp only [zipNd, e, bind, Except.bind], ?_, ?_, rfl⟩
      · simp only [wf, List.length_zipWith]; rw [hv, hw]; exact Nat.min_self n
      · simp only [bc, List.zipWith_replicate, Nat.min_self]
    | mat m' =>
      obtain ⟨h1, h2⟩ := hw
      have e := zip2_row_left g l m' id (fun q hq => Or.inl ((h2 q hq).trans hv.symm))
      simp only [List.map_id, id] at e
      have e' : m'.map (fun q => List.zipWith g l (bcastRow l.length q)) = m'.map (fun q => List.zipWith g l q) :=
        map_rows_congr (fun q hq => by rw [bcastRow_len _ q ((h2 q hq).trans hv.symm)])
      refine ⟨.mat (m'.map (fun q => List.zipWith g l q)), by simp only [zipNd, e, e', bind, Except.bind],
        ⟨by simp [h1], ?_⟩, ?_, rfl⟩
      · intro q hq
        simp only [List.mem_map] at hq
        obtain ⟨q', hq', rfl⟩ := hq
        have hv' : l.length = n := hv
        simp [hv', h2 q' hq']
      · simp only [bc]
        rw [zipWith_replicate_left' _ _ m' h1]
  | mat m =>
    obtain ⟨g1, g2⟩ := hv
    cases w with
    | scalar u' =>
      refine ⟨_, rfl, ⟨by simp [map2, g1], ?_⟩, ?_, rfl⟩
      · intro q hq
        simp only [map2, List.mem_map] at hq
        obtain ⟨q', hq', rfl⟩ := hq
        simpa using g2 q' hq'
      · simp only [bc, map2]
        rw [zipWith_replicate_right' _ m _ g1]
        exact map_rows_congr (fun q hq => (zipWith_replicate_right' g q u' (g2 q hq)).symm)
    | vec l' =>
      have e := zip2_row_right g l' m id (fun q hq => Or.inl ((g2 q hq).trans hw.symm))
      simp only [List.map_id, id] at e
      have e' : m.map (fun q => List.zipWith g (bcastRow l'.length q) l') = m.map (fun q => List.zipWith g q l') :=
        map_rows_congr (fun q hq => by rw [bcastRow_len _ q ((g2 q hq).trans hw.symm)])
      refine ⟨.mat (m.map (fun q => List.zipWith g q l')), by simp only [zipNd, e, e', bind, Except.bind],
        ⟨by simp [g1], ?_⟩, ?_, rfl⟩
      · intro q hq
        simp only [List.mem_map] at hq
        obtain ⟨q', hq', rfl⟩ := hq
        have hw' : l'.length = n := hw
        simp [hw', g2 q' hq']
      · simp only [bc]
        rw [zipWith_replicate_right' _ m _ g1]
    | mat m' =>
      obtain ⟨h1, h2⟩ := hw
      have e := zip2_eqshape g m m' n (g1.trans h1.symm) g2 h2
      refine ⟨.mat (List.zipWith (List.zipWith g) m m'), by simp only [zipNd, e, bind, Except.bind],
        ⟨by simp [g1, h1], ?_⟩, rfl, rfl⟩
      intro q hq
      obtain ⟨i, hi, rfl⟩ := List.getElem_of_mem hq
      simp only [List.length_zipWith] at hi
      simp only [List.getElem_zipWith, List.length_zipWith]
      rw [g2 _ (List.getElem_mem _), h2 _ (List.getElem_mem _)]
      exact Nat.min_self n

theorem activatedMat_rows (a : Activated Rat) (B : Nat) (xr : Row) : ∀ q ∈ activatedMat a B xr, q.length = xr.length := by
  intro q hq
  simp only [activatedMat, List.mem_map] at hq
  obtain ⟨d, _, rfl⟩ := hq
  simp [activatedRow]

/-- the value of `Activated.membership`, broadcast to `(B, n)`, is the model's matrix; it is a matrix only for a batch
    of degrees and a 0-d scalar only for a single sample point -/
theorem activatedValue_bc (mu : X Rat → X Rat) (degrees : List (X Rat)) (f : X Rat → X Rat → X Rat) (xr : Row) (B : Nat)
    (hD : degrees.length = 1 ∨ degrees.length = B) (hB : 1 ≤ B) :
    wf B xr.length (activatedValue mu degrees f xr) ∧
    bc B xr.length (activatedValue mu degrees f xr) = activatedMat ⟨mu, degrees, f⟩ B xr ∧
    (rank (activatedValue mu degrees f xr) < 2 → degrees.length = 1) ∧
    (rank (activatedValue mu degrees f xr) = 0 → xr.length = 1) := by
  unfold activatedValue
  by_cases hd : 1 < degrees.length
  · have hDB : degrees.length = B := by rcases hD with h | h <;> omega
    have hB' : 1 < B := hDB ▸ hd
    simp only [hDB, hB', if_true]
    have hlen : (activatedMat ⟨mu, degrees, f⟩ B xr).length = B := by
      simp only [activatedMat, List.length_map]
      exact column_length ⟨mu, degrees, f⟩ B (Or.inr hDB)
    refine ⟨⟨hlen, activatedMat_rows _ B xr⟩, rfl, by simp [rank], by simp [rank]⟩
  · have h1 : degrees.length = 1 := by rcases hD with h | h <;> omega
    match degrees, h1 with
    | [d], _ =>
      have eB : activatedMat ⟨mu, [d], f⟩ B xr = List.replicate B (activatedRow ⟨mu, [d], f⟩ d (xr.map mu)) := by
        simp [activatedMat, Activated.column]
      have e1 : activatedMat ⟨mu, [d], f⟩ 1 xr = [activatedRow ⟨mu, [d], f⟩ d (xr.map mu)] := by
        simp [activatedMat, Activated.column]
      simp only [List.length_singleton, Nat.lt_irrefl, if_false, e1, eB]
      match xr with
      | [] => simp [activatedRow, squeeze2, wf, bc, rank]
      | [a] => simp [activatedRow, squeeze2, wf, bc, rank]
      | a :: b :: t => simp [activatedRow, squeeze2, wf, bc, rank]

/-- the only exception of broadcasting is `ValueError` -/
theorem zip1_err {β γ δ : Type} (f : β → γ → δ) (a : List β) (b : List γ) (e : Py.Err) (h : zip1 f a b = .error e) :
    e = .value := by
  unfold zip1 at h
  split at h
  · cases h
  · cases h; rfl

theorem zip2_err {β γ δ : Type} (f : β → γ → δ) (A : List (List β)) (C : List (List γ)) (e : Py.Err)
    (h : zip2 f A C = .error e) : e = .value := by
  unfold zip2 zipRows at h
  split at h
  · simp only [] at h
    split at h
    · cases h
    · cases h; rfl
  · cases h; rfl

theorem bind_err {β γ : Type} (m : Py.M β) (k : β → γ) (e : Py.Err) (hm : ∀ e', m = .error e' → e' = .value)
    (h : (m >>= fun r => (.ok (k r) : Py.M γ)) = .error e) : e = .value := by
  cases m with
  | error e' => simp only [bind, Except.bind] at h; cases h; exact hm _ rfl
  | ok r => simp only [bind, Except.bind] at h; cases h

theorem zipNd_err (g : X Rat → X Rat → X Rat) (v w : Nd) (e : Py.Err) (h : zipNd g v w = .error e) : e = .value := by
  cases v with
  | scalar u => cases w <;> cases h
  | vec l =>
    cases w with
    | scalar u' => cases h
    | vec l' => exact bind_err _ _ e (fun e' => zip1_err g l l' e') h
    | mat m' => exact bind_err _ _ e (fun e' => zip2_err g [l] m' e') h
  | mat m =>
    cases w with
    | scalar u' => cases h
    | vec l' => exact bind_err _ _ e (fun e' => zip2_err g m [l'] e') h
    | mat m' => exact bind_err _ _ e (fun e' => zip2_err g m m' e') h

/-- the model's step -/
def aggStep (g : X Rat → X Rat → X Rat) (B : Nat) (xr : Row) (Y : Mat) (a : Activated Rat) : Mat :=
  List.zipWith (List.zipWith g) Y (activatedMat a B xr)

/-- the loop of `Aggregated.membership`: the value of `y`, broadcast to `(B, n)`, follows the model's fold -/
theorem aggregated_loop (g : X Rat → X Rat → X Rat) (terms : List Act) (xr : Row) (B : Nat) (hB : 1 ≤ B) :
    ∀ (rest : List Act) (σ : Aggregated_membership.S),
      (∀ a ∈ rest, a.impl.isSome = true) → (∀ a ∈ rest, a.degrees.length = 1 ∨ a.degrees.length = B) →
      wf B xr.length σ.y →
      ∃ σ', Aggregated_membership.loop1 (some g) terms xr rest σ = .ok σ' ∧ wf B xr.length σ'.y ∧
        bc B xr.length σ'.y = (rest.map Act.model).foldl (aggStep g B xr) (bc B xr.length σ.y) ∧
        rank σ.y ≤ rank σ'.y ∧
        (rank σ'.y < 2 → ∀ a ∈ rest, a.degrees.length = 1) ∧
        (rank σ'.y = 0 → rest = [] ∨ xr.length = 1)
  | [], σ, _, _, hw => ⟨σ, rfl, hw, rfl, Nat.le_refl _, fun _ a ha => by simp at ha, fun _ => Or.inl rfl⟩
  | a :: rest, σ, hI, hU, hw => by
    cases hi : a.impl with
    | none => have := hI a (by simp); rw [hi] at this; simp at this
    | some f =>
      obtain ⟨w_wf, w_bc, w_r2, w_r0⟩ := activatedValue_bc a.mu a.degrees f xr B (hU a (by simp)) hB
      obtain ⟨v', hz, v'wf, v'bc, v'rank⟩ := zipNd_bc g B xr.length σ.y _ hw w_wf
      obtain ⟨σ', h, wf', bc', mono, r2, r0⟩ := aggregated_loop g terms xr B hB rest { σ with term_ := a, y := v' }
        (fun q hq => hI q (by simp [hq])) (fun q hq => hU q (by simp [hq])) v'wf
      refine ⟨σ', ?_, wf', ?_, ?_, ?_, ?_⟩
      · simp only [Aggregated_membership.loop1, activatedMembership, hi, bind, Except.bind, Py.deref_some, hz]
        exact h
      · rw [bc']
        simp only [List.map_cons, List.foldl_cons, aggStep, Act.model, hi, Option.getD_some, v'bc, w_bc]
      · have : rank σ.y ≤ rank v' := by rw [v'rank]; exact Nat.le_max_left _ _
        exact Nat.le_trans this mono
      · intro hr q hq
        rcases List.mem_cons.1 hq with rfl | hq
        · apply w_r2
          have : rank (activatedValue q.mu q.degrees f xr) ≤ rank v' := by rw [v'rank]; exact Nat.le_max_right _ _
          have := Nat.le_trans this mono
          omega
        · exact r2 hr q hq
      · intro hr
        right
        apply w_r0
        have : rank (activatedValue a.mu a.degrees f xr) ≤ rank v' := by rw [v'rank]; exact Nat.le_max_right _ _
        have := Nat.le_trans this mono
        omega

/-- a term without implication operator: `ValueError` (no other exception class can come first) -/
theorem aggregated_loop_error (g : X Rat → X Rat → X Rat) (terms : List Act) (xr : Row) :
    ∀ (rest : List Act) (σ : Aggregated_membership.S), (∃ a ∈ rest, a.impl = none) →
      Aggregated_membership.loop1 (some g) terms xr rest σ = .error .value
  | [], σ, h => by simp at h
  | a :: rest, σ, h => by
    cases hi : a.impl with
    | none => simp only [Aggregated_membership.loop1, activatedMembership, hi, bind, Except.bind]
    | some f =>
      have h' : ∃ q ∈ rest, q.impl = none := by
        obtain ⟨q, hq, hn⟩ := h
        rcases List.mem_cons.1 hq with rfl | hq
        · rw [hi] at hn; cases hn
        · exact ⟨q, hq, hn⟩
      simp only [Aggregated_membership.loop1, activatedMembership, hi, bind, Except.bind, Py.deref_some]
      cases hz : zipNd g σ.y (activatedValue a.mu a.degrees f xr) with
      | error e => rw [zipNd_err g _ _ e hz]
      | ok v' => exact aggregated_loop_error g terms xr rest _ h'

/-- **`Aggregated.membership` as translated from the source, on the row of sample points**: `ValueError` when terms
    lack the aggregation operator or a term lacks its implication operator; otherwise the value, seen through
    `np.atleast_2d` as the defuzzifiers see it, is the model's matrix `aggregatedMat`.  `B` is the batch size: every
    term has one degree or `B` degrees, and `B = 1` unless some term has `B` degrees. -/
theorem code_aggregatedMembership (agg : Option (X Rat → X Rat → X Rat)) (terms : List Act) (xr : Row) (B : Nat) :
    match agg with
    | none =>
      if terms.isEmpty then ∃ σ, Aggregated_membership.run none terms xr {} = .ok σ ∧ σ.ret = some (.scalar (.fin 0))
      else Aggregated_membership.run none terms xr {} = .error .value
    | some g =>
      if terms.all (fun a => a.impl.isSome) then
        1 ≤ B → (∀ a ∈ terms, a.degrees.length = 1 ∨ a.degrees.length = B) →
        (B = 1 ∨ ∃ a ∈ terms, a.degrees.length = B) →
        ∃ σ v, Aggregated_membership.run (some g) terms xr {} = .ok σ ∧ σ.ret = some v ∧
          atleast2d v = aggregatedMat g (terms.map Act.model) B xr
      else Aggregated_membership.run (some g) terms xr {} = .error .value := by
  cases agg with
  | none =>
    cases terms with
    | nil => exact ⟨_, rfl, rfl⟩
    | cons a rest => rfl
  | some g =>
    simp only
    split
    · rename_i hall
      intro hB hU hB'
      have hI : ∀ a ∈ terms, a.impl.isSome = true := List.all_eq_true.1 hall
      obtain ⟨σ', h, wf', bc', _, r2, r0⟩ := aggregated_loop g terms xr B hB terms
        { y := .scalar (.fin 0) } hI hU trivial
      unfold Aggregated_membership.run
      simp only [Option.isSome_some, Bool.not_true, Bool.and_false, Bool.false_eq_true, if_false, h, bind, Except.bind]
      refine ⟨_, σ'.y, rfl, rfl, ?_⟩
      cases terms with
      | nil =>
        simp only [Aggregated_membership.loop1] at h
        cases h
        rfl
      | cons a rest =>
        have hagg : aggregatedMat g ((a :: rest).map Act.model) B xr = bc B xr.length σ'.y := by
          rw [bc']
          simp only [aggregatedMat, List.map_cons, List.isEmpty_cons, Bool.false_eq_true, if_false, bc,
            replicate_eq_map]
          rfl
        rw [hagg]
        have hB1 : rank σ'.y < 2 → B = 1 := by
          intro hr
          rcases hB' with e | ⟨q, hq, e⟩
          · exact e
          · rw [← e]; exact r2 hr q hq
        cases hy : σ'.y with
        | mat m => rfl
        | vec l =>
          have : B = 1 := hB1 (by rw [hy]; simp [rank])
          subst this
          rfl
        | scalar u =>
          have : B = 1 := hB1 (by rw [hy]; simp [rank])
          subst this
          have hn : xr.length = 1 := by
            rcases r0 (by rw [hy]; rfl) with e | e
            · cases e
            · exact e
          simp only [atleast2d, bc, hn, List.replicate_one]
    · rename_i hall
      have hex : ∃ a ∈ terms, a.impl = none := by
        simp only [List.all_eq_true, not_forall] at hall
        obtain ⟨a, ha, hn⟩ := hall
        exact ⟨a, ha, by cases hi : a.impl <;> simp_all⟩
      unfold Aggregated_membership.run
      simp only [Option.isSome_some, Bool.not_true, Bool.and_false, Bool.false_eq_true, if_false,
        aggregated_loop_error g terms xr terms _ hex, bind, Except.bind]

/-! ## the shape hypothesis of the defuzzifier ties holds for the model's matrix -/

theorem zipWith_rows {g : X Rat → X Rat → X Rat} {n : Nat} :
    ∀ (Y M : Mat), (∀ q ∈ Y, q.length = n) → (∀ q ∈ M, q.length = n) →
      ∀ q ∈ List.zipWith (List.zipWith g) Y M, q.length = n
  | [], _, _, _ => by simp
  | _ :: _, [], _, _ => by simp
  | y :: Y, m :: M, hY, hM => by
    intro q hq
    simp only [List.zipWith_cons_cons, List.mem_cons] at hq
    rcases hq with rfl | hq
    · simp [hY y (by simp), hM m (by simp)]
    · exact zipWith_rows Y M (fun q hq => hY q (by simp [hq])) (fun q hq => hM q (by simp [hq])) q hq

theorem aggregatedMat_shape (g : X Rat → X Rat → X Rat) (acts : List (Activated Rat)) (B : Nat) (xr : Row) :
    memShape xr.length (aggregatedMat g acts B xr) = true := by
  unfold aggregatedMat
  split
  · simp [memShape]
  · have key : ∀ (l : List (Activated Rat)) (Y : Mat), (∀ q ∈ Y, q.length = xr.length) →
        ∀ q ∈ l.foldl (fun Y a => List.zipWith (List.zipWith g) Y (activatedMat a B xr)) Y, q.length = xr.length := by
      intro l
      induction l with
      | nil => intro Y hY; exact hY
      | cons a l ih =>
        intro Y hY
        exact ih _ (zipWith_rows Y _ hY (activatedMat_rows a B xr))
    have := key acts (List.replicate B (xr.map (fun _ => X.fin 0))) (by
      intro q hq
      rw [List.eq_of_mem_replicate hq]
      simp)
    unfold memShape
    rw [Bool.or_eq_true]
    left
    rw [List.all_eq_true]
    intro q hq
    simpa using this q hq

end Op.Integral
