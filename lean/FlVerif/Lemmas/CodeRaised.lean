import FlVerif.Gen.CodeRaised
import FlVerif.Lemmas.CodeCascade
import FlVerif.Gen.CodeRule

/-! # Functions translated a second time with the state kept at a raise: what a failing call leaves behind

`OutputVariable.defuzzify` and `Rule.parse` are tied to their models in the plain monad (`Lemmas/CodeCascade.lean`,
`Lemmas/CodeRule.lean`), where the record of the locals is dropped at a raise.  Here the same source is translated with
`raise_state` (`Gen/CodeRaised.lean`, same externals) and two things are proved for each function:

* *simulation*: forgetting the record at a raise gives exactly the plain translation (same exception class, same record
  on success) - `Py.R.forget`;
* *frame*: whatever the outcome, the attributes of `self` are as they were on entry until the last statements assign
  them - `Py.R.Keeps`.

Both are inductions over the loops that follow the generated text mechanically (push `forget` / `Keeps` through `if`,
`>>=`, `Py.inState`). -/

set_option linter.unusedSimpArgs false

namespace Py.R

/-- forget the record at a raise, and look at the final record through `p` -/
def forget {S S' : Type} (p : S → S') : Except (Err × S) S → M S'
  | .ok σ => .ok (p σ)
  | .error (e, _) => .error e

/-- the outcome - the final record or the record at the raise - satisfies `P` -/
def Keeps {S : Type} (P : S → Prop) : Except (Err × S) S → Prop
  | .ok σ => P σ
  | .error (_, σ) => P σ

variable {S S' T : Type}

@[simp] theorem forget_ok (p : S → S') (σ : S) : forget p (.ok σ) = .ok (p σ) := rfl
@[simp] theorem forget_error (p : S → S') (e : Err) (σ : S) : forget p (.error (e, σ)) = .error e := rfl

theorem forget_ite (p : S → S') (c : Prop) [Decidable c] (a b : Except (Err × S) S) :
    forget p (if c then a else b) = if c then forget p a else forget p b := by
  split <;> rfl

/-- an expression that can raise, then the rest -/
theorem forget_inState_bind (p : S → S') (σ : S) (m : M T) (f : T → Except (Err × S) S) :
    forget p (inState σ m >>= f) = (m >>= fun v => forget p (f v)) := by
  cases m <;> rfl

/-- a loop (or any statement whose plain translation is known), then the rest -/
theorem forget_bind (p : S → S') (r : Except (Err × S) S) (f : S → Except (Err × S) S) (m : M S') (g : S' → M S')
    (hr : forget p r = m) (h : ∀ σ, forget p (f σ) = g (p σ)) : forget p (r >>= f) = (m >>= g) := by
  subst hr
  cases r with
  | ok σ => exact h σ
  | error q => rfl

theorem keeps_ok (P : S → Prop) (σ : S) : Keeps P (.ok σ) ↔ P σ := Iff.rfl
theorem keeps_error (P : S → Prop) (e : Err) (σ : S) : Keeps P (.error (e, σ)) ↔ P σ := Iff.rfl

theorem keeps_ite (P : S → Prop) (c : Prop) [Decidable c] (a b : Except (Err × S) S) (ha : Keeps P a) (hb : Keeps P b) :
    Keeps P (if c then a else b) := by
  split <;> assumption

theorem keeps_inState_bind (P : S → Prop) (σ : S) (m : M T) (f : T → Except (Err × S) S) (hσ : P σ)
    (hf : ∀ v, Keeps P (f v)) : Keeps P (inState σ m >>= f) := by
  cases m with
  | ok v => exact hf v
  | error e => exact hσ

theorem keeps_bind (P : S → Prop) (r : Except (Err × S) S) (f : S → Except (Err × S) S) (hr : Keeps P r)
    (hf : ∀ σ, P σ → Keeps P (f σ)) : Keeps P (r >>= f) := by
  cases r with
  | ok σ => exact hf σ hr
  | error q => exact hr

/-- the record *at a raise* satisfies `P` (nothing is said about a normal return) -/
def KeepsErr {S : Type} (P : S → Prop) : Except (Err × S) S → Prop
  | .ok _ => True
  | .error (_, σ) => P σ

theorem keepsErr_ok (P : S → Prop) (σ : S) : KeepsErr P (.ok σ) := trivial

theorem keepsErr_ite (P : S → Prop) (c : Prop) [Decidable c] (a b : Except (Err × S) S) (ha : KeepsErr P a)
    (hb : KeepsErr P b) : KeepsErr P (if c then a else b) := by
  split <;> assumption

theorem keepsErr_inState_bind (P : S → Prop) (σ : S) (m : M T) (f : T → Except (Err × S) S) (hσ : P σ)
    (hf : ∀ v, KeepsErr P (f v)) : KeepsErr P (inState σ m >>= f) := by
  cases m with
  | ok v => exact hf v
  | error e => exact hσ

/-- a loop that keeps `P` whatever its outcome, then statements that keep it at a raise -/
theorem keepsErr_bind (P : S → Prop) (r : Except (Err × S) S) (f : S → Except (Err × S) S) (hr : Keeps P r)
    (hf : ∀ σ, P σ → KeepsErr P (f σ)) : KeepsErr P (r >>= f) := by
  cases r with
  | ok σ => exact hf σ hr
  | error q => exact hr

/-- simulation and frame at a raise together, in the form the tie theorems state -/
theorem outcome_error (p : S → S') (P : S → Prop) (r : Except (Err × S) S) (g : M S') (hsim : forget p r = g)
    (hk : KeepsErr P r) (err : Err) (σ : S) (h : r = .error (err, σ)) : P σ ∧ g = .error err := by
  subst hsim h
  exact ⟨hk, rfl⟩

theorem outcome_ok (p : S → S') (r : Except (Err × S) S) (g : M S') (hsim : forget p r = g) (σ : S)
    (h : r = .ok σ) : g = .ok (p σ) := by
  subst hsim h
  rfl

end Py.R

namespace Op
open Gen.Code Py.R

/-! ## `OutputVariable.defuzzify` -/

/-- the record of the plain translation that a record of the translation with `raise_state` stands for -/
def defuzzifyProj (σ : OutputVariable_defuzzify_rs.S) : OutputVariable_defuzzify.S :=
  { value := σ.value, previous_value := σ.previous_value, value_i := σ.value_i, self_value := σ.self_value,
    self_previous_value := σ.self_previous_value }

theorem defuzzify_rs_loop_sim (c : CascadeCfg Rat) (hd : Bool) (raw : Py.M (List (X Rat))) (s : OutState Rat)
    (fz : List (Engine.Act Rat)) : ∀ (vs : List (X Rat)) (σ : OutputVariable_defuzzify_rs.S),
    forget defuzzifyProj (OutputVariable_defuzzify_rs.loop1 c hd raw s fz vs σ)
      = OutputVariable_defuzzify.loop1 c hd raw s vs (defuzzifyProj σ)
  | [], σ => rfl
  | v :: vs, σ => by
    have ih := defuzzify_rs_loop_sim c hd raw s fz vs
    simp only [OutputVariable_defuzzify_rs.loop1, OutputVariable_defuzzify.loop1, forget_ite, ih]
    rfl

/-- the in-place loop does not raise (the plain loop does not, `code_fillLoop`) -/
theorem defuzzify_rs_loop_ok (c : CascadeCfg Rat) (hd : Bool) (raw : Py.M (List (X Rat))) (s : OutState Rat)
    (fz : List (Engine.Act Rat)) (vs : List (X Rat)) (σ : OutputVariable_defuzzify_rs.S) :
    ∃ τ, OutputVariable_defuzzify_rs.loop1 c hd raw s fz vs σ = .ok τ := by
  have hs := defuzzify_rs_loop_sim c hd raw s fz vs σ
  obtain ⟨σ', h, -⟩ := code_fillLoop c hd raw s vs (defuzzifyProj σ)
  rw [h] at hs
  cases hr : OutputVariable_defuzzify_rs.loop1 c hd raw s fz vs σ with
  | ok τ => exact ⟨τ, rfl⟩
  | error q => rw [hr] at hs; cases hs

/-- forgetting the record at a raise, the translation with `raise_state` is the plain translation -/
theorem defuzzify_rs_sim (c : CascadeCfg Rat) (hd : Bool) (raw : Py.M (List (X Rat))) (s : OutState Rat)
    (fz : List (Engine.Act Rat)) :
    forget defuzzifyProj (OutputVariable_defuzzify_rs.run c hd raw s fz {}) = OutputVariable_defuzzify.run c hd raw s {} := by
  unfold OutputVariable_defuzzify_rs.run OutputVariable_defuzzify.run
  simp only [forget_ite, forget_inState_bind, forget_ok, forget_error]
  split
  · rfl
  · split
    · rfl
    · congr 1
      funext v
      split
      · exact forget_bind defuzzifyProj _ _ _ _ (defuzzify_rs_loop_sim c hd raw s fz _ _)
          (fun σ => by simp only [forget_ite, forget_ok]; rfl)
      · rfl

/-- whatever the outcome, `self.value`, `self.previous_value` and the fuzzy output are as on entry *at a raise* -/
theorem defuzzify_rs_raise (c : CascadeCfg Rat) (hd : Bool) (raw : Py.M (List (X Rat))) (s : OutState Rat)
    (fz : List (Engine.Act Rat)) (err : Py.Err) (σ : OutputVariable_defuzzify_rs.S)
    (h : OutputVariable_defuzzify_rs.run c hd raw s fz {} = .error (err, σ)) :
    σ.self_value = s.value ∧ σ.self_previous_value = s.previous ∧ σ.self_fuzzy = fz := by
  unfold OutputVariable_defuzzify_rs.run at h
  simp only at h
  split at h
  · cases h
  · split at h
    · cases h; exact ⟨rfl, rfl, rfl⟩
    · cases raw with
      | error e0 => cases h; exact ⟨rfl, rfl, rfl⟩
      | ok v =>
        exfalso
        simp only [Py.inState_ok, bind, Except.bind] at h
        split at h
        · obtain ⟨τ, hτ⟩ := defuzzify_rs_loop_ok c hd (.ok v) s fz v
            { self_fuzzy := fz, self_previous_value := lastOr X.nan s.value, self_value := s.value, value := [],
              previous_value := lastOr X.nan s.value }
          rw [hτ] at h
          simp only at h
          split at h <;> cases h
        · split at h <;> cases h

/-- the function never assigns the fuzzy output -/
theorem defuzzify_rs_loop_fuzzy (c : CascadeCfg Rat) (hd : Bool) (raw : Py.M (List (X Rat))) (s : OutState Rat)
    (fz f : List (Engine.Act Rat)) : ∀ (vs : List (X Rat)) (σ : OutputVariable_defuzzify_rs.S), σ.self_fuzzy = f →
    Keeps (fun τ => τ.self_fuzzy = f) (OutputVariable_defuzzify_rs.loop1 c hd raw s fz vs σ)
  | [], σ, h => h
  | v :: vs, σ, h => by
    have ih := defuzzify_rs_loop_fuzzy c hd raw s fz f vs
    simp only [OutputVariable_defuzzify_rs.loop1]
    exact keeps_ite _ _ _ _ (ih _ h) (ih _ h)

theorem defuzzify_rs_fuzzy (c : CascadeCfg Rat) (hd : Bool) (raw : Py.M (List (X Rat))) (s : OutState Rat)
    (fz : List (Engine.Act Rat)) :
    Keeps (fun τ => τ.self_fuzzy = fz) (OutputVariable_defuzzify_rs.run c hd raw s fz {}) := by
  unfold OutputVariable_defuzzify_rs.run
  refine keeps_ite _ _ _ _ rfl (keeps_ite _ _ _ _ rfl (keeps_inState_bind _ _ _ _ rfl fun v => ?_))
  have hk : ∀ σ : OutputVariable_defuzzify_rs.S, σ.self_fuzzy = fz → Keeps (fun τ => τ.self_fuzzy = fz)
      (if (!X.isnan c.dflt) = true then
        (Except.ok { σ with value := Py.Cascade.maskNan σ.value c.dflt,
                            self_value := Py.Cascade.setValue c (Py.Cascade.maskNan σ.value c.dflt) })
      else Except.ok { σ with self_value := Py.Cascade.setValue c σ.value }) :=
    fun σ h => keeps_ite _ _ _ _ h h
  refine keeps_ite _ _ _ _ (keeps_bind _ _ _ (defuzzify_rs_loop_fuzzy c hd raw s fz fz _ _ rfl) fun σ h => hk σ h) (hk _ rfl)

/-- **`OutputVariable.defuzzify`, translated with the state kept at a raise.**  When the translated function raises
    (no defuzzifier: `ValueError`; the exception of the defuzzifier), the record at the raise has `self.value`,
    `self.previous_value` and the fuzzy output exactly as on entry, and the plain translation (tied to the model by
    `code_defuzzify`) raises the same class; on success the two translations assign the same values. -/
theorem code_defuzzify_raise_unchanged (c : CascadeCfg Rat) (hasDefuzzifier : Bool) (raw : Py.M (List (X Rat)))
    (s : OutState Rat) (fz : List (Engine.Act Rat)) :
    match OutputVariable_defuzzify_rs.run c hasDefuzzifier raw s fz {} with
    | .error (err, σ) => (σ.self_value = s.value ∧ σ.self_previous_value = s.previous ∧ σ.self_fuzzy = fz) ∧
        OutputVariable_defuzzify.run c hasDefuzzifier raw s {} = .error err
    | .ok σ => σ.self_fuzzy = fz ∧ ∃ σ', OutputVariable_defuzzify.run c hasDefuzzifier raw s {} = .ok σ' ∧
        σ.self_value = σ'.self_value ∧ σ.self_previous_value = σ'.self_previous_value := by
  have hsim := defuzzify_rs_sim c hasDefuzzifier raw s fz
  have hf := defuzzify_rs_fuzzy c hasDefuzzifier raw s fz
  have hr := defuzzify_rs_raise c hasDefuzzifier raw s fz
  cases hrun : OutputVariable_defuzzify_rs.run c hasDefuzzifier raw s fz {} with
  | error q =>
    obtain ⟨err, σ⟩ := q
    rw [hrun] at hsim
    exact ⟨hr err σ hrun, hsim.symm⟩
  | ok σ =>
    rw [hrun] at hsim hf
    exact ⟨hf, _, hsim.symm, rfl, rfl⟩

/-! ## `Rule.parse` -/

/-- the record of the plain translation (started from the default record) that a record of the translation with
    `raise_state` stands for *before the last three statements*: the locals; the three attributes of `self` are not
    assigned yet -/
def ruleParseProj (σ : Rule_parse_rs.S) : Rule_parse.S :=
  { comment_index := σ.comment_index, rule := σ.rule, antecedent := σ.antecedent, consequent := σ.consequent,
    weight := σ.weight, state := σ.state, token := σ.token }

theorem ruleParse_rs_loop_sim (text a0 c0 : String) (w0 : X Rat) : ∀ (ts : List String) (σ : Rule_parse_rs.S),
    forget ruleParseProj (Rule_parse_rs.loop1 text a0 c0 w0 ts σ) = Rule_parse.loop1 text ts (ruleParseProj σ)
  | [], σ => rfl
  | t :: ts, σ => by
    have ih := ruleParse_rs_loop_sim text a0 c0 w0 ts
    simp only [Rule_parse_rs.loop1, Rule_parse.loop1, forget_ite, forget_inState_bind, forget_error, ih]
    rfl

/-- the loop assigns none of `self.antecedent.text`, `self.consequent.text`, `self.weight` -/
theorem ruleParse_rs_loop_keeps (text a0 c0 : String) (w0 : X Rat) (a c : String) (w : X Rat) : ∀ (ts : List String) (σ : Rule_parse_rs.S),
    (σ.self_antecedent_text = a ∧ σ.self_consequent_text = c ∧ σ.self_weight = w) →
    Keeps (fun τ => τ.self_antecedent_text = a ∧ τ.self_consequent_text = c ∧ τ.self_weight = w)
      (Rule_parse_rs.loop1 text a0 c0 w0 ts σ)
  | [], σ, h => h
  | t :: ts, σ, h => by
    have ih := ruleParse_rs_loop_keeps text a0 c0 w0 a c w ts
    simp only [Rule_parse_rs.loop1]
    refine keeps_ite _ _ _ _ (keeps_ite _ _ _ _ (ih _ h) h) (keeps_ite _ _ _ _ (keeps_ite _ _ _ _ (ih _ h) (ih _ h))
      (keeps_ite _ _ _ _ (keeps_ite _ _ _ _ (ih _ h) (ih _ h))
        (keeps_ite _ _ _ _ (keeps_inState_bind _ _ _ _ h fun v => ih _ h) (keeps_ite _ _ _ _ h h))))

/-- **`Rule.parse`, translated with the state kept at a raise.**  `a0`, `c0`, `w0` are the texts and the weight the rule
    holds before the call.  When the translated function raises - on any text - the record at the raise still has
    them (the source assigns the three attributes in its last three statements), and the plain translation (tied to
    the model `Op.ruleParse` by `code_ruleParse`) raises the same class; on success both assign the same values. -/
theorem code_ruleParse_raise_unchanged (text a0 c0 : String) (w0 : X Rat) :
    match Rule_parse_rs.run text a0 c0 w0 {} with
    | .error (err, σ) => (σ.self_antecedent_text = a0 ∧ σ.self_consequent_text = c0 ∧ σ.self_weight = w0) ∧
        Rule_parse.run text {} = .error err
    | .ok σ => ∃ σ', Rule_parse.run text {} = .ok σ' ∧ σ.self_antecedent_text = σ'.self_antecedent_text ∧
        σ.self_consequent_text = σ'.self_consequent_text ∧ σ.self_weight = σ'.self_weight := by
  unfold Rule_parse_rs.run Rule_parse.run
  simp only
  generalize hσ : ({ self_weight := w0, self_consequent_text := c0, self_antecedent_text := a0,
                     comment_index := Py.findChar text '#',
                     rule := (if (Py.findChar text '#' == (-1)) then text else Py.strPrefix text (Py.findChar text '#')),
                     antecedent := [], consequent := [], weight := X.fin 1, state := 0 } : Rule_parse_rs.S) = σ1
  have hk := ruleParse_rs_loop_keeps text a0 c0 w0 a0 c0 w0
    (Py.split (if (Py.findChar text '#' == (-1)) then text else Py.strPrefix text (Py.findChar text '#'))) σ1
    (by subst hσ; exact ⟨rfl, rfl, rfl⟩)
  have hs := ruleParse_rs_loop_sim text a0 c0 w0
    (Py.split (if (Py.findChar text '#' == (-1)) then text else Py.strPrefix text (Py.findChar text '#'))) σ1
  have hp : ruleParseProj σ1 = { comment_index := Py.findChar text '#',
                                 rule := (if (Py.findChar text '#' == (-1)) then text else Py.strPrefix text (Py.findChar text '#')),
                                 antecedent := [], consequent := [], weight := X.fin 1, state := 0 } := by subst hσ; rfl
  rw [hp] at hs
  rw [← hs]
  revert hk
  generalize Rule_parse_rs.loop1 text a0 c0 w0 _ σ1 = r
  intro hk
  cases r with
  | error q => exact ⟨hk, rfl⟩
  | ok τ =>
    simp only [forget_ok, bind, Except.bind]
    have h1 : (ruleParseProj τ).state = τ.state := rfl
    have h2 : (ruleParseProj τ).antecedent = τ.antecedent := rfl
    have h3 : (ruleParseProj τ).consequent = τ.consequent := rfl
    have h4 : (ruleParseProj τ).weight = τ.weight := rfl
    simp only [h1, h2, h3, h4]
    by_cases c1 : (τ.state == 0) = true
    · simp only [c1, if_true]; first | exact ⟨hk, trivial⟩ | exact ⟨hk, rfl⟩
    by_cases c2 : (τ.state == 1) = true
    · simp only [c1, c2, Bool.false_eq_true, if_true, if_false]; first | exact ⟨hk, trivial⟩ | exact ⟨hk, rfl⟩
    by_cases c3 : (τ.state == 3) = true
    · simp only [c1, c2, c3, Bool.false_eq_true, if_true, if_false]; first | exact ⟨hk, trivial⟩ | exact ⟨hk, rfl⟩
    by_cases c4 : (!(!(τ.antecedent).isEmpty)) = true
    · simp only [c1, c2, c3, c4, Bool.false_eq_true, if_true, if_false]; first | exact ⟨hk, trivial⟩ | exact ⟨hk, rfl⟩
    by_cases c5 : (!(!(τ.consequent).isEmpty)) = true
    · simp only [c1, c2, c3, c4, c5, Bool.false_eq_true, if_true, if_false]; first | exact ⟨hk, trivial⟩ | exact ⟨hk, rfl⟩
    simp only [c1, c2, c3, c4, c5, Bool.false_eq_true, if_false]
    exact ⟨_, rfl, rfl, rfl, rfl⟩

end Op
