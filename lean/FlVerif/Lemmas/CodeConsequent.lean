import FlVerif.Gen.CodeConsequent

/-! # Tie A for `Consequent.modify`: the definition translated from the current source equals the model
`Op.Consequent.modifyPinned` (the loop that carries the hedged degree into the following conclusions, finding F3)

The model works on *loaded* conclusions (`Spec.Consequent.Concl`: a variable and a term are present, the variable
is an output variable).  The translated code works on raw `Proposition` objects and raises when one of them is not
of that kind; `defect` says which exception the first such proposition causes, `toConcl` is the view of a raw
proposition as a loaded conclusion. -/

namespace Py.Cons
open Spec.Consequent

/-- the exception `Consequent.modify` raises when it reaches this proposition (`none`: it does not raise):
    no variable or a variable without terms – `ValueError`; on an enabled variable: no term – `ValueError`,
    not an output variable – `RuntimeError`.  A proposition on a disabled variable is skipped unexamined. -/
def defect (p : Proposition) : Option Py.Err :=
  match p.var with
  | none => some .value
  | some v =>
    if !v.truthy then some .value
    else if v.enabled then
      (if p.term.isNone then some .value else if !v.isOutput then some .runtime else none)
    else none

/-- a raw proposition seen as a loaded conclusion -/
def toConcl (p : Proposition) : Concl (X Rat) :=
  { var := (p.var.map (·.name)).getD "", enabled := (p.var.map (·.enabled)).getD false,
    hedges := p.hedges, term := p.term.getD "" }

/-- a loaded conclusion as the `Proposition` object `Consequent.load` builds for it -/
def ofConcl (c : Concl (X Rat)) : Proposition :=
  { var := some { name := c.var, truthy := true, enabled := c.enabled, isOutput := true },
    hedges := c.hedges, term := some c.term }

theorem toConcl_ofConcl (c : Concl (X Rat)) : toConcl (ofConcl c) = c := rfl

theorem defect_ofConcl (c : Concl (X Rat)) : defect (ofConcl c) = none := by
  cases h : c.enabled <;> simp [defect, ofConcl, h]

end Py.Cons

namespace Op.Consequent
open Spec.Consequent Gen.Code Py.Cons

/-- the hedge loop of the translated code: the degree after it is the fold of the model, nothing else that
    matters changes -/
theorem code_hedgeLoop (san : X Rat → X Rat) (impl : String) (d : X Rat) (ps : List Proposition) :
    ∀ (hs : List (X Rat → X Rat)) (σ : Consequent_modify.S),
      ∃ σ', Consequent_modify.loop2 san impl d ps hs σ = .ok σ' ∧
        σ'.activation_degree = hs.foldl (fun acc h => h acc) σ.activation_degree ∧
        σ'.out = σ.out ∧ σ'.proposition = σ.proposition
  | [], σ => ⟨σ, rfl, rfl, rfl, rfl⟩
  | h :: hs, σ => by
    simp only [Consequent_modify.loop2, List.foldl_cons]
    exact code_hedgeLoop san impl d ps hs { σ with hedge := h, activation_degree := h σ.activation_degree }

/-- the loop over the conclusions: the first defective proposition decides the exception; without one the
    contributions appended are those of the model, started from the degree the state carries -/
theorem code_modifyLoop (san : X Rat → X Rat) (impl : String) (d : X Rat) (all : List Proposition) :
    ∀ (ps : List Proposition) (σ : Consequent_modify.S),
      match ps.findSome? defect with
      | some e => Consequent_modify.loop1 san impl d all ps σ = .error e
      | none => ∃ σ', Consequent_modify.loop1 san impl d all ps σ = .ok σ' ∧
          σ'.out = σ.out ++ modifyPinned san impl σ.activation_degree (ps.map toConcl)
  | [], σ => by
    simp only [List.findSome?_nil, Consequent_modify.loop1, List.map_nil, modifyPinned, List.append_nil]
    exact ⟨σ, rfl, rfl⟩
  | p :: ps, σ => by
    obtain ⟨pv, ph, pt⟩ := p
    cases pv with
    | none => simp [List.findSome?_cons, defect, Consequent_modify.loop1, varTruth]
    | some v =>
      obtain ⟨vn, vt, ve, vo⟩ := v
      cases vt
      · simp [defect, Consequent_modify.loop1, varTruth]
      · cases ve
        · -- a disabled variable: skipped
          have ih := code_modifyLoop san impl d all ps { σ with proposition := ⟨some ⟨vn, true, false, vo⟩, ph, pt⟩ }
          simp only [List.findSome?_cons, defect, Bool.not_true, Bool.false_eq_true, if_false,
            Consequent_modify.loop1, varTruth, Py.deref_some, bind, Except.bind, List.map_cons, toConcl,
            Option.map_some, Option.getD_some, modifyPinned] at ih ⊢
          exact ih
        · -- an enabled variable
          obtain ⟨σ₂, h2, hd, ho, hp⟩ := code_hedgeLoop san impl d all ph.reverse
            { σ with proposition := ⟨some ⟨vn, true, true, vo⟩, ph, pt⟩ }
          simp only at hd ho hp
          cases pt with
          | none =>
            simp [defect, Consequent_modify.loop1, varTruth, bind, Except.bind, h2, hp]
          | some t =>
            cases vo
            · simp [defect, Consequent_modify.loop1, varTruth, bind, Except.bind, h2, hp]
            · have ih := code_modifyLoop san impl d all ps
                { σ₂ with activated_term := mkActivated san t σ₂.activation_degree impl,
                          out := σ₂.out ++ [contributionOf ⟨vn, true, true, true⟩ (mkActivated san t σ₂.activation_degree impl)] }
              simp only [List.findSome?_cons, defect, Bool.not_true, Bool.false_eq_true, if_false, if_true,
                Option.isNone_some, Consequent_modify.loop1, varTruth, Py.deref_some, bind, Except.bind,
                List.map_cons, toConcl, Option.map_some, Option.getD_some, modifyPinned, h2, hp,
                Option.isSome_some] at ih ⊢
              cases hf : ps.findSome? defect with
              | some e => rw [hf] at ih; simpa using ih
              | none =>
                rw [hf] at ih
                obtain ⟨σ', h', hout⟩ := ih
                refine ⟨σ', h', ?_⟩
                rw [hout, ho, hd]
                simp [hedgeLoop, activated, contributionOf, mkActivated, List.append_assoc]

theorem code_modify_from (san : X Rat → X Rat) (impl : String) (d : X Rat) (ps : List Proposition)
    (σ₀ : Consequent_modify.S) (h₀ : σ₀.out = []) :
    if ps = [] then Consequent_modify.run san impl d ps σ₀ = .error .runtime
    else match ps.findSome? defect with
      | some e => Consequent_modify.run san impl d ps σ₀ = .error e
      | none => ∃ σ, Consequent_modify.run san impl d ps σ₀ = .ok σ ∧
          σ.out = modifyPinned san impl d (ps.map toConcl) := by
  cases ps with
  | nil => simp [Consequent_modify.run]
  | cons p ps =>
    have hl := code_modifyLoop san impl d (p :: ps) (p :: ps) { σ₀ with activation_degree := d }
    simp only [reduceCtorEq, if_false, Consequent_modify.run, List.isEmpty_cons, Bool.not_false, Bool.not_true,
      Bool.false_eq_true]
    cases hf : (p :: ps).findSome? defect with
    | some e => rw [hf] at hl; simp only at hl ⊢; simp only [hl, bind, Except.bind]
    | none =>
      rw [hf] at hl
      obtain ⟨σ', h', hout⟩ := hl
      refine ⟨σ', by simp only [h', bind, Except.bind], ?_⟩
      simpa [h₀] using hout

/-- **`Consequent.modify` as translated from the source = the model `Op.Consequent.modifyPinned`.** -/
theorem code_modify (san : X Rat → X Rat) (impl : String) (d : X Rat) (ps : List Proposition) :
    if ps = [] then Consequent_modify.run san impl d ps {} = .error .runtime
    else match ps.findSome? defect with
      | some e => Consequent_modify.run san impl d ps {} = .error e
      | none => ∃ σ, Consequent_modify.run san impl d ps {} = .ok σ ∧
          σ.out = modifyPinned san impl d (ps.map toConcl) :=
  code_modify_from san impl d ps {} rfl

/-- … in particular on the conclusions of a loaded consequent -/
theorem code_modify_loaded (san : X Rat → X Rat) (impl : String) (d : X Rat) (cs : List (Concl (X Rat)))
    (hne : cs ≠ []) :
    ∃ σ, Consequent_modify.run san impl d (cs.map ofConcl) {} = .ok σ ∧ σ.out = modifyPinned san impl d cs := by
  have h := code_modify san impl d (cs.map ofConcl)
  have hnil : cs.map ofConcl ≠ [] := by simpa using hne
  have hdef : (cs.map ofConcl).findSome? defect = none := by
    rw [List.findSome?_eq_none_iff]
    intro p hp
    obtain ⟨c, _, rfl⟩ := List.mem_map.1 hp
    exact defect_ofConcl c
  simp only [hnil, if_false, hdef] at h
  obtain ⟨σ, h1, h2⟩ := h
  refine ⟨σ, h1, ?_⟩
  rw [h2, List.map_map]
  congr 1
  exact List.map_id'' (fun c => toConcl_ofConcl c) cs

end Op.Consequent
