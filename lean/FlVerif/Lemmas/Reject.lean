import FlVerif.Op.ParsePostfix
import FlVerif.Lemmas.Expr
import FlVerif.Lemmas.ParsePostfix

/-! Rejection of ill-formed formulas, for every token list:
    * the loop only moves tokens, so the *operand balance* `Σ (1 − arity)` of the postfix form is the one of the input,
      and the stack machine ends with exactly one tree only if the balance is 1;
    * the number of `(` on the stack is `#( − #)` read so far, so a text with `#( ≠ #)` is rejected;
    * the only error these functions produce is `syntax`. -/

namespace Op
open Lang

/-- operand balance of a token: an operand or constant supplies one value, an element of arity `n` consumes `n` and
    supplies one -/
def wt : Tok → Int
  | .operand _ => 1
  | .el f => 1 - (f.arity : Int)
  | _ => 0

def wsum : List Tok → Int
  | [] => 0
  | t :: ts => wt t + wsum ts

theorem wsum_append (a b : List Tok) : wsum (a ++ b) = wsum a + wsum b := by
  induction a with
  | nil => simp [wsum]
  | cons t a ih => simp [wsum, ih, Int.add_assoc]

theorem popOps_wsum (e : Elem) (st : List Tok) : wsum (popOps e st).1 + wsum (popOps e st).2 = wsum st := by
  induction st with
  | nil => simp [popOps, wsum]
  | cons t st ih =>
    cases t with
    | el top =>
      simp only [popOps]
      split
      · simp only [wsum]; omega
      · simp [wsum]
    | _ => simp [popOps, wsum]

theorem popToParen_wsum {st a r : List Tok} (h : popToParen st = some (a, r)) : wsum a + wsum r = wsum st := by
  induction st generalizing a r with
  | nil => simp [popToParen] at h
  | cons t st ih =>
    cases t with
    | lp => simp [popToParen] at h; obtain ⟨rfl, rfl⟩ := h; simp [wsum]
    | operand s =>
      simp only [popToParen, Option.map_eq_some_iff] at h
      obtain ⟨⟨a', r'⟩, h', he⟩ := h
      simp only [Prod.mk.injEq] at he; obtain ⟨rfl, rfl⟩ := he
      have := ih h'; simp only [wsum]; omega
    | el f =>
      simp only [popToParen, Option.map_eq_some_iff] at h
      obtain ⟨⟨a', r'⟩, h', he⟩ := h
      simp only [Prod.mk.injEq] at he; obtain ⟨rfl, rfl⟩ := he
      have := ih h'; simp only [wsum]; omega
    | comma =>
      simp only [popToParen, Option.map_eq_some_iff] at h
      obtain ⟨⟨a', r'⟩, h', he⟩ := h
      simp only [Prod.mk.injEq] at he; obtain ⟨rfl, rfl⟩ := he
      have := ih h'; simp only [wsum]; omega
    | rp =>
      simp only [popToParen, Option.map_eq_some_iff] at h
      obtain ⟨⟨a', r'⟩, h', he⟩ := h
      simp only [Prod.mk.injEq] at he; obtain ⟨rfl, rfl⟩ := he
      have := ih h'; simp only [wsum]; omega

/-- the loop preserves the operand balance -/
theorem sy_wsum : ∀ (ts q st out : List Tok), sy ts q st = .ok out → wsum out = wsum ts + wsum q + wsum st := by
  intro ts
  induction ts with
  | nil =>
    intro q st out h
    simp only [sy] at h
    split at h
    · simp only [Except.ok.injEq] at h; subst h; simp [wsum_append, wsum]
    · cases h
  | cons t ts ih =>
    intro q st out h
    cases t with
    | operand s =>
      simp only [sy] at h
      have := ih _ _ _ h
      simp only [wsum_append, wsum, wt] at this ⊢; omega
    | el e =>
      simp only [sy] at h
      split at h
      · have := ih _ _ _ h
        have hp := popOps_wsum e st
        simp only [wsum_append, wsum] at this ⊢; omega
      · have := ih _ _ _ h
        simp only [wsum] at this ⊢; omega
    | comma =>
      simp only [sy] at h
      split at h
      · cases h
      · rename_i a r hp
        have := ih _ _ _ h
        have hw := popToParen_wsum hp
        simp only [wsum_append, wsum, wt] at this ⊢; omega
    | lp =>
      simp only [sy] at h
      have := ih _ _ _ h
      simp only [wsum, wt] at this ⊢; omega
    | rp =>
      simp only [sy] at h
      split at h
      · rename_i a f r hp
        have hw := popToParen_wsum hp
        split at h
        · have := ih _ _ _ h
          simp only [wsum_append, wsum, wt] at this hw ⊢; omega
        · have := ih _ _ _ h
          simp only [wsum_append, wsum, wt] at this hw ⊢; omega
      · rename_i a r _ hp
        have hw := popToParen_wsum hp
        have := ih _ _ _ h
        simp only [wsum_append, wsum, wt] at this hw ⊢; omega
      · cases h

/-- every element token has arity at most two -/
def SmallArity (ts : List Tok) : Prop := ∀ f, Tok.el f ∈ ts → f.arity ≤ 2

/-- the stack machine changes the stack height by the operand balance -/
theorem build_length : ∀ (ts : List Tok) (stk out : List Expr), SmallArity ts → build ts stk = .ok out →
    (out.length : Int) = stk.length + wsum ts := by
  intro ts
  induction ts with
  | nil => intro stk out _ h; simp only [build, Except.ok.injEq] at h; subst h; simp [wsum]
  | cons t ts ih =>
    intro stk out hs h
    have hs' : SmallArity ts := fun f hf => hs f (by simp [hf])
    cases t with
    | operand s =>
      simp only [build] at h
      have := ih _ _ hs' h
      simp only [wsum, wt, List.length_cons] at this ⊢; omega
    | el f =>
      have hf2 := hs f (by simp)
      simp only [build] at h
      split at h
      · cases h
      · split at h
        · rename_i h0
          have := ih _ _ hs' h
          simp only [wsum, wt, List.length_cons, h0] at this ⊢; omega
        · split at h
          · rename_i h2
            split at h
            · have := ih _ _ hs' h
              simp only [wsum, wt, List.length_cons, h2] at this ⊢; omega
            · cases h
          · rename_i h0 h2
            have h1 : f.arity = 1 := by omega
            split at h
            · have := ih _ _ hs' h
              simp only [wsum, wt, List.length_cons, h1] at this ⊢; omega
            · cases h
    | comma => simp only [build] at h; have := ih _ _ hs' h; simp only [wsum, wt] at this ⊢; omega
    | lp => simp only [build] at h; have := ih _ _ hs' h; simp only [wsum, wt] at this ⊢; omega
    | rp => simp only [build] at h; have := ih _ _ hs' h; simp only [wsum, wt] at this ⊢; omega

/-! ## error kinds -/

theorem sy_error : ∀ (ts q st : List Tok) (k : ErrKind), sy ts q st = .error k → k = .syntax := by
  intro ts
  induction ts with
  | nil =>
    intro q st k h
    simp only [sy] at h
    split at h
    · cases h
    · simp only [Except.error.injEq] at h; exact h.symm
  | cons t ts ih =>
    intro q st k h
    cases t with
    | operand s => simp only [sy] at h; exact ih _ _ _ h
    | el e =>
      simp only [sy] at h
      split at h <;> exact ih _ _ _ h
    | comma =>
      simp only [sy] at h
      split at h
      · simp only [Except.error.injEq] at h; exact h.symm
      · exact ih _ _ _ h
    | lp => simp only [sy] at h; exact ih _ _ _ h
    | rp =>
      simp only [sy] at h
      split at h
      · split at h <;> exact ih _ _ _ h
      · exact ih _ _ _ h
      · simp only [Except.error.injEq] at h; exact h.symm

theorem build_error : ∀ (ts : List Tok) (stk : List Expr) (k : ErrKind), build ts stk = .error k → k = .syntax := by
  intro ts
  induction ts with
  | nil => intro stk k h; simp [build] at h
  | cons t ts ih =>
    intro stk k h
    cases t with
    | operand s => simp only [build] at h; exact ih _ _ h
    | el f =>
      simp only [build] at h
      split at h
      · simp only [Except.error.injEq] at h; exact h.symm
      · split at h
        · exact ih _ _ h
        · split at h
          · split at h
            · exact ih _ _ h
            · simp only [Except.error.injEq] at h; exact h.symm
          · split at h
            · exact ih _ _ h
            · simp only [Except.error.injEq] at h; exact h.symm
    | comma => simp only [build] at h; exact ih _ _ h
    | lp => simp only [build] at h; exact ih _ _ h
    | rp => simp only [build] at h; exact ih _ _ h

theorem parsePostfixTok_error {ts : List Tok} {k : ErrKind} (h : parsePostfixTok ts = .error k) : k = .syntax := by
  unfold parsePostfixTok at h
  split at h
  · cases h
  · simp only [Except.error.injEq] at h; exact h.symm
  · rename_i k' hb
    simp only [Except.error.injEq] at h; subst h
    exact build_error _ _ _ hb

/-- the only error of `Function.parse` is a `SyntaxError` -/
theorem parseFormula_error {tbl : Table} {toks : List String} {k : ErrKind}
    (h : parseFormula tbl toks = .error k) : k = .syntax := by
  unfold parseFormula at h
  split at h
  · exact parsePostfixTok_error h
  · rename_i k' hp
    simp only [Except.error.injEq] at h; subst h
    unfold toPostfix at hp
    cases hs : sy (toks.map (classify tbl)) [] [] with
    | ok v => rw [hs] at hp; cases hp
    | error k'' =>
      rw [hs] at hp
      simp only [Except.map, Except.error.injEq] at hp; subst hp
      exact sy_error _ _ _ _ hs

/-! ## parentheses -/

def nlp : List Tok → Nat
  | [] => 0
  | .lp :: ts => nlp ts + 1
  | _ :: ts => nlp ts
def nrp : List Tok → Nat
  | [] => 0
  | .rp :: ts => nrp ts + 1
  | _ :: ts => nrp ts

theorem popOps_nlp (e : Elem) (st : List Tok) : nlp (popOps e st).2 = nlp st := by
  induction st with
  | nil => rfl
  | cons t st ih =>
    cases t with
    | el top =>
      simp only [popOps]
      split
      · simpa [nlp] using ih
      · rfl
    | _ => simp [popOps]

theorem popToParen_nlp {st a r : List Tok} (h : popToParen st = some (a, r)) : nlp r = nlp st ∧ ∃ r', r = .lp :: r' := by
  induction st generalizing a r with
  | nil => simp [popToParen] at h
  | cons t st ih =>
    cases t with
    | lp => simp [popToParen] at h; obtain ⟨rfl, rfl⟩ := h; exact ⟨rfl, _, rfl⟩
    | operand s =>
      simp only [popToParen, Option.map_eq_some_iff] at h
      obtain ⟨⟨a', r'⟩, h', he⟩ := h
      simp only [Prod.mk.injEq] at he; obtain ⟨rfl, rfl⟩ := he
      simpa [nlp] using ih h'
    | el f =>
      simp only [popToParen, Option.map_eq_some_iff] at h
      obtain ⟨⟨a', r'⟩, h', he⟩ := h
      simp only [Prod.mk.injEq] at he; obtain ⟨rfl, rfl⟩ := he
      simpa [nlp] using ih h'
    | comma =>
      simp only [popToParen, Option.map_eq_some_iff] at h
      obtain ⟨⟨a', r'⟩, h', he⟩ := h
      simp only [Prod.mk.injEq] at he; obtain ⟨rfl, rfl⟩ := he
      simpa [nlp] using ih h'
    | rp =>
      simp only [popToParen, Option.map_eq_some_iff] at h
      obtain ⟨⟨a', r'⟩, h', he⟩ := h
      simp only [Prod.mk.injEq] at he; obtain ⟨rfl, rfl⟩ := he
      simpa [nlp] using ih h'

/-- if the loop succeeds, the parentheses still on the stack are closed by the rest of the text, exactly -/
theorem sy_parens : ∀ (ts q st out : List Tok), sy ts q st = .ok out → nlp st + nlp ts = nrp ts := by
  intro ts
  induction ts with
  | nil =>
    intro q st out h
    simp only [sy] at h
    split at h
    · rename_i hall
      have : nlp st = 0 := by
        clear h
        induction st with
        | nil => rfl
        | cons t st ih =>
          simp only [List.all_cons, Bool.and_eq_true] at hall
          cases t <;> simp_all [nlp]
      simp [this, nlp, nrp]
    · cases h
  | cons t ts ih =>
    intro q st out h
    cases t with
    | operand s => simp only [sy] at h; have := ih _ _ _ h; simpa [nlp, nrp] using this
    | el e =>
      simp only [sy] at h
      split at h
      · have := ih _ _ _ h
        simp only [nlp, popOps_nlp] at this; simpa [nlp, nrp] using this
      · have := ih _ _ _ h; simpa [nlp, nrp] using this
    | comma =>
      simp only [sy] at h
      split at h
      · cases h
      · rename_i a r hp
        have := ih _ _ _ h
        rw [(popToParen_nlp hp).1] at this; simpa [nlp, nrp] using this
    | lp => simp only [sy] at h; have := ih _ _ _ h; simp only [nlp, nrp] at this ⊢; omega
    | rp =>
      simp only [sy] at h
      split at h
      · rename_i a f r hp
        have hn := (popToParen_nlp hp).1
        split at h
        · have := ih _ _ _ h; simp only [nlp, nrp] at this hn ⊢; omega
        · have := ih _ _ _ h; simp only [nlp, nrp] at this hn ⊢; omega
      · rename_i a r _ hp
        have hn := (popToParen_nlp hp).1
        have := ih _ _ _ h; simp only [nlp, nrp] at this hn ⊢; omega
      · cases h

end Op

namespace Op
open Lang

theorem popOps_mem (e : Elem) (st : List Tok) (t : Tok) :
    (t ∈ (popOps e st).1 → t ∈ st) ∧ (t ∈ (popOps e st).2 → t ∈ st) := by
  induction st with
  | nil => simp [popOps]
  | cons u st ih =>
    cases u with
    | el top =>
      simp only [popOps]
      split
      · constructor
        · intro h; rcases List.mem_cons.1 h with h | h
          · simp [h]
          · exact List.mem_cons_of_mem _ (ih.1 h)
        · intro h; exact List.mem_cons_of_mem _ (ih.2 h)
      · simp
    | _ => simp [popOps]

theorem popToParen_mem {st a r : List Tok} (h : popToParen st = some (a, r)) (t : Tok) :
    (t ∈ a → t ∈ st) ∧ (t ∈ r → t ∈ st) := by
  induction st generalizing a r with
  | nil => simp [popToParen] at h
  | cons u st ih =>
    cases u with
    | lp => simp [popToParen] at h; obtain ⟨rfl, rfl⟩ := h; simp
    | operand s =>
      simp only [popToParen, Option.map_eq_some_iff] at h
      obtain ⟨⟨a', r'⟩, h', he⟩ := h
      simp only [Prod.mk.injEq] at he; obtain ⟨rfl, rfl⟩ := he
      have := ih h'
      constructor
      · intro hm; rcases List.mem_cons.1 hm with hm | hm
        · simp [hm]
        · exact List.mem_cons_of_mem _ (this.1 hm)
      · intro hm; exact List.mem_cons_of_mem _ (this.2 hm)
    | el f =>
      simp only [popToParen, Option.map_eq_some_iff] at h
      obtain ⟨⟨a', r'⟩, h', he⟩ := h
      simp only [Prod.mk.injEq] at he; obtain ⟨rfl, rfl⟩ := he
      have := ih h'
      constructor
      · intro hm; rcases List.mem_cons.1 hm with hm | hm
        · simp [hm]
        · exact List.mem_cons_of_mem _ (this.1 hm)
      · intro hm; exact List.mem_cons_of_mem _ (this.2 hm)
    | comma =>
      simp only [popToParen, Option.map_eq_some_iff] at h
      obtain ⟨⟨a', r'⟩, h', he⟩ := h
      simp only [Prod.mk.injEq] at he; obtain ⟨rfl, rfl⟩ := he
      have := ih h'
      constructor
      · intro hm; rcases List.mem_cons.1 hm with hm | hm
        · simp [hm]
        · exact List.mem_cons_of_mem _ (this.1 hm)
      · intro hm; exact List.mem_cons_of_mem _ (this.2 hm)
    | rp =>
      simp only [popToParen, Option.map_eq_some_iff] at h
      obtain ⟨⟨a', r'⟩, h', he⟩ := h
      simp only [Prod.mk.injEq] at he; obtain ⟨rfl, rfl⟩ := he
      have := ih h'
      constructor
      · intro hm; rcases List.mem_cons.1 hm with hm | hm
        · simp [hm]
        · exact List.mem_cons_of_mem _ (this.1 hm)
      · intro hm; exact List.mem_cons_of_mem _ (this.2 hm)

/-- the loop only moves tokens: whatever holds of all tokens of the input, the queue and the stack holds of all
    tokens of the output -/
theorem sy_mem : ∀ (ts q st out : List Tok), sy ts q st = .ok out →
    ∀ P : Tok → Prop, (∀ t ∈ ts, P t) → (∀ t ∈ q, P t) → (∀ t ∈ st, P t) → ∀ t ∈ out, P t := by
  intro ts
  induction ts with
  | nil =>
    intro q st out h P _ hq hst t ht
    simp only [sy] at h
    split at h
    · simp only [Except.ok.injEq] at h; subst h
      rcases List.mem_append.1 ht with h | h
      · exact hq t h
      · exact hst t h
    · cases h
  | cons u ts ih =>
    intro q st out h P hts hq hst t ht
    have hts' : ∀ t ∈ ts, P t := fun t h => hts t (List.mem_cons_of_mem _ h)
    have hu : P u := hts u (by simp)
    cases u with
    | operand s =>
      simp only [sy] at h
      refine ih _ _ _ h P hts' ?_ hst t ht
      intro t h; rcases List.mem_append.1 h with h | h
      · exact hq t h
      · simp at h; subst h; exact hu
    | el e =>
      simp only [sy] at h
      split at h
      · refine ih _ _ _ h P hts' ?_ ?_ t ht
        · intro t h; rcases List.mem_append.1 h with h | h
          · exact hq t h
          · exact hst t ((popOps_mem e st t).1 h)
        · intro t h; rcases List.mem_cons.1 h with h | h
          · subst h; exact hu
          · exact hst t ((popOps_mem e st t).2 h)
      · refine ih _ _ _ h P hts' hq ?_ t ht
        intro t h; rcases List.mem_cons.1 h with h | h
        · subst h; exact hu
        · exact hst t h
    | comma =>
      simp only [sy] at h
      split at h
      · cases h
      · rename_i a r hp
        refine ih _ _ _ h P hts' ?_ ?_ t ht
        · intro t h; rcases List.mem_append.1 h with h | h
          · exact hq t h
          · exact hst t ((popToParen_mem hp t).1 h)
        · intro t h; exact hst t ((popToParen_mem hp t).2 h)
    | lp =>
      simp only [sy] at h
      refine ih _ _ _ h P hts' hq ?_ t ht
      intro t h; rcases List.mem_cons.1 h with h | h
      · subst h; exact hu
      · exact hst t h
    | rp =>
      simp only [sy] at h
      split at h
      · rename_i a f r hp
        have hm := popToParen_mem hp
        split at h
        · refine ih _ _ _ h P hts' ?_ ?_ t ht
          · intro t h; rcases List.mem_append.1 h with h | h
            · exact hq t h
            · exact hst t ((hm t).1 h)
          · intro t h; exact hst t ((hm t).2 (List.mem_cons_of_mem _ h))
        · refine ih _ _ _ h P hts' ?_ ?_ t ht
          · intro t h
            simp only [List.mem_append, List.mem_singleton] at h
            rcases h with (h | h) | h
            · exact hq t h
            · exact hst t ((hm t).1 h)
            · subst h; exact hst _ ((hm _).2 (by simp))
          · intro t h; exact hst t ((hm t).2 (by simp [h]))
      · rename_i a r _ hp
        have hm := popToParen_mem hp
        refine ih _ _ _ h P hts' ?_ ?_ t ht
        · intro t h; rcases List.mem_append.1 h with h | h
          · exact hq t h
          · exact hst t ((hm t).1 h)
        · intro t h; exact hst t ((hm t).2 (List.mem_cons_of_mem _ h))
      · cases h

end Op

namespace Op
open Lang

/-- what the stack machine guarantees of every tree it builds: node kinds agree with the arities, and every token of
    its postfix form satisfies `P` (when every input token does) -/
theorem build_inv (P : Tok → Prop) : ∀ (ts : List Tok) (stk out : List Expr), SmallArity ts → (∀ t ∈ ts, P t) →
    (∀ e ∈ stk, Arities e ∧ ∀ t ∈ e.pfx, P t) → build ts stk = .ok out → ∀ e ∈ out, Arities e ∧ ∀ t ∈ e.pfx, P t := by
  intro ts
  induction ts with
  | nil => intro stk out _ _ hs h; simp only [build, Except.ok.injEq] at h; subst h; exact hs
  | cons t ts ih =>
    intro stk out hsa hP hs h
    have hsa' : SmallArity ts := fun f hf => hsa f (by simp [hf])
    have hP' : ∀ t ∈ ts, P t := fun x hx => hP x (by simp [hx])
    have hPt : P t := hP t (by simp)
    cases t with
    | operand s =>
      simp only [build] at h
      refine ih _ _ hsa' hP' ?_ h
      intro e he
      rcases List.mem_cons.1 he with he | he
      · subst he; exact ⟨trivial, by intro t ht; simp [Expr.pfx] at ht; subst ht; exact hPt⟩
      · exact hs e he
    | el f =>
      have hf2 := hsa f (by simp)
      simp only [build] at h
      split at h
      · cases h
      · split at h
        · rename_i h0
          refine ih _ _ hsa' hP' ?_ h
          intro e he
          rcases List.mem_cons.1 he with he | he
          · subst he; exact ⟨h0, by intro t ht; simp [Expr.pfx] at ht; subst ht; exact hPt⟩
          · exact hs e he
        · split at h
          · rename_i h2
            match stk, hs, h with
            | r :: l :: s, hs, h =>
              refine ih _ _ hsa' hP' ?_ h
              intro e he
              rcases List.mem_cons.1 he with he | he
              · subst he
                have hl := hs l (by simp)
                have hr := hs r (by simp)
                refine ⟨⟨h2, hl.1, hr.1⟩, ?_⟩
                intro t ht
                simp only [Expr.pfx, List.mem_append, List.mem_singleton] at ht
                rcases ht with (ht | ht) | ht
                · exact hl.2 t ht
                · exact hr.2 t ht
                · subst ht; exact hPt
              · exact hs e (by simp [he])
          · rename_i h0 h2
            have h1 : f.arity = 1 := by omega
            match stk, hs, h with
            | r :: s, hs, h =>
              refine ih _ _ hsa' hP' ?_ h
              intro e he
              rcases List.mem_cons.1 he with he | he
              · subst he
                have hr := hs r (by simp)
                refine ⟨⟨h1, hr.1⟩, ?_⟩
                intro t ht
                simp only [Expr.pfx, List.mem_append, List.mem_singleton] at ht
                rcases ht with ht | ht
                · exact hr.2 t ht
                · subst ht; exact hPt
              · exact hs e (by simp [he])
    | comma => simp only [build] at h; exact ih _ _ hsa' hP' hs h
    | lp => simp only [build] at h; exact ih _ _ hsa' hP' hs h
    | rp => simp only [build] at h; exact ih _ _ hsa' hP' hs h

end Op
