import FlVerif.Gen.CodeFunctionParse
import FlVerif.Lemmas.CodeFunction

/-! # Tie A for the second half of `Function.parse`: the stack machine translated from the current source equals the
    model `Op.parsePostfix` / `Op.build`

The code builds `Function.Node` objects (`Py.Node`), the model expression trees `Lang.Expr`.  A leaf of the model
keeps the token; the code decides at once whether it is a number (`to_float(token)` succeeds: a constant node) or a
variable (`ValueError`: a variable node).  `Expr.toNode` is that decision applied to a tree, and the stack of the
code is at every point the image of the stack of the model. -/

set_option linter.unusedSimpArgs false

namespace Lang

/-- the `Function.Node` tree that `Function.parse` builds for an expression tree: the operand of a unary element
    is stored on the right, a leaf is a constant when `float(token)` succeeds and a variable otherwise
    (`words` does not occur in formulas) -/
def Expr.toNode : Expr → Py.Node
  | .leaf s => match parseFloat s with
    | some v => { constant := v }
    | none => { variable_ := s }
  | .words ws => { variable_ := " ".intercalate ws }
  | .app0 f => { element := some f }
  | .app1 f x => { element := some f, right := some x.toNode }
  | .app2 f l r => { element := some f, left := some l.toNode, right := some r.toNode }

theorem ErrKind.errOfKind_eq (e : ErrKind) : Py.errOfKind e = e.toPy := by cases e <;> rfl

end Lang

namespace CodeFn
open Lang Op Gen.Code

/-- what the model's stack machine and the translated loop have in common: the exception class, or the stack -/
def AgreeB (r : Except ErrKind (List Expr)) (g : Py.M Function_parse.S) : Prop :=
  match r with
  | .error e => g = .error e.toPy
  | .ok stk => ∃ σ', g = .ok σ' ∧ σ'.stack = stk.map Expr.toNode

theorem code_build (tbl : Table) (formula : String) : ∀ (ts : List String) (σ : Function_parse.S) (stk : List Expr),
    σ.stack = stk.map Expr.toNode →
    AgreeB (build (ts.map (classify tbl)) stk) (Function_parse.loop1 tbl formula ts σ)
  | [], σ, stk, hs => by
    simp only [List.map_nil, build, Function_parse.loop1, AgreeB]
    exact ⟨σ, rfl, hs⟩
  | t :: ts, σ, stk, hs => by
    have hlen : σ.stack.length = stk.length := by rw [hs, List.length_map]
    cases hl : tbl.lookup t with
    | some f =>
      simp only [List.map_cons, classify_of_lookup hl, build]
      simp only [Function_parse.loop1, Py.copyElem, hl, Option.isSome_some, if_true, Py.deref_some, ok_bind, hlen, gt_iff_lt,
        ge_iff_le]
      by_cases hlt : stk.length < f.arity
      · simp only [hlt, if_true, decide_true, AgreeB, ErrKind.toPy]
      · simp only [hlt, if_false, decide_false, Bool.false_eq_true]
        by_cases h0 : f.arity = 0
        · have g1 : ¬ (1 ≤ f.arity) := by omega
          have g2 : (f.arity == 2) = false := by simp [h0]
          simp only [h0, if_true, g1, g2, decide_false, Bool.false_eq_true, if_false]
          exact code_build tbl formula ts _ _ (by simp [hs, Expr.toNode])
        · have g1 : 1 ≤ f.arity := by omega
          simp only [h0, if_false, g1, decide_true, if_true]
          by_cases h2 : f.arity = 2
          · have g2 : (f.arity == 2) = true := by simp [h2]
            simp only [h2, if_true, g2]
            match stk, hs, hlt with
            | [], _, hlt => exact absurd (by rw [h2]; exact Nat.zero_lt_two) hlt
            | [_], _, hlt => exact absurd (by rw [h2]; exact Nat.one_lt_two) hlt
            | r :: l :: s, hs, _ =>
              simp only [List.map_cons] at hs
              simp only [hs, Py.popTop_cons, ok_bind]
              exact code_build tbl formula ts _ _ (by simp [Expr.toNode])
          · have g2 : (f.arity == 2) = false := by simp [h2]
            simp only [h2, if_false, g2, Bool.false_eq_true]
            match stk, hs, hlt with
            | [], _, hlt => exact absurd (by simp only [List.length_nil]; omega) hlt
            | r :: s, hs, _ =>
              simp only [List.map_cons] at hs
              simp only [hs, Py.popTop_cons, ok_bind]
              exact code_build tbl formula ts _ _ (by simp [Expr.toNode])
    | none =>
      simp only [List.map_cons]
      simp only [Function_parse.loop1, hl, Option.isSome_none, Bool.false_eq_true, if_false, Bool.not_false, Bool.true_and]
      by_cases h1 : t = "("
      · subst h1
        have c1 : ["(", ")", ","].contains "(" = true := by decide
        have hc : classify tbl "(" = .lp := by simp [classify, hl]
        simp only [hc, build, c1, Bool.not_true, Bool.false_eq_true, if_false]
        exact code_build tbl formula ts _ _ hs
      · by_cases h2 : t = ")"
        · subst h2
          have c1 : ["(", ")", ","].contains ")" = true := by decide
          have hc : classify tbl ")" = .rp := by simp [classify, hl]
          simp only [hc, build, c1, Bool.not_true, Bool.false_eq_true, if_false]
          exact code_build tbl formula ts _ _ hs
        · by_cases h3 : t = ","
          · subst h3
            have c1 : ["(", ")", ","].contains "," = true := by decide
            have hc : classify tbl "," = .comma := by simp [classify, hl]
            simp only [hc, build, c1, Bool.not_true, Bool.false_eq_true, if_false]
            exact code_build tbl formula ts _ _ hs
          · have c1 : ["(", ")", ","].contains t = false := by simp [h1, h2, h3]
            simp only [classify_operand hl h1 h2 h3, build, c1, Bool.not_false, if_true, Py.float]
            cases hf : parseFloat t with
            | some v =>
              simp only [ok_bind]
              exact code_build tbl formula ts _ _ (by simp [hs, Expr.toNode, hf])
            | none =>
              simp only [err_bind]
              exact code_build tbl formula ts _ _ (by simp [hs, Expr.toNode, hf])

/-- **`Function.parse` as translated from the source = the model `Op.parseFormula`** (`Op.toPostfix`, then the stack
    machine `Op.parsePostfix`): same exception class, and on success the returned node is the `Function.Node` tree of
    the model's expression tree -/
theorem code_parsePostfix (tbl : Table) (formula : String) :
    match parseFormula tbl (formatInfix tbl formula) with
    | .error e => Function_parse.run tbl formula {} = .error e.toPy
    | .ok r => ∃ σ, Function_parse.run tbl formula {} = .ok σ ∧ σ.ret = some r.toNode := by
  unfold parseFormula Function_parse.run Py.infixToPostfix
  cases hp : toPostfix tbl (formatInfix tbl formula) with
  | error e => simp only [err_bind, ErrKind.errOfKind_eq]
  | ok p =>
    simp only [ok_bind, parsePostfix, parsePostfixTok]
    have hb := code_build tbl formula p { postfix_ := p, stack := [] } [] rfl
    cases hr : build (p.map (classify tbl)) [] with
    | error e =>
      rw [hr] at hb
      simp only [AgreeB] at hb
      simp only [hb, err_bind]
    | ok stk =>
      rw [hr] at hb
      obtain ⟨σ', h1, h2⟩ := hb
      simp only [h1, ok_bind, h2, List.length_map]
      match stk with
      | [] => simp [ErrKind.toPy]
      | [e] => simp [ok_bind]
      | _ :: _ :: _ => simp [ErrKind.toPy]

end CodeFn
