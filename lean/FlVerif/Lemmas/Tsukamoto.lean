import FlVerif.Lemmas.TermTie
import FlVerif.Lemmas.TermMono

/-! Tsukamoto inverses (C11): ties of the traced code, inverse identities over ℝ -/

set_option linter.unusedSectionVars false
set_option linter.unusedVariables false
set_option linter.unusedSimpArgs false

namespace Tsukamoto
open X Spec

section generic
variable {α : Type} [Field α] [LinearOrder α] [IsStrictOrderedRing α]

theorem arc_radicand (s e h y : α) (hh : 0 < h) (hy0 : 0 ≤ y) (hyh : y ≤ h) :
    0 ≤ (e - s) * (e - s) - y * (e - s) / h * (y * (e - s) / h) := by
  have hq0 : 0 ≤ y / h := div_nonneg hy0 hh.le
  have hq1 : y / h ≤ 1 := (div_le_one hh).2 hyh
  have e1 : (e - s) * (e - s) - y * (e - s) / h * (y * (e - s) / h) = (e - s) * (e - s) * (1 - y / h * (y / h)) := by
    field_simp
  rw [e1]
  exact mul_nonneg (mul_self_nonneg _) (by nlinarith)

theorem arc_fin (F : Fn α) (s e h y : α) (hh : 0 < h) (hy0 : 0 ≤ y) (hyh : y ≤ h) :
    Gen.Term.Arc.tsukamoto F (fin s) (fin e) (fin h) (fin y) = fin (Tsu.arc F s e h y) := by
  unfold Gen.Term.Arc.tsukamoto Tsu.arc
  have hc : s + (e - s) = e := by ring
  have hrad := arc_radicand s e h y hh hy0 hyh
  simp only [add_fin, sub_fin, hc, sq_fin, mul_fin, div_fin _ _ hh.ne', lt_fin, sqrt_fin F _ hrad, pow_two]
  by_cases h1 : s < e <;> simp [h1]

theorem concave_fin (F : Fn α) (i e h y : α) (hy : y ≠ 0) :
    Gen.Term.Concave.tsukamoto F (fin i) (fin e) (fin h) (fin y) = fin (Tsu.concave i e h y) := by
  unfold Gen.Term.Concave.tsukamoto Tsu.concave
  simp only [add_fin, sub_fin, mul_fin, div_fin _ _ hy]

theorem ramp_fin (F : Fn α) (s e h y : α) (hh : h ≠ 0) :
    Gen.Term.Ramp.tsukamoto F (fin s) (fin e) (fin h) (fin y) = fin (Tsu.ramp s e h y) := by
  unfold Gen.Term.Ramp.tsukamoto Tsu.ramp
  simp only [add_fin, sub_fin, mul_fin, div_fin _ _ hh]

theorem sigmoid_fin (F : Fn α) (i sl h y : α) (hsl : sl ≠ 0) (hy0 : 0 < y) (hyh : y < h) :
    Gen.Term.Sigmoid.tsukamoto F (fin i) (fin sl) (fin h) (fin y) = fin (Tsu.sigmoid F i sl h y) := by
  unfold Gen.Term.Sigmoid.tsukamoto Tsu.sigmoid
  have harg : 0 < h / y - 1 := by rw [sub_pos, lt_div_iff₀ hy0]; linarith
  have hns : -sl ≠ 0 := neg_ne_zero.2 hsl
  simp only [add_fin, sub_fin, neg_fin, div_fin _ _ hy0.ne', log_fin F _ harg, div_fin _ _ hns]

theorem s_radicands (h y : α) (hh : 0 < h) (hy0 : 0 ≤ y) (hyh : y ≤ h) :
    0 ≤ y / (2 * h) ∧ 0 ≤ (h - y) / (2 * h) :=
  ⟨div_nonneg hy0 (by linarith), div_nonneg (by linarith) (by linarith)⟩

theorem sShape_fin (F : Fn α) (s e h y : α) (hh : 0 < h) (hy0 : 0 ≤ y) (hyh : y ≤ h) :
    Gen.Term.SShape.tsukamoto F (fin s) (fin e) (fin h) (fin y) = fin (Tsu.sShape F s e h y) := by
  unfold Gen.Term.SShape.tsukamoto Tsu.sShape
  have h2 : (2 : α) ≠ 0 := two_ne_zero
  have h2h : 2 * h ≠ 0 := by intro h0; linarith
  obtain ⟨r1, r2⟩ := s_radicands h y hh hy0 hyh
  simp only [add_fin, sub_fin, mul_fin, div_fin _ _ h2, div_fin _ _ h2h, le_fin, sqrt_fin F _ r1, sqrt_fin F _ r2,
    sel_decide]

theorem zShape_fin (F : Fn α) (s e h y : α) (hh : 0 < h) (hy0 : 0 ≤ y) (hyh : y ≤ h) :
    Gen.Term.ZShape.tsukamoto F (fin s) (fin e) (fin h) (fin y) = fin (Tsu.zShape F s e h y) := by
  unfold Gen.Term.ZShape.tsukamoto Tsu.zShape
  have h2 : (2 : α) ≠ 0 := two_ne_zero
  have h2h : 2 * h ≠ 0 := by intro h0; linarith
  obtain ⟨r1, r2⟩ := s_radicands h y hh hy0 hyh
  simp only [add_fin, sub_fin, mul_fin, div_fin _ _ h2, div_fin _ _ h2h, le_fin, sqrt_fin F _ r1, sqrt_fin F _ r2,
    sel_decide]

/-! ### what the code returns at `y = 0`: `±inf` for Sigmoid and Concave (the operand of F4) -/

theorem sigmoid_zero (F : Fn α) (i sl h : α) (hsl : sl ≠ 0) (hh : 0 < h) :
    Gen.Term.Sigmoid.tsukamoto F (fin i) (fin sl) (fin h) (fin 0) = if 0 < sl then ninf else pinf := by
  unfold Gen.Term.Sigmoid.tsukamoto
  rcases lt_or_gt_of_ne hsl with h1 | h1
  · have : (0 : α) ≤ -sl := by linarith
    simp [X.div, X.mulInf, hh, X.log, X.add, not_lt.2 h1.le, this]
  · have : ¬ (0 : α) ≤ -sl := by intro h; linarith
    simp [X.div, X.mulInf, hh, X.log, X.add, h1, this]

theorem concave_zero (F : Fn α) (i e h : α) (hie : i ≠ e) (hh : 0 < h) :
    Gen.Term.Concave.tsukamoto F (fin i) (fin e) (fin h) (fin 0) = if i < e then ninf else pinf := by
  unfold Gen.Term.Concave.tsukamoto
  rcases lt_or_gt_of_ne hie with h1 | h1
  · have hneg : h * (i - e) < 0 := mul_neg_of_pos_of_neg hh (by linarith)
    have hd : X.div (fin (h * (i - e))) (fin (0 : α)) = ninf := by
      simp [X.div, X.mulInf, hneg, not_lt.2 hneg.le]
    simp only [sub_fin, mul_fin, hd, add_ninf_fin, sub_ninf_fin, h1, if_true]
  · have hpos : 0 < h * (i - e) := mul_pos hh (by linarith)
    have hd : X.div (fin (h * (i - e))) (fin (0 : α)) = pinf := by
      simp [X.div, X.mulInf, hpos]
    simp only [sub_fin, mul_fin, hd, add_pinf_fin, sub_pinf_fin, not_lt.2 h1.le, if_false]

end generic

/-! ### inverse identities over ℝ -/
section real
open Real
local notation "F" => Fn.real

theorem ramp_inv (s e h y : ℝ) (hse : s ≠ e) (hy : 0 < y) (hyh : y < h) : Mu.ramp s e h (Tsu.ramp s e h y) = y := by
  have hh : 0 < h := lt_trans hy hyh
  have hq : 0 < y / h := div_pos hy hh
  have hq1 : y / h < 1 := (div_lt_one hh).2 hyh
  have hx : Tsu.ramp s e h y = s + (e - s) * (y / h) := by unfold Tsu.ramp; ring
  rcases lt_or_gt_of_ne hse with h1 | h1
  · have hd : 0 < e - s := sub_pos.2 h1
    have c : s < Tsu.ramp s e h y ∧ Tsu.ramp s e h y < e := by rw [hx]; constructor <;> nlinarith
    unfold Mu.ramp; rw [if_pos c, hx]; field_simp; ring
  · have hd : 0 < s - e := sub_pos.2 h1
    have c1 : ¬ (s < Tsu.ramp s e h y ∧ Tsu.ramp s e h y < e) := by rw [hx]; intro c; nlinarith [c.1]
    have c2 : e < Tsu.ramp s e h y ∧ Tsu.ramp s e h y < s := by rw [hx]; constructor <;> nlinarith
    unfold Mu.ramp; rw [if_neg c1, if_pos c2, hx]; field_simp; ring

theorem concave_inv (i e h y : ℝ) (hie : i ≠ e) (hy : 0 < y) (hyh : y < h) :
    Mu.concave i e h (Tsu.concave i e h y) = y := by
  have hh : 0 < h := lt_trans hy hyh
  rcases lt_or_gt_of_ne hie with h1 | h1
  · have hlt : Tsu.concave i e h y < e := by
      unfold Tsu.concave
      have : h * (i - e) / y < i - e := by rw [div_lt_iff₀ hy]; nlinarith
      linarith
    have : 2 * e - i - Tsu.concave i e h y = h * (e - i) / y := by unfold Tsu.concave; field_simp; ring
    unfold Mu.concave; rw [if_pos ⟨h1.le, hlt⟩, this]
    have : e - i ≠ 0 := by intro h0; linarith
    field_simp
  · have hgt : e < Tsu.concave i e h y := by
      unfold Tsu.concave
      have : i - e < h * (i - e) / y := by rw [lt_div_iff₀ hy]; nlinarith
      linarith
    have : -2 * e + i + Tsu.concave i e h y = h * (i - e) / y := by unfold Tsu.concave; field_simp; ring
    have c1 : ¬ (i ≤ e ∧ Tsu.concave i e h y < e) := by intro c; linarith [c.1]
    unfold Mu.concave; rw [if_neg c1, if_pos ⟨h1, hgt⟩, this]
    have : i - e ≠ 0 := by intro h0; linarith
    field_simp

theorem sqrt_quarter : √((1 : ℝ) / 4) = 1 / 2 := by
  rw [show (1 : ℝ) / 4 = (1 / 2) ^ 2 by norm_num]; exact Real.sqrt_sq (by norm_num)

theorem sShape_inv (s e h y : ℝ) (hse : s < e) (hy : 0 < y) (hyh : y < h) :
    Mu.sShape s e h (Tsu.sShape F s e h y) = y := by
  have hh : 0 < h := lt_trans hy hyh
  have hd : 0 < e - s := sub_pos.2 hse
  unfold Tsu.sShape
  simp only [Fn.real]
  by_cases hb : y ≤ h / 2
  · rw [if_pos hb]
    set r := √(y / (2 * h)) with hr
    have hr0 : 0 < r := Real.sqrt_pos.2 (by positivity)
    have hr2 : r ^ 2 = y / (2 * h) := Real.sq_sqrt (by positivity)
    have hrle : r ≤ 1 / 2 := by
      rw [← sqrt_quarter]; apply Real.sqrt_le_sqrt
      rw [div_le_iff₀ (by positivity)]; linarith
    have h1 : ¬ s + (e - s) * r ≤ s := by nlinarith
    have h2 : s + (e - s) * r ≤ (s + e) / 2 := by nlinarith
    unfold Mu.sShape; rw [if_neg h1, if_pos h2]
    have : (s + (e - s) * r - s) / (e - s) = r := by field_simp; ring
    rw [this, hr2]; field_simp
  · rw [if_neg hb]
    have hb' : h / 2 < y := not_le.1 hb
    set r := √((h - y) / (2 * h)) with hr
    have hr0 : 0 < r := Real.sqrt_pos.2 (by apply div_pos <;> linarith)
    have hr2 : r ^ 2 = (h - y) / (2 * h) := Real.sq_sqrt (by apply div_nonneg <;> linarith)
    have hrlt : r < 1 / 2 := by
      rw [← sqrt_quarter]; apply Real.sqrt_lt_sqrt (by apply div_nonneg <;> linarith)
      rw [div_lt_iff₀ (by positivity)]; linarith
    have h1 : ¬ e - (e - s) * r ≤ s := by nlinarith
    have h2 : ¬ e - (e - s) * r ≤ (s + e) / 2 := by nlinarith
    have h3 : e - (e - s) * r < e := by nlinarith
    unfold Mu.sShape; rw [if_neg h1, if_neg h2, if_pos h3]
    have : (e - (e - s) * r - e) / (e - s) = -r := by field_simp; ring
    rw [this, neg_sq, hr2]; field_simp; ring

/-- the Z inverse at `y` is the S inverse at `h − y` (also at the branch point `y = h/2`, where both give the midpoint) -/
theorem zShape_tsu_eq (s e h y : ℝ) (hh : 0 < h) : Tsu.zShape F s e h y = Tsu.sShape F s e h (h - y) := by
  unfold Tsu.zShape Tsu.sShape
  simp only [Fn.real]
  rcases lt_trichotomy y (h / 2) with h1 | h1 | h1
  · have a : y ≤ h / 2 := h1.le
    have b : ¬ h - y ≤ h / 2 := by intro c; linarith
    rw [if_pos a, if_neg b]; congr 3; ring
  · have a : y ≤ h / 2 := h1.le
    have b : h - y ≤ h / 2 := by linarith
    have q1 : y / (2 * h) = 1 / 4 := by rw [h1]; field_simp; norm_num
    have q2 : (h - y) / (2 * h) = 1 / 4 := by rw [h1]; field_simp; norm_num
    rw [if_pos a, if_pos b, q1, q2, sqrt_quarter]; ring
  · have a : ¬ y ≤ h / 2 := not_le.2 h1
    have b : h - y ≤ h / 2 := by linarith
    rw [if_neg a, if_pos b]

theorem zShape_inv (s e h y : ℝ) (hse : s < e) (hy : 0 < y) (hyh : y < h) :
    Mu.zShape s e h (Tsu.zShape F s e h y) = y := by
  have hh : 0 < h := lt_trans hy hyh
  rw [zShape_tsu_eq s e h y hh, TermRange.zShape_eq s e h _ hse, sShape_inv s e h (h - y) hse (by linarith) (by linarith)]
  ring

theorem arc_inv (s e h y : ℝ) (hse : s ≠ e) (hy : 0 < y) (hyh : y < h) : Mu.arc F s e h (Tsu.arc F s e h y) = y := by
  have hh : 0 < h := lt_trans hy hyh
  have hr : 0 < |e - s| := abs_pos.2 (sub_ne_zero.2 (Ne.symm hse))
  have hq : 0 < y / h := div_pos hy hh
  have hq1 : y / h < 1 := (div_lt_one hh).2 hyh
  have hrad : (e - s) ^ 2 - (y * (e - s) / h) ^ 2 = (e - s) ^ 2 * (1 - (y / h) ^ 2) := by field_simp
  have hnn : 0 ≤ (e - s) ^ 2 - (y * (e - s) / h) ^ 2 := by
    rw [hrad]; apply mul_nonneg (sq_nonneg _); nlinarith
  unfold Tsu.arc
  simp only [Fn.real]
  set r := √((e - s) ^ 2 - (y * (e - s) / h) ^ 2) with hrdef
  have hr0 : 0 ≤ r := Real.sqrt_nonneg _
  have hr2 : r ^ 2 = (e - s) ^ 2 - (y * (e - s) / h) ^ 2 := Real.sq_sqrt hnn
  have hrle : r ≤ |e - s| := by
    rw [hrdef, Real.sqrt_le_left hr.le, sq_abs]; nlinarith [sq_nonneg (y * (e - s) / h)]
  have key : ∀ z : ℝ, (z - e) ^ 2 = r ^ 2 → ((s ≤ z ∧ z ≤ e) ∨ (e ≤ z ∧ z ≤ s)) → Mu.arc F s e h z = y := by
    intro z hz hc
    unfold Mu.arc
    simp only [Fn.real]
    rw [if_pos hc]
    have e1 : (e - s) ^ 2 - (z - e) ^ 2 = (y * (e - s) / h) ^ 2 := by rw [hz, hr2]; ring
    rw [e1, Real.sqrt_sq_eq_abs, abs_div, abs_mul, abs_of_pos hy, abs_of_pos hh]
    field_simp
  rcases lt_or_gt_of_ne hse with h1 | h1
  · rw [if_pos h1]
    have habs : |e - s| = e - s := abs_of_pos (by linarith)
    apply key
    · ring
    · left; constructor <;> nlinarith
  · rw [if_neg (not_lt.2 h1.le)]
    have habs : |e - s| = s - e := by rw [abs_of_neg (by linarith)]; ring
    apply key
    · ring
    · right; constructor <;> nlinarith

theorem sigmoid_inv (i sl h y : ℝ) (hs : sl ≠ 0) (hy : 0 < y) (hyh : y < h) :
    Mu.sigmoid F i sl h (Tsu.sigmoid F i sl h y) = y := by
  unfold Mu.sigmoid Tsu.sigmoid
  simp only [Fn.real]
  have h1 : 0 < h / y - 1 := by rw [sub_pos, lt_div_iff₀ hy]; linarith
  have : -sl * (i + Real.log (h / y - 1) / (-sl) - i) = Real.log (h / y - 1) := by field_simp; ring
  rw [this, Real.exp_log h1]
  have : 1 + (h / y - 1) = h / y := by ring
  have hh : h ≠ 0 := by intro h0; rw [h0] at hyh; linarith
  rw [this, div_div_eq_mul_div, mul_comm, mul_div_assoc, div_self hh, mul_one]

/-- a right inverse of a monotone function is strictly monotone -/
theorem strictMono_of_inverse {f z : ℝ → ℝ} {h : ℝ} (hf : Monotone f) (hinv : ∀ y, 0 < y → y < h → f (z y) = y)
    {y1 y2 : ℝ} (h0 : 0 < y1) (h12 : y1 < y2) (h2 : y2 < h) : z y1 < z y2 := by
  by_contra hc
  have := hf (not_lt.1 hc)
  rw [hinv y1 h0 (lt_trans h12 h2), hinv y2 (lt_trans h0 h12) h2] at this
  linarith

theorem strictAnti_of_inverse {f z : ℝ → ℝ} {h : ℝ} (hf : Antitone f) (hinv : ∀ y, 0 < y → y < h → f (z y) = y)
    {y1 y2 : ℝ} (h0 : 0 < y1) (h12 : y1 < y2) (h2 : y2 < h) : z y2 < z y1 := by
  by_contra hc
  have := hf (not_lt.1 hc)
  rw [hinv y1 h0 (lt_trans h12 h2), hinv y2 (lt_trans h0 h12) h2] at this
  linarith

end real
end Tsukamoto
