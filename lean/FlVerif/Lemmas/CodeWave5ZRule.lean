import FlVerif.Gen.CodeAntecedentText
import FlVerif.Op.AntecedentText
import FlVerif.Lemmas.CodeRule

/-! # Tie A: `Proposition.__str__`, `Antecedent.prefix / infix / postfix` (rule.py) are `Op.AntecedentText.*`

For every expression tree `Py.Load.Expression` (what the translated `Antecedent.load` builds), with `node = None` (the
tree of `self.expression`; `RuntimeError` when nothing is loaded) or a node.  The recursion bound is never exhausted. -/

namespace CodeW5ZR
open Lang Op Op.AntecedentText Gen.Code Py.Load Py.W5Z

/-! ## `Proposition.__str__` -/

theorem str_loop (p : Proposition) : ∀ (hs : List String) (σ : Proposition_str.S),
    ∃ σ', Proposition_str.loop1 p hs σ = .ok σ' ∧ σ'.result = σ.result ++ hs
  | [], σ => ⟨σ, rfl, by simp⟩
  | h :: hs, σ => by
    obtain ⟨σ', e, r⟩ := str_loop p hs { σ with hedge := h, result := σ.result ++ [h] }
    refine ⟨σ', ?_, ?_⟩
    · simp only [Proposition_str.loop1]; exact e
    · rw [r]; simp

theorem code_propositionStr (p : Proposition) :
    ∃ σ, Proposition_str.run p {} = .ok σ ∧ σ.ret = some (propText p) := by
  obtain ⟨σ', e, r⟩ := str_loop p p.hedges { result := [p.variable_.name, "is"] }
  simp only [List.cons_append, List.nil_append] at r
  unfold Proposition_str.run propText
  simp only [Option.isSome_some, if_true, Py.deref_some, bind, Except.bind, List.nil_append, List.cons_append]
  by_cases hh : p.hedges = []
  · cases ht : p.term_ with
    | none => exact ⟨_, by simp [hh]; rfl, by simp [hh]⟩
    | some t => exact ⟨_, by simp [hh]; rfl, by simp [hh]⟩
  · have hne : (!p.hedges.isEmpty) = true := by simp [hh]
    simp only [hne, if_true, e]
    cases ht : p.term_ with
    | none => exact ⟨_, by simp; rfl, by simp [r]⟩
    | some t => exact ⟨_, by simp; rfl, by simp [r]⟩

/-- `str(node)` as the renderings call it -/
theorem str_call (p : Proposition) :
    (Proposition_str.run p {} >>= fun r => Py.deref r.ret) = .ok (propText p) := by
  obtain ⟨σ, e, r⟩ := code_propositionStr p
  rw [e]
  simp [bind, Except.bind, r]

/-- a child that is `None` contributes nothing -/
def kid (f : Expression → String) (e : Expression) : List String := if e = .none then [] else [f e]

theorem depth_children {name : String} {l r : Expression} {fuel : Nat} (h : depth (.op name l r) ≤ fuel + 1) :
    depth l ≤ fuel ∧ depth r ≤ fuel := by
  simp only [depth] at h; omega

theorem depth_pos {n : Expression} (h : n ≠ .none) : 0 < depth n := by
  cases n with
  | none => exact absurd rfl h
  | prop p => simp [depth]
  | op name l r => simp [depth]

/-! ## prefix -/

theorem pfxText_op (name : String) (l r : Expression) :
    pfxText (.op name l r) = Py.joinSp ([name] ++ kid pfxText l ++ kid pfxText r) := by
  cases l <;> cases r <;> simp [pfxText, kid]

theorem code_prefixRec (expression : Expression) : ∀ (fuel : Nat) (n : Expression) (σ0 : Antecedent_prefix.S),
    n ≠ .none → depth n ≤ fuel → ∃ σ, Antecedent_prefix.rec fuel expression n σ0 = .ok σ ∧ σ.ret = some (pfxText n)
  | 0, n, _, hn, h => absurd h (by have := depth_pos hn; omega)
  | fuel + 1, .none, _, hn, _ => absurd rfl hn
  | fuel + 1, .prop p, σ0, _, _ => by
    have hs := str_call p
    simp only [bind, Except.bind] at hs
    have hne : (Expression.prop p != Expression.none) = true := by simp
    simp only [Antecedent_prefix.rec, hne, Bool.not_true, Bool.false_eq_true, if_false, isProp, if_true, Expression.asProp,
      bind, Except.bind, hs, pfxText]
    exact ⟨_, rfl, rfl⟩
  | fuel + 1, .op name l r, σ0, _, h => by
    obtain ⟨hl, hr⟩ := depth_children h
    have hne : (Expression.op name l r != Expression.none) = true := by simp
    rw [pfxText_op]
    simp only [Antecedent_prefix.rec, hne, Bool.not_true, Bool.false_eq_true, if_false, isProp, isOp, if_true, nameOf, leftOf,
      rightOf, bind, Except.bind]
    by_cases el : l = .none
    · subst el
      have e1 : (Expression.none != Expression.none) = false := by decide
      by_cases er : r = .none
      · subst er
        simp only [e1, Bool.false_eq_true, if_false, kid, if_true]
        exact ⟨_, rfl, rfl⟩
      · have e2 : (r != Expression.none) = true := by simp [er]
        obtain ⟨σr, hr1, hr2⟩ := code_prefixRec expression fuel r {} er hr
        simp only [e1, e2, Bool.false_eq_true, if_false, if_true, kid, er, hr1, hr2, Py.deref_some]
        exact ⟨_, rfl, rfl⟩
    · have e1 : (l != Expression.none) = true := by simp [el]
      obtain ⟨σl, hl1, hl2⟩ := code_prefixRec expression fuel l {} el hl
      by_cases er : r = .none
      · subst er
        have e2 : (Expression.none != Expression.none) = false := by decide
        simp only [e1, e2, Bool.false_eq_true, if_false, if_true, kid, el, hl1, hl2, Py.deref_some]
        exact ⟨_, rfl, rfl⟩
      · have e2 : (r != Expression.none) = true := by simp [er]
        obtain ⟨σr, hr1, hr2⟩ := code_prefixRec expression fuel r {} er hr
        simp only [e1, e2, if_true, kid, el, er, if_false, hl1, hl2, hr1, hr2, Py.deref_some]
        exact ⟨_, rfl, rfl⟩

theorem code_antecedentPrefix (expression node : Expression) :
    match render pfxText expression node with
    | .error k => Antecedent_prefix.run expression node {} = .error k.toPy
    | .ok s => ∃ σ, Antecedent_prefix.run expression node {} = .ok σ ∧ σ.ret = some s := by
  unfold render Antecedent_prefix.run
  by_cases hn : node = .none
  · subst hn
    have e0 : (Expression.none != Expression.none) = false := by decide
    by_cases he : expression = .none
    · subst he
      simp [Antecedent_prefix.rec, ErrKind.toPy]
    · have e1 : (expression != Expression.none) = true := by simp [he]
      obtain ⟨σ, h1, h2⟩ := code_prefixRec expression (depth expression + depth Expression.none) expression {} he
        (by simp only [depth]; omega)
      simp only [if_true, he, if_false, Antecedent_prefix.rec, e0, Bool.not_false, e1, h1, h2, Py.deref_some, bind, Except.bind]
      exact ⟨_, rfl, rfl⟩
  · simp only [hn, if_false]
    exact code_prefixRec expression _ node {} hn (by omega)

/-! ## infix -/

theorem infText_op (name : String) (l r : Expression) :
    infText (.op name l r) = Py.joinSp (kid infText l ++ [name] ++ kid infText r) := by
  cases l <;> cases r <;> simp [infText, kid]

theorem code_infixRec (expression : Expression) : ∀ (fuel : Nat) (n : Expression) (σ0 : Antecedent_infix.S),
    n ≠ .none → depth n ≤ fuel → ∃ σ, Antecedent_infix.rec fuel expression n σ0 = .ok σ ∧ σ.ret = some (infText n)
  | 0, n, _, hn, h => absurd h (by have := depth_pos hn; omega)
  | fuel + 1, .none, _, hn, _ => absurd rfl hn
  | fuel + 1, .prop p, σ0, _, _ => by
    have hs := str_call p
    simp only [bind, Except.bind] at hs
    have hne : (Expression.prop p != Expression.none) = true := by simp
    simp only [Antecedent_infix.rec, hne, Bool.not_true, Bool.false_eq_true, if_false, isProp, if_true, Expression.asProp,
      bind, Except.bind, hs, infText]
    exact ⟨_, rfl, rfl⟩
  | fuel + 1, .op name l r, σ0, _, h => by
    obtain ⟨hl, hr⟩ := depth_children h
    have hne : (Expression.op name l r != Expression.none) = true := by simp
    rw [infText_op]
    simp only [Antecedent_infix.rec, hne, Bool.not_true, Bool.false_eq_true, if_false, isProp, isOp, if_true, nameOf, leftOf,
      rightOf, bind, Except.bind]
    by_cases el : l = .none
    · subst el
      have e1 : (Expression.none != Expression.none) = false := by decide
      by_cases er : r = .none
      · subst er
        simp only [e1, Bool.false_eq_true, if_false, kid, if_true]
        exact ⟨_, rfl, rfl⟩
      · have e2 : (r != Expression.none) = true := by simp [er]
        obtain ⟨σr, hr1, hr2⟩ := code_infixRec expression fuel r {} er hr
        simp only [e1, e2, Bool.false_eq_true, if_false, if_true, kid, er, hr1, hr2, Py.deref_some]
        exact ⟨_, rfl, rfl⟩
    · have e1 : (l != Expression.none) = true := by simp [el]
      obtain ⟨σl, hl1, hl2⟩ := code_infixRec expression fuel l {} el hl
      by_cases er : r = .none
      · subst er
        have e2 : (Expression.none != Expression.none) = false := by decide
        simp only [e1, e2, Bool.false_eq_true, if_false, if_true, kid, el, hl1, hl2, Py.deref_some]
        exact ⟨_, rfl, rfl⟩
      · have e2 : (r != Expression.none) = true := by simp [er]
        obtain ⟨σr, hr1, hr2⟩ := code_infixRec expression fuel r {} er hr
        simp only [e1, e2, if_true, kid, el, er, if_false, hl1, hl2, hr1, hr2, Py.deref_some]
        exact ⟨_, rfl, rfl⟩

theorem code_antecedentInfix (expression node : Expression) :
    match render infText expression node with
    | .error k => Antecedent_infix.run expression node {} = .error k.toPy
    | .ok s => ∃ σ, Antecedent_infix.run expression node {} = .ok σ ∧ σ.ret = some s := by
  unfold render Antecedent_infix.run
  by_cases hn : node = .none
  · subst hn
    have e0 : (Expression.none != Expression.none) = false := by decide
    by_cases he : expression = .none
    · subst he
      simp [Antecedent_infix.rec, ErrKind.toPy]
    · have e1 : (expression != Expression.none) = true := by simp [he]
      obtain ⟨σ, h1, h2⟩ := code_infixRec expression (depth expression + depth Expression.none) expression {} he
        (by simp only [depth]; omega)
      simp only [if_true, he, if_false, Antecedent_infix.rec, e0, Bool.not_false, e1, h1, h2, Py.deref_some, bind, Except.bind]
      exact ⟨_, rfl, rfl⟩
  · simp only [hn, if_false]
    exact code_infixRec expression _ node {} hn (by omega)

/-! ## postfix -/

theorem postText_op (name : String) (l r : Expression) :
    postText (.op name l r) = Py.joinSp (kid postText l ++ kid postText r ++ [name]) := by
  cases l <;> cases r <;> simp [postText, kid]

theorem code_postfixRec (expression : Expression) : ∀ (fuel : Nat) (n : Expression) (σ0 : Antecedent_postfix.S),
    n ≠ .none → depth n ≤ fuel → ∃ σ, Antecedent_postfix.rec fuel expression n σ0 = .ok σ ∧ σ.ret = some (postText n)
  | 0, n, _, hn, h => absurd h (by have := depth_pos hn; omega)
  | fuel + 1, .none, _, hn, _ => absurd rfl hn
  | fuel + 1, .prop p, σ0, _, _ => by
    have hs := str_call p
    simp only [bind, Except.bind] at hs
    have hne : (Expression.prop p != Expression.none) = true := by simp
    simp only [Antecedent_postfix.rec, hne, Bool.not_true, Bool.false_eq_true, if_false, isProp, if_true, Expression.asProp,
      bind, Except.bind, hs, postText]
    exact ⟨_, rfl, rfl⟩
  | fuel + 1, .op name l r, σ0, _, h => by
    obtain ⟨hl, hr⟩ := depth_children h
    have hne : (Expression.op name l r != Expression.none) = true := by simp
    rw [postText_op]
    simp only [Antecedent_postfix.rec, hne, Bool.not_true, Bool.false_eq_true, if_false, isProp, isOp, if_true, nameOf, leftOf,
      rightOf, bind, Except.bind]
    by_cases el : l = .none
    · subst el
      have e1 : (Expression.none != Expression.none) = false := by decide
      by_cases er : r = .none
      · subst er
        simp only [e1, Bool.false_eq_true, if_false, kid, if_true]
        exact ⟨_, rfl, rfl⟩
      · have e2 : (r != Expression.none) = true := by simp [er]
        obtain ⟨σr, hr1, hr2⟩ := code_postfixRec expression fuel r {} er hr
        simp only [e1, e2, Bool.false_eq_true, if_false, if_true, kid, er, hr1, hr2, Py.deref_some]
        exact ⟨_, rfl, rfl⟩
    · have e1 : (l != Expression.none) = true := by simp [el]
      obtain ⟨σl, hl1, hl2⟩ := code_postfixRec expression fuel l {} el hl
      by_cases er : r = .none
      · subst er
        have e2 : (Expression.none != Expression.none) = false := by decide
        simp only [e1, e2, Bool.false_eq_true, if_false, if_true, kid, el, hl1, hl2, Py.deref_some]
        exact ⟨_, rfl, rfl⟩
      · have e2 : (r != Expression.none) = true := by simp [er]
        obtain ⟨σr, hr1, hr2⟩ := code_postfixRec expression fuel r {} er hr
        simp only [e1, e2, if_true, kid, el, er, if_false, hl1, hl2, hr1, hr2, Py.deref_some]
        exact ⟨_, rfl, rfl⟩

theorem code_antecedentPostfix (expression node : Expression) :
    match render postText expression node with
    | .error k => Antecedent_postfix.run expression node {} = .error k.toPy
    | .ok s => ∃ σ, Antecedent_postfix.run expression node {} = .ok σ ∧ σ.ret = some s := by
  unfold render Antecedent_postfix.run
  by_cases hn : node = .none
  · subst hn
    have e0 : (Expression.none != Expression.none) = false := by decide
    by_cases he : expression = .none
    · subst he
      simp [Antecedent_postfix.rec, ErrKind.toPy]
    · have e1 : (expression != Expression.none) = true := by simp [he]
      obtain ⟨σ, h1, h2⟩ := code_postfixRec expression (depth expression + depth Expression.none) expression {} he
        (by simp only [depth]; omega)
      simp only [if_true, he, if_false, Antecedent_postfix.rec, e0, Bool.not_false, e1, h1, h2, Py.deref_some, bind, Except.bind]
      exact ⟨_, rfl, rfl⟩
  · simp only [hn, if_false]
    exact code_postfixRec expression _ node {} hn (by omega)

end CodeW5ZR
