import FlVerif.Gen.CodeDegree
import FlVerif.Lemmas.CodeRule

/-! # Tie A for `Antecedent.activation_degree`: the definition translated from the current source equals the model
`Op.degree`

The translated function is a recursion on a fuel bound (`Antecedent_activation_degree.rec`) over raw expression
objects (`Py.Deg.Expression`: a variable, a term or an operand may be `None`).  `evalE` is the same evaluation as a
structural recursion over the object tree (first step: the fuel is eliminated); on the object tree of a loaded
antecedent (`Py.Deg.ofANode`) it is the model `Op.degree` (second step) - including Python's `if not node.variable`,
which is true for a variable object without terms (`Variable.__len__`, the field `hasTerms` of the context): a
`ValueError`, also when the variable is disabled. -/

namespace Op
open Lang Gen.Code Py.Deg

/-- the model's result as a result of the translated code -/
def degToPy (r : Except ErrKind (X Rat)) : Py.M (X Rat) :=
  match r with
  | .ok d => .ok d
  | .error k => .error k.toPy

/-- the evaluation of the translated code without fuel (operators: those of the context) -/
def evalE (env : DegCtx Rat) : Expression → Py.M (X Rat)
  | .none => .error .runtime
  | .prop p =>
    match p.variable_ with
    | none => .error .value
    | some v =>
      degToPy (degree env (.prop v.name p.hedges p.term_))
  | .op n l r =>
    if !(l.truthy && r.truthy) then .error .value
    else if n == "and" then
      match env.conj with
      | none => .error .value
      | some f => evalE env l >>= fun a => evalE env r >>= fun b => .ok (f a b)
    else if n == "or" then
      match env.disj with
      | none => .error .value
      | some f => evalE env l >>= fun a => evalE env r >>= fun b => .ok (f a b)
    else .error .value

/-- agreement of a value computation with a run of the translated code: same exception, or the value is returned -/
def RetAgree (r : Py.M (X Rat)) (g : Py.M Antecedent_activation_degree.S) : Prop :=
  match r with
  | .error k => g = .error k
  | .ok d => ∃ σ', g = .ok σ' ∧ σ'.ret = some d

/-- the two hedge loops of the translated code: the fold of the model over the list, `ret` untouched -/
theorem code_degreeLoop1 (env : DegCtx Rat) (e : Expression)
    (cj dj : Option (X Rat → X Rat → X Rat)) (node : Expression) :
    ∀ (hs : List String) (σ : Antecedent_activation_degree.S),
      ∃ σ', Antecedent_activation_degree.loop1 env e cj dj node hs σ = .ok σ' ∧
        σ'.result = hs.foldl (fun acc h => env.hedge h acc) σ.result
  | [], σ => ⟨σ, rfl, rfl⟩
  | h :: hs, σ => by
    simp only [Antecedent_activation_degree.loop1, List.foldl_cons]
    exact code_degreeLoop1 env e cj dj node hs { σ with hedge := h, result := env.hedge h σ.result }

theorem code_degreeLoop2 (env : DegCtx Rat) (e : Expression)
    (cj dj : Option (X Rat → X Rat → X Rat)) (node : Expression) :
    ∀ (hs : List String) (σ : Antecedent_activation_degree.S),
      ∃ σ', Antecedent_activation_degree.loop2 env e cj dj node hs σ = .ok σ' ∧
        σ'.result = hs.foldl (fun acc h => env.hedge h acc) σ.result
  | [], σ => ⟨σ, rfl, rfl⟩
  | h :: hs, σ => by
    simp only [Antecedent_activation_degree.loop2, List.foldl_cons]
    exact code_degreeLoop2 env e cj dj node hs { σ with hedge := h, result := env.hedge h σ.result }

theorem last_of_getLast? {α : Type} {l : List α} {x : α} (h : l.getLast? = some x) : Py.last l = .ok x := by
  simp [Py.last, h]

/-- a proposition: the translated code is the model's case for propositions -/
theorem code_degreeProp (env : DegCtx Rat) (e : Expression)
    (cj dj : Option (X Rat → X Rat → X Rat)) (fuel : Nat) (p : Proposition) (σ : Antecedent_activation_degree.S) :
    RetAgree (evalE env (.prop p))
      (Antecedent_activation_degree.rec (fuel + 1) env e cj dj (.prop p) σ) := by
  obtain ⟨pv, hs, pt⟩ := p
  cases pv with
  | none =>
    simp [evalE, RetAgree, Antecedent_activation_degree.rec, Expression.truthy, Expression.isProp, variableOf, varTruthy,
      bind, Except.bind]
  | some v =>
    cases hv : env.hasTerms v.name
    · simp [evalE, RetAgree, Antecedent_activation_degree.rec, Expression.truthy, Expression.isProp, variableOf, varTruthy,
        bind, Except.bind, hv, degree, degToPy, ErrKind.toPy]
    · cases hen : env.enabled v.name
      · simp [evalE, RetAgree, Antecedent_activation_degree.rec, Expression.truthy, Expression.isProp, variableOf,
          varTruthy, bind, Except.bind, hv, hen, degree, degToPy]
      · cases hl : hs.getLast? with
        | none =>
          have hnil : hs = [] := List.getLast?_eq_none_iff.mp hl
          subst hnil
          cases pt with
          | none =>
            simp [evalE, RetAgree, Antecedent_activation_degree.rec, Expression.truthy, Expression.isProp, variableOf,
              varTruthy, bind, Except.bind, hv, hen, degree, degToPy, hedgesOf, termOf, ErrKind.toPy]
          | some t =>
            cases hout : env.isOutput v.name <;>
            simp [evalE, RetAgree, Antecedent_activation_degree.rec, Expression.truthy, Expression.isProp, variableOf,
              varTruthy, bind, Except.bind, hv, hen, degree, degToPy, hedgesOf, termOf, hout,
              Antecedent_activation_degree.loop1, hedgesReversed]
        | some h =>
          have hne : hs.isEmpty = false := by
            cases hs with
            | nil => simp at hl
            | cons _ _ => rfl
          have hlast := last_of_getLast? hl
          by_cases hany : h = "any"
          · subst hany
            obtain ⟨σ2, h1, h2⟩ := code_degreeLoop2 env e cj dj (.prop ⟨some v, hs, pt⟩) hs.reverse
              { σ with result := X.nan }
            simp [evalE, RetAgree, Antecedent_activation_degree.rec, Expression.truthy, Expression.isProp, variableOf,
              varTruthy, bind, Except.bind, hv, hen, degree, degToPy, hedgesOf, hne, hlast, hl, h1, h2,
              hedgesReversed]
          · cases pt with
            | none =>
              simp [evalE, RetAgree, Antecedent_activation_degree.rec, Expression.truthy, Expression.isProp, variableOf,
                varTruthy, bind, Except.bind, hv, hen, degree, degToPy, hedgesOf, termOf, hne, hlast, hl, hany,
                ErrKind.toPy]
            | some t =>
              cases hout : env.isOutput v.name
              · obtain ⟨σ2, h1, h2⟩ := code_degreeLoop1 env e cj dj (.prop ⟨some v, hs, some t⟩) hs.reverse
                  { σ with result := env.membership v.name t }
                simp [evalE, RetAgree, Antecedent_activation_degree.rec, Expression.truthy, Expression.isProp,
                  variableOf, varTruthy, bind, Except.bind, hv, hen, degree, degToPy, hedgesOf, termOf, hne, hlast, hl,
                  hany, hout, h1, h2, hedgesReversed]
              · obtain ⟨σ2, h1, h2⟩ := code_degreeLoop1 env e cj dj (.prop ⟨some v, hs, some t⟩) hs.reverse
                  { σ with result := env.outDegree v.name t }
                simp [evalE, RetAgree, Antecedent_activation_degree.rec, Expression.truthy, Expression.isProp,
                  variableOf, varTruthy, bind, Except.bind, hv, hen, degree, degToPy, hedgesOf, termOf, hne, hlast, hl,
                  hany, hout, h1, h2, hedgesReversed]

theorem depth_pos_of_truthy {x : Expression} (h : x.truthy = true) : 0 < depth x := by
  cases x <;> simp_all [Expression.truthy, depth]

@[simp] theorem truthy_op (n : String) (l r : Expression) : (Expression.op n l r).truthy = true := rfl
@[simp] theorem isProp_op (n : String) (l r : Expression) : (Expression.op n l r).isProp = false := rfl
@[simp] theorem isOp_op (n : String) (l r : Expression) : (Expression.op n l r).isOp = true := rfl
@[simp] theorem leftOf_op (n : String) (l r : Expression) : leftOf (.op n l r) = .ok l := rfl
@[simp] theorem rightOf_op (n : String) (l r : Expression) : rightOf (.op n l r) = .ok r := rfl
@[simp] theorem nameOf_op (n : String) (l r : Expression) : nameOf (.op n l r) = .ok n := rfl

theorem ok_bind {α β : Type} (a : α) (f : α → Py.M β) : ((Except.ok a : Py.M α) >>= f) = f a := rfl

/-- what a recursive call contributes to the caller: the callee's exception, or its value -/
theorem retAgree_call {r : Py.M (X Rat)} {g : Py.M Antecedent_activation_degree.S} (h : RetAgree r g) :
    (g >>= fun s => Py.deref s.ret) = r := by
  cases r with
  | error k => simp only [RetAgree] at h; simp [h, bind, Except.bind]
  | ok d => obtain ⟨σ', h1, h2⟩ := h; simp [h1, h2, bind, Except.bind]

/-- the two operands of a connective, left to right, combined by the operator -/
theorem retAgree_binary (f : X Rat → X Rat → X Rat) (a b : Py.M (X Rat)) (σ : Antecedent_activation_degree.S) :
    RetAgree (a >>= fun x => b >>= fun y => .ok (f x y))
      (((Py.deref (some f) >>= fun a0 => (a >>= fun a1 => (b >>= fun a2 => .ok (a0 a1 a2)))) >>= fun v1 =>
        .ok (some v1)) >>= fun v => Except.ok { σ with ret := v }) := by
  cases a with
  | error k => simp [RetAgree, bind, Except.bind]
  | ok x =>
    cases b with
    | error k => simp [RetAgree, bind, Except.bind]
    | ok y => simp [RetAgree, bind, Except.bind]

/-- **the fuel is enough**: with at least `depth x` units the translated recursion evaluates the object tree `x` as
    `evalE` does (never `.fuel`) -/
theorem code_degreeRec (env : DegCtx Rat) (e : Expression) :
    ∀ (fuel : Nat) (x : Expression) (σ : Antecedent_activation_degree.S), x.truthy = true → depth x ≤ fuel →
      RetAgree (evalE env x) (Antecedent_activation_degree.rec fuel env e env.conj env.disj x σ)
  | 0, x, σ, ht, hd => by
    have := depth_pos_of_truthy ht
    omega
  | fuel + 1, .none, σ, ht, hd => by simp [Expression.truthy] at ht
  | fuel + 1, .prop p, σ, ht, hd => code_degreeProp env e env.conj env.disj fuel p σ
  | fuel + 1, .op n l r, σ, ht, hd => by
    cases hl : l.truthy
    · simp [evalE, RetAgree, Antecedent_activation_degree.rec, bind, Except.bind, hl]
    cases hr : r.truthy
    · simp [evalE, RetAgree, Antecedent_activation_degree.rec, bind, Except.bind, hl, hr]
    have hdl : depth l ≤ fuel := by simp only [depth] at hd; omega
    have hdr : depth r ≤ fuel := by simp only [depth] at hd; omega
    have ihl := retAgree_call (code_degreeRec env e fuel l {} hl hdl)
    have ihr := retAgree_call (code_degreeRec env e fuel r {} hr hdr)
    by_cases hand : n = "and"
    · subst hand
      cases hc : env.conj with
      | none => simp [evalE, RetAgree, Antecedent_activation_degree.rec, bind, Except.bind, hl, hr, hc]
      | some f =>
        rw [hc] at ihl ihr
        have key := retAgree_binary f (evalE env l) (evalE env r) σ
        simp only [evalE, Antecedent_activation_degree.rec, truthy_op, isProp_op, isOp_op, leftOf_op, rightOf_op,
          nameOf_op, ok_bind, hl, hr, hc, ihl, ihr, Bool.not_true, Bool.false_eq_true, if_false, if_true, Bool.and_self,
          beq_self_eq_true, Option.isSome_some]
        exact key
    · have hand' : (n == "and") = false := by simpa using hand
      by_cases hor : n = "or"
      · subst hor
        cases hc : env.disj with
        | none => simp [evalE, RetAgree, Antecedent_activation_degree.rec, bind, Except.bind, hl, hr, hc]
        | some f =>
          rw [hc] at ihl ihr
          have key := retAgree_binary f (evalE env l) (evalE env r) σ
          simp only [evalE, Antecedent_activation_degree.rec, truthy_op, isProp_op, isOp_op, leftOf_op, rightOf_op,
            nameOf_op, ok_bind, hl, hr, hc, ihl, ihr, Bool.not_true, Bool.false_eq_true, if_false, if_true,
            Bool.and_self, beq_self_eq_true, Option.isSome_some, hand']
          exact key
      · have hor' : (n == "or") = false := by simpa using hor
        simp [evalE, RetAgree, Antecedent_activation_degree.rec, bind, Except.bind, hl, hr, hand', hor']

/-! ## on the object tree of a loaded antecedent the evaluation is the model -/

theorem truthy_ofANode (a : ANode) : (ofANode a).truthy = true := by cases a <;> rfl

theorem depth_ofANode_pos (a : ANode) : 0 < depth (ofANode a) := depth_pos_of_truthy (truthy_ofANode a)

/-- **on a loaded antecedent** `evalE` is the model -/
theorem evalE_ofANode (env : DegCtx Rat) : ∀ a : ANode, evalE env (ofANode a) = degToPy (degree env a)
  | .prop v hs t => by simp [evalE, ofANode]
  | .op n l r => by
    have ihl := evalE_ofANode env l
    have ihr := evalE_ofANode env r
    have key : ∀ (f : X Rat → X Rat → X Rat) (M : Except ErrKind (X Rat)),
        degToPy M = (degToPy (degree env l) >>= fun a => degToPy (degree env r) >>= fun b => .ok (f a b)) →
        (evalE env (ofANode l) >>= fun a => evalE env (ofANode r) >>= fun b => .ok (f a b)) = degToPy M := by
      intro f M hM
      rw [ihl, ihr, hM]
    simp only [ofANode, evalE, truthy_ofANode, Bool.and_self, Bool.not_true, Bool.false_eq_true, if_false, degree,
      beq_iff_eq]
    by_cases hand : n = "and"
    · simp only [hand, if_true]
      cases hc : env.conj with
      | none => simp [degToPy, ErrKind.toPy]
      | some f =>
        dsimp only
        refine key f _ ?_
        cases degree env l <;> cases degree env r <;> rfl
    · simp only [hand, if_false]
      by_cases hor : n = "or"
      · simp only [hor, if_true]
        cases hc : env.disj with
        | none => simp [degToPy, ErrKind.toPy]
        | some f =>
        dsimp only
        refine key f _ ?_
        cases degree env l <;> cases degree env r <;> rfl
      · simp [hor, degToPy, ErrKind.toPy]

/-! ## the theorems of `Props/C06.lean` -/

/-- `Antecedent.activation_degree(conjunction, disjunction)` on a loaded antecedent (the call from `Rule.activate_with`:
    `node` is `None`, the tree is `self.expression`) -/
theorem code_activationDegree_loaded (c : DegCtx Rat) (a : ANode) :
    match degree c a with
    | .error k => Antecedent_activation_degree.run c (ofANode a) c.conj c.disj .none {} = .error k.toPy
    | .ok d => ∃ σ, Antecedent_activation_degree.run c (ofANode a) c.conj c.disj .none {} = .ok σ ∧
        σ.ret = some d := by
  have hrec := retAgree_call
    (code_degreeRec c (ofANode a) (depth (ofANode a)) (ofANode a) {} (truthy_ofANode a) (Nat.le_refl _))
  rw [evalE_ofANode] at hrec
  have hrun : Antecedent_activation_degree.run c (ofANode a) c.conj c.disj .none {} =
      ((Antecedent_activation_degree.rec (depth (ofANode a)) c (ofANode a) c.conj c.disj (ofANode a) {}
        >>= fun r => Py.deref r.ret) >>= fun v1 => .ok (some v1)) >>= fun v => Except.ok { ({} : Antecedent_activation_degree.S) with ret := v } := by
    have h0 : depth Expression.none = 0 := rfl
    have h1 : Expression.none.truthy = false := rfl
    simp only [Antecedent_activation_degree.run, h0, h1, Nat.add_zero, Antecedent_activation_degree.rec,
      truthy_ofANode, Bool.not_false, if_true]
  rw [hrun, hrec]
  cases hd : degree c a with
  | error k => simp [degToPy, bind, Except.bind]
  | ok d => simp [degToPy, bind, Except.bind]

/-- an antecedent that is not loaded (`self.expression` is `None`): `RuntimeError` -/
theorem code_activationDegree_notLoaded (c : DegCtx Rat)
    (cj dj : Option (X Rat → X Rat → X Rat)) :
    Antecedent_activation_degree.run c .none cj dj .none {} = .error .runtime := by
  have h0 : depth Expression.none = 0 := rfl
  have h1 : Expression.none.truthy = false := rfl
  simp only [Antecedent_activation_degree.run, h0, h1, Nat.add_zero, Antecedent_activation_degree.rec, Bool.not_false,
    if_true, Bool.false_eq_true, if_false]

/-- object trees that `Antecedent.load` does not build: a proposition without a variable and an operator with a
    missing operand raise `ValueError` (whatever `self.expression` is) -/
theorem code_activationDegree_defects (c : DegCtx Rat) (e : Expression)
    (cj dj : Option (X Rat → X Rat → X Rat)) :
    (∀ hs t, Antecedent_activation_degree.run c e cj dj (.prop ⟨none, hs, t⟩) {} = .error .value) ∧
    (∀ n r, Antecedent_activation_degree.run c e cj dj (.op n .none r) {} = .error .value) ∧
    (∀ n l, Antecedent_activation_degree.run c e cj dj (.op n l .none) {} = .error .value) := by
  refine ⟨fun hs t => ?_, fun n r => ?_, fun n l => ?_⟩
  · simp [Antecedent_activation_degree.run, Antecedent_activation_degree.rec, Expression.truthy, Expression.isProp,
      variableOf, varTruthy, bind, Except.bind]
  · simp [Antecedent_activation_degree.run, Antecedent_activation_degree.rec, Expression.truthy, bind, Except.bind]
  · simp [Antecedent_activation_degree.run, Antecedent_activation_degree.rec, bind, Except.bind, Expression.truthy]

end Op
