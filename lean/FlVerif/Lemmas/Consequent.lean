import FlVerif.Op.Consequent

/-! helper lemmas for C07: the token loop of `Consequent.load` over the text of one conclusion -/

namespace C07
open Spec.Consequent Op.Consequent

/-- a conclusion the grammar can express over the given output variables and hedge names -/
def WF (outs : List (String × List String)) (hedgeNames : List String) (c : PConcl) : Prop :=
  ∃ terms t, lookupVar outs c.var = some terms ∧ c.term = some t ∧ terms.contains t = true ∧
    hedgeNames.contains t = false ∧ ∀ h ∈ c.hedges, hedgeNames.contains h = true

theorem run_append (outs : List (String × List String)) (hn : List String) (st : St) (done : List PConcl)
    (cur : Option (PConcl × List String)) (a b : List String) :
    run outs hn st done cur (a ++ b) =
      match run outs hn st done cur a with
      | some (st', done', cur') => run outs hn st' done' cur' b
      | none => none := by
  induction a generalizing st done cur with
  | nil => simp [run]
  | cons t ts ih =>
    simp only [List.cons_append, run]
    cases step outs hn st done cur t with
    | none => rfl
    | some r => obtain ⟨st', done', cur'⟩ := r; exact ih st' done' cur'

theorem run_hedges (outs : List (String × List String)) (hn : List String) (done : List PConcl)
    (p : PConcl) (terms : List String) (hs : List String) (h : ∀ x ∈ hs, hn.contains x = true) :
    run outs hn .hedgeTerm done (some (p, terms)) hs
      = some (.hedgeTerm, done, some ({ p with hedges := p.hedges ++ hs }, terms)) := by
  induction hs generalizing p with
  | nil => simp [run]
  | cons x xs ih =>
    have hx : hn.contains x = true := h x (by simp)
    simp only [run, step, hx, if_true]
    rw [ih _ (fun y hy => h y (by simp [hy]))]
    simp

theorem run_one (outs : List (String × List String)) (hn : List String) (done : List PConcl)
    (cur : Option (PConcl × List String)) (c : PConcl) (hwf : WF outs hn c) :
    ∃ terms, run outs hn .variable done cur (renderOne c)
      = some (.andWith, (flush done cur), some (c, terms)) := by
  obtain ⟨terms, t, hv, ht, htc, hth, hh⟩ := hwf
  refine ⟨terms, ?_⟩
  obtain ⟨var, hedges, term⟩ := c
  simp only at hv ht hh
  subst ht
  simp only [renderOne, List.cons_append, List.nil_append, run, step, hv]
  simp only [beq_self_eq_true, if_true]
  rw [run_append, run_hedges outs hn _ _ terms hedges hh]
  simp only [List.contains_eq_mem, decide_eq_true_eq, decide_eq_false_iff_not] at hth htc
  simp [run, step, hth, htc]

end C07
