import FlVerif.Lemmas.CodeWave5ZRule
import FlVerif.Lemmas.CodeLoadAnte

/-! # `Antecedent.postfix` of a loaded antecedent gives the postfix text back

`Antecedent.load` reads the postfix tokens with its five-flag state machine (`Op.antecedentLoadPostfix`); the tree it
builds, rendered by `Antecedent.postfix`, is the list of these tokens joined by single blanks - token for token. -/

namespace CodeW5ZR
open Lang Op Op.AntecedentText Py.Load

/-! ## the state machine keeps the tokens -/

/-- the word `is` belongs to the proposition on top of the stack as soon as its variable has been read -/
def pending (st : AFlags) : List String := if st = fIs then ["is"] else []

/-- what holds between the flags, the stack and the tokens consumed so far -/
def LInv (st : AFlags) (stack : List ANode) (consumed : List String) : Prop :=
  (st = fVariable ∨ st = fIs ∨ st = fHedgeTerm ∨ st = fVariableAndOr) ∧
  ((st = fIs ∨ st = fHedgeTerm) → ∃ v hs rest, stack = .prop v hs none :: rest) ∧
  stack.reverse.flatMap ANode.pfx = consumed ++ pending st

theorem pfx_prop (v : String) (hs : List String) : ANode.pfx (.prop v hs none) = [v, "is"] ++ hs := by
  simp [ANode.pfx]

theorem aStep_var (e : EngineInfo) (st : AFlags) (stack : List ANode) (token : String) (consumed : List String)
    (hp : pending st = []) (h3 : stack.reverse.flatMap ANode.pfx = consumed ++ pending st) :
    LInv fIs (.prop token [] none :: stack) (consumed ++ [token]) := by
  refine ⟨Or.inr (Or.inl rfl), fun _ => ⟨token, [], stack, rfl⟩, ?_⟩
  rw [hp] at h3
  simp [pfx_prop, h3, pending]

theorem aStep_inv (e : EngineInfo) (st : AFlags) (stack : List ANode) (token : String) (consumed : List String)
    (st' : AFlags) (stack' : List ANode) (h : LInv st stack consumed) (hs : aStep e st stack token = .ok (st', stack')) :
    LInv st' stack' (consumed ++ [token]) := by
  obtain ⟨h1, h2, h3⟩ := h
  rcases h1 with rfl | rfl | rfl | rfl
  · -- expecting a variable
    simp only [aStep, fVariable, Bool.true_and, Bool.false_and, Bool.false_eq_true, if_false] at hs
    split at hs
    · simp only [Except.ok.injEq, Prod.mk.injEq] at hs
      obtain ⟨rfl, rfl⟩ := hs
      exact aStep_var e _ stack token consumed (by decide) h3
    · cases hs
  · -- expecting `is`
    simp only [aStep, fIs, Bool.true_and, Bool.false_and, Bool.false_eq_true, if_false] at hs
    split at hs
    · rename_i ht
      have ht' : token = "is" := by simpa using ht
      subst ht'
      simp only [Except.ok.injEq, Prod.mk.injEq] at hs
      obtain ⟨rfl, rfl⟩ := hs
      refine ⟨Or.inr (Or.inr (Or.inl rfl)), fun _ => h2 (Or.inl rfl), ?_⟩
      have : pending fIs = ["is"] := by decide
      rw [this] at h3
      have : pending fHedgeTerm = [] := by decide
      rw [this, h3]; simp
    · cases hs
  · -- expecting a hedge or a term
    obtain ⟨v, hd, rest, rfl⟩ := h2 (Or.inr rfl)
    have hp : pending fHedgeTerm = [] := by decide
    rw [hp] at h3
    simp only [List.reverse_cons, List.flatMap_append, List.flatMap_cons, List.flatMap_nil, List.append_nil, pfx_prop]
      at h3
    simp only [aStep, fHedgeTerm, Bool.true_and, Bool.false_and, Bool.false_eq_true, if_false] at hs
    split at hs
    · simp only [Except.ok.injEq, Prod.mk.injEq] at hs
      obtain ⟨rfl, rfl⟩ := hs
      by_cases hany : (token == "any") = true
      · simp only [hany, if_true]
        refine ⟨Or.inr (Or.inr (Or.inr rfl)), fun h => ?_, ?_⟩
        · rcases h with h | h <;> exact absurd h (by decide)
        · rw [← h3]; simp [pfx_prop, ANode.pfx, pending, fIs, fHedgeTerm, fVariableAndOr]
      · simp only [hany, Bool.false_eq_true, if_false]
        refine ⟨Or.inr (Or.inr (Or.inl rfl)), fun _ => ⟨v, hd ++ [token], rest, rfl⟩, ?_⟩
        rw [← h3]; simp [pfx_prop, ANode.pfx, pending, fIs, fHedgeTerm, fVariableAndOr]
    · split at hs
      · simp only [Except.ok.injEq, Prod.mk.injEq] at hs
        obtain ⟨rfl, rfl⟩ := hs
        refine ⟨Or.inr (Or.inr (Or.inr rfl)), fun h => ?_, ?_⟩
        · rcases h with h | h <;> exact absurd h (by decide)
        · rw [← h3]; simp [pfx_prop, ANode.pfx, pending, fIs, fHedgeTerm, fVariableAndOr]
      · cases hs
  · -- expecting a variable or a connective
    have hp : pending fVariableAndOr = [] := by decide
    simp only [aStep, fVariableAndOr, Bool.true_and, Bool.false_and, Bool.false_eq_true, if_false] at hs
    split at hs
    · simp only [Except.ok.injEq, Prod.mk.injEq] at hs
      obtain ⟨rfl, rfl⟩ := hs
      exact aStep_var e _ stack token consumed hp h3
    · split at hs
      · cases stack with
        | nil => cases hs
        | cons r t =>
          cases t with
          | nil => cases hs
          | cons l rest =>
            simp only [Except.ok.injEq, Prod.mk.injEq] at hs
            obtain ⟨rfl, rfl⟩ := hs
            refine ⟨Or.inr (Or.inr (Or.inr rfl)), fun h => ?_, ?_⟩
            · rcases h with h | h <;> exact absurd h (by decide)
            · rw [hp] at h3
              simp only [List.reverse_cons, List.flatMap_append, List.flatMap_cons, List.flatMap_nil, List.append_nil,
                List.append_assoc] at h3
              rw [← h3]; simp [pfx_prop, ANode.pfx, pending, fIs, fHedgeTerm, fVariableAndOr]
      · cases hs

theorem aLoop_inv (e : EngineInfo) : ∀ (ts : List String) (st : AFlags) (stack : List ANode) (consumed : List String)
    (st' : AFlags) (stack' : List ANode), LInv st stack consumed → aLoop e ts st stack = .ok (st', stack') →
    LInv st' stack' (consumed ++ ts)
  | [], st, stack, consumed, st', stack', h, hl => by
    simp only [aLoop, Except.ok.injEq, Prod.mk.injEq] at hl
    obtain ⟨rfl, rfl⟩ := hl
    simpa using h
  | t :: ts, st, stack, consumed, st', stack', h, hl => by
    simp only [aLoop] at hl
    cases hs : aStep e st stack t with
    | error k => rw [hs] at hl; cases hl
    | ok p =>
      obtain ⟨s1, k1⟩ := p
      rw [hs] at hl
      have := aLoop_inv e ts s1 k1 (consumed ++ [t]) st' stack' (aStep_inv e st stack t consumed s1 k1 h hs) hl
      simpa using this

/-- **the tree keeps the postfix text** (model side): the postfix form of the loaded tree is the token list -/
theorem pfx_of_load (e : EngineInfo) (pf : List String) (a : ANode) (h : antecedentLoadPostfix e pf = .ok a) :
    a.pfx = pf := by
  unfold antecedentLoadPostfix at h
  cases hl : aLoop e pf fVariable [] with
  | error k => rw [hl] at h; cases h
  | ok p =>
    obtain ⟨st, stack⟩ := p
    rw [hl] at h
    have hinv := aLoop_inv e pf fVariable [] [] st stack
      ⟨Or.inl rfl, fun h => by rcases h with h | h <;> exact absurd h (by decide), by simp [pending]; decide⟩ hl
    obtain ⟨h1, _, h3⟩ := hinv
    simp only [List.nil_append] at h3
    by_cases hc : (!(st.var_ || st.andOr)) = true
    · simp [hc] at h
    · simp only [hc, Bool.false_eq_true, if_false] at h
      have hp : pending st = [] := by
        rcases h1 with rfl | rfl | rfl | rfl
        · decide
        · exact absurd (by decide) hc
        · exact absurd (by decide) hc
        · decide
      cases stack with
      | nil => cases h
      | cons x t =>
        cases t with
        | cons _ _ => cases h
        | nil =>
          simp only [Except.ok.injEq] at h
          subst h
          simpa [hp] using h3

/-! ## the rendering of the code's tree -/

theorem anode_pfx_ne : ∀ (a : ANode), a.pfx ≠ []
  | .prop v hs t => by simp [ANode.pfx]
  | .op n l r => by simp [ANode.pfx]

theorem join3 (A B : List String) (hA : A ≠ []) (hB : B ≠ []) (n : String) :
    Py.joinSp [Py.joinSp A, Py.joinSp B, n] = Py.joinSp (A ++ B ++ [n]) := by
  unfold Py.joinSp
  rw [List.append_assoc, String.intercalate_append_of_ne_nil hA (by simp), String.intercalate_append_of_ne_nil hB (by simp),
    String.intercalate_cons_cons, String.intercalate_cons_cons, String.intercalate_singleton]

/-- `Antecedent.postfix` of an expression object that stands for the model's tree `a` is the postfix form of `a`,
    joined by blanks -/
theorem postText_exprA : ∀ (x : Expression) (a : ANode), exprA x = some a → x ≠ .none ∧ postText x = Py.joinSp a.pfx
  | .none, _, h => by simp [exprA] at h
  | .prop p, a, h => by
    simp only [exprA, Option.some.injEq] at h
    subst h
    refine ⟨by simp, ?_⟩
    cases ht : p.term_ <;> simp [postText, propText, ANode.pfx, ht]
  | .op n l r, a, h => by
    simp only [exprA] at h
    cases hl : exprA l with
    | none => simp [hl] at h
    | some a1 =>
      cases hr : exprA r with
      | none => simp [hl, hr] at h
      | some a2 =>
        simp only [hl, hr, Option.some.injEq] at h
        subst h
        obtain ⟨nl, el⟩ := postText_exprA l a1 hl
        obtain ⟨nr, er⟩ := postText_exprA r a2 hr
        refine ⟨by simp, ?_⟩
        rw [postText_op, kid, kid, if_neg nl, if_neg nr, el, er]
        exact join3 _ _ (anode_pfx_ne a1) (anode_pfx_ne a2) n

/-- **`Antecedent.postfix` of the expression loaded from a postfix text gives the text back**, token for token: for
    every engine, every token list `pf` the state machine of `Antecedent.load` accepts, and the expression object `x`
    the translated loader stores for it (`C06.code_antecedentLoad`: `exprA x` is the model's tree) -/
theorem antecedent_postfix_of_load (e : EngineInfo) (pf : List String) (a : ANode) (x : Expression)
    (hl : antecedentLoadPostfix e pf = .ok a) (hx : exprA x = some a) :
    ∃ σ, Gen.Code.Antecedent_postfix.run x .none {} = .ok σ ∧ σ.ret = some (Py.joinSp pf) := by
  obtain ⟨hn, ht⟩ := postText_exprA x a hx
  have h := code_antecedentPostfix x .none
  simp only [render, if_true, hn, if_false] at h
  rw [ht, pfx_of_load e pf a hl] at h
  exact h

end CodeW5ZR
