import FlVerif.Gen.CodeWave5XCfg
import FlVerif.Lemmas.CodeFllImport
import FlVerif.Lemmas.CodeFllImportTerm

/-! # Tie A for `Engine.configure` and `FllImporter.component`

`Engine.configure` is translated with `raise_state`: an exception carries the record of the locals, in which `blocks` /
`outputs` are the rule blocks / output variables the two loops have assigned to so far. -/

namespace Op.Engine
open Op.FllIO Gen.Code

/-- an optional object as an argument that is not a name -/
def OpArg.ofOption {T : Type} : Option T → OpArg T
  | Option.none => .none
  | some o => .obj o

@[simp] theorem OpArg.value_ofOption {T : Type} (o : Option T) : (OpArg.ofOption o).value = o := by
  cases o <;> rfl

/-- one of the six statements `if isinstance(x, str): x = factory.construct(x)` followed by the rest `k`: it raises
    what `resolve` raises, with the record as it is, and otherwise goes on with `x` bound to the resolved value -/
theorem resolve_step {T S : Type} (f : String → Py.M T) (x : OpArg T) (σ : S) (set : OpArg T → S)
    (k : S → Except (Py.Err × S) S) (h : set x = σ) :
    (if x.isName then Py.inState σ (OpArg.construct f x) >>= fun v => k (set v) else k σ) =
      (match x.resolve f with
       | .error err => .error (err, σ)
       | .ok o => k (set (OpArg.ofOption o))) := by
  cases x with
  | none => simp only [OpArg.isName, Bool.false_eq_true, if_false, OpArg.resolve, OpArg.ofOption, h]
  | obj o => simp only [OpArg.isName, Bool.false_eq_true, if_false, OpArg.resolve, OpArg.ofOption, h]
  | name s =>
    simp only [OpArg.isName, if_true, OpArg.construct, OpArg.resolve]
    cases f s with
    | error e => rfl
    | ok o => rfl

/-- the six arguments held by the record -/
def argsOf (σ : Engine_configure.S) : Resolved :=
  ⟨σ.conjunction.value, σ.disjunction.value, σ.implication.value, σ.aggregation.value, σ.defuzzifier.value,
   σ.activation.value⟩

/-- the loop over the rule blocks assigns the four operators to every block, in order -/
theorem code_configureBlocks (F : Factories) (e : Engine) (a : ConfigArgs) : ∀ (bs : List Block) (σ : Engine_configure.S),
    ∃ σ', Engine_configure.loop1 F e a bs σ = .ok σ' ∧ argsOf σ' = argsOf σ ∧ σ'.outputs = σ.outputs ∧
      σ'.blocks = σ.blocks ++ bs.map (argsOf σ).setBlock
  | [], σ => ⟨σ, rfl, rfl, rfl, by simp⟩
  | b :: bs, σ => by
    simp only [Engine_configure.loop1]
    obtain ⟨σ', h1, h2, h3, h4⟩ := code_configureBlocks F e a bs
      { σ with block := (argsOf σ).setBlock b, blocks := σ.blocks ++ [(argsOf σ).setBlock b] }
    refine ⟨σ', h1, h2, h3, ?_⟩
    rw [h4]
    simp only [argsOf, Resolved.setBlock, List.map_cons, List.append_assoc, List.singleton_append]

/-- the loop over the output variables assigns the two operators to every variable, in order -/
theorem code_configureOutputs (F : Factories) (e : Engine) (a : ConfigArgs) : ∀ (vs : List OutVar) (σ : Engine_configure.S),
    ∃ σ', Engine_configure.loop2 F e a vs σ = .ok σ' ∧ σ'.blocks = σ.blocks ∧
      σ'.outputs = σ.outputs ++ vs.map (argsOf σ).setOutput
  | [], σ => ⟨σ, rfl, rfl, by simp⟩
  | v :: vs, σ => by
    simp only [Engine_configure.loop2]
    obtain ⟨σ', h1, h2, h3⟩ := code_configureOutputs F e a vs
      { σ with variable_ := (argsOf σ).setOutput v, outputs := σ.outputs ++ [(argsOf σ).setOutput v] }
    refine ⟨σ', h1, h2, ?_⟩
    rw [h3]
    simp only [argsOf, Resolved.setOutput, List.map_cons, List.append_assoc, List.singleton_append]

/-- what remains of `configure` from some statement on, started on the record `σ0`, against the rest `m` of the model:
    a raise leaves the blocks / output variables assigned so far as they are in `σ0`, otherwise the two loops add the
    configured rule blocks and output variables of the engine -/
def Tail (e : Engine) (σ0 : Engine_configure.S) (m : Py.M Resolved)
    (g : Except (Py.Err × Engine_configure.S) Engine_configure.S) : Prop :=
  match m with
  | .error err => ∃ σ', g = .error (err, σ') ∧ σ'.blocks = σ0.blocks ∧ σ'.outputs = σ0.outputs
  | .ok r => ∃ σ', g = .ok σ' ∧ σ'.blocks = σ0.blocks ++ e.blocks.map r.setBlock ∧
      σ'.outputs = σ0.outputs ++ e.outputs.map r.setOutput

/-- **`Engine.configure` as translated from the source = the model `Op.Engine.configure`**, with the state at a raise:
    when the model raises, the translated code raises the same class and has assigned to no rule block and no output
    variable; otherwise the blocks and output variables it has assigned to are those of the model's engine -/
theorem code_engineConfigure (F : Factories) (e : Engine) (a : ConfigArgs) :
    match configure F a e with
    | .error err => ∃ σ, Engine_configure.run F e a {} = .error (err, σ) ∧ σ.blocks = [] ∧ σ.outputs = []
    | .ok e' => ∃ σ, Engine_configure.run F e a {} = .ok σ ∧ σ.blocks = e'.blocks ∧ σ.outputs = e'.outputs := by
  have main : Tail e {} (resolveAll F a) (Engine_configure.run F e a {}) := by
    unfold Engine_configure.run resolveAll
    extract_lets σ1 σ2 σ3 σ4 σ5 σ6 k6 k5 k4 k3 k2 k1
    have h6 : ∀ σ, Tail e σ (.ok (argsOf σ)) (k6 σ) := by
      intro σ
      obtain ⟨τ, t1, t2, t3, t4⟩ := code_configureBlocks F e a e.blocks σ
      obtain ⟨υ, u1, u2, u3⟩ := code_configureOutputs F e a e.outputs τ
      refine ⟨υ, ?_, ?_, ?_⟩
      · simp only [k6, t1, u1, bind, Except.bind]
      · rw [u2, t4]
      · rw [u3, t3, t2]
    have h5 : ∀ σ, Tail e σ (σ.activation.resolve F.activation >>= fun t =>
        .ok { argsOf σ with activation := t }) (k5 σ) := by
      intro σ
      simp only [k5]
      rw [resolve_step F.activation σ.activation σ (fun v => { σ with activation := v }) k6 rfl]
      cases σ.activation.resolve F.activation with
      | error err => exact ⟨σ, rfl, rfl, rfl⟩
      | ok o => simpa [argsOf, Tail, bind, Except.bind] using h6 { σ with activation := OpArg.ofOption o }
    have h4 : ∀ σ, Tail e σ (σ.defuzzifier.resolve F.defuzzifier >>= fun z =>
        σ.activation.resolve F.activation >>= fun t =>
        .ok { argsOf σ with defuzzifier := z, activation := t }) (k4 σ) := by
      intro σ
      simp only [k4]
      rw [resolve_step F.defuzzifier σ.defuzzifier σ (fun v => { σ with defuzzifier := v }) k5 rfl]
      cases σ.defuzzifier.resolve F.defuzzifier with
      | error err => exact ⟨σ, rfl, rfl, rfl⟩
      | ok o => simpa [argsOf, Tail, bind, Except.bind] using h5 { σ with defuzzifier := OpArg.ofOption o }
    have h3 : ∀ σ, Tail e σ (σ.aggregation.resolve F.snorm >>= fun g =>
        σ.defuzzifier.resolve F.defuzzifier >>= fun z =>
        σ.activation.resolve F.activation >>= fun t =>
        .ok { argsOf σ with aggregation := g, defuzzifier := z, activation := t }) (k3 σ) := by
      intro σ
      simp only [k3]
      rw [resolve_step F.snorm σ.aggregation σ (fun v => { σ with aggregation := v }) k4 rfl]
      cases σ.aggregation.resolve F.snorm with
      | error err => exact ⟨σ, rfl, rfl, rfl⟩
      | ok o => simpa [argsOf, Tail, bind, Except.bind] using h4 { σ with aggregation := OpArg.ofOption o }
    have h2 : ∀ σ, Tail e σ (σ.implication.resolve F.tnorm >>= fun i =>
        σ.aggregation.resolve F.snorm >>= fun g =>
        σ.defuzzifier.resolve F.defuzzifier >>= fun z =>
        σ.activation.resolve F.activation >>= fun t =>
        .ok { argsOf σ with implication := i, aggregation := g, defuzzifier := z, activation := t }) (k2 σ) := by
      intro σ
      simp only [k2]
      rw [resolve_step F.tnorm σ.implication σ (fun v => { σ with implication := v }) k3 rfl]
      cases σ.implication.resolve F.tnorm with
      | error err => exact ⟨σ, rfl, rfl, rfl⟩
      | ok o => simpa [argsOf, Tail, bind, Except.bind] using h3 { σ with implication := OpArg.ofOption o }
    have h1 : ∀ σ, Tail e σ (σ.disjunction.resolve F.snorm >>= fun d =>
        σ.implication.resolve F.tnorm >>= fun i =>
        σ.aggregation.resolve F.snorm >>= fun g =>
        σ.defuzzifier.resolve F.defuzzifier >>= fun z =>
        σ.activation.resolve F.activation >>= fun t =>
        .ok { argsOf σ with disjunction := d, implication := i, aggregation := g, defuzzifier := z,
                            activation := t }) (k1 σ) := by
      intro σ
      simp only [k1]
      rw [resolve_step F.snorm σ.disjunction σ (fun v => { σ with disjunction := v }) k2 rfl]
      cases σ.disjunction.resolve F.snorm with
      | error err => exact ⟨σ, rfl, rfl, rfl⟩
      | ok o => simpa [argsOf, Tail, bind, Except.bind] using h2 { σ with disjunction := OpArg.ofOption o }
    rw [resolve_step F.tnorm σ6.conjunction σ6 (fun v => { σ6 with conjunction := v }) k1 rfl]
    show Tail e {} (a.conjunction.resolve F.tnorm >>= _) _
    cases a.conjunction.resolve F.tnorm with
    | error err => exact ⟨σ6, rfl, rfl, rfl⟩
    | ok o => simpa [argsOf, Tail, bind, Except.bind, σ6, σ5, σ4, σ3, σ2, σ1] using h1 { σ6 with conjunction := OpArg.ofOption o }
  unfold configure
  cases hr : resolveAll F a with
  | error err =>
    rw [hr] at main
    obtain ⟨σ', m1, m2, m3⟩ := main
    exact ⟨σ', m1, m2, m3⟩
  | ok r =>
    rw [hr] at main
    obtain ⟨σ', m1, m2, m3⟩ := main
    exact ⟨σ', m1, by rw [m2]; rfl, by rw [m3]; rfl⟩

/-! ## laws of the model (and, through the tie, of the translated code) -/

/-- the engine after a call that returns: every rule block and output variable holds the six resolved values -/
theorem configure_ok (F : Factories) (a : ConfigArgs) (e e' : Engine) (h : configure F a e = .ok e') :
    ∃ r, resolveAll F a = .ok r ∧ e'.blocks = e.blocks.map r.setBlock ∧ e'.outputs = e.outputs.map r.setOutput := by
  unfold configure at h
  cases hr : resolveAll F a with
  | error err => rw [hr] at h; simp [bind, Except.bind] at h
  | ok r =>
    rw [hr] at h
    simp only [bind, Except.bind, Except.ok.injEq] at h
    exact ⟨r, rfl, by rw [← h], by rw [← h]⟩

theorem resolve_none {T : Type} (f : String → Py.M T) : (OpArg.none : OpArg T).resolve f = .ok none := rfl

/-- an argument `None` resolves to `None` -/
theorem resolveAll_none (F : Factories) (a : ConfigArgs) (r : Resolved) (h : resolveAll F a = .ok r) :
    (a.conjunction = .none → r.conjunction = none) ∧ (a.disjunction = .none → r.disjunction = none) ∧
    (a.implication = .none → r.implication = none) ∧ (a.aggregation = .none → r.aggregation = none) ∧
    (a.defuzzifier = .none → r.defuzzifier = none) ∧ (a.activation = .none → r.activation = none) := by
  unfold resolveAll at h
  cases h1 : a.conjunction.resolve F.tnorm with
  | error err => rw [h1] at h; simp [bind, Except.bind] at h
  | ok c =>
  cases h2 : a.disjunction.resolve F.snorm with
  | error err => rw [h1, h2] at h; simp [bind, Except.bind] at h
  | ok d =>
  cases h3 : a.implication.resolve F.tnorm with
  | error err => rw [h1, h2, h3] at h; simp [bind, Except.bind] at h
  | ok i =>
  cases h4 : a.aggregation.resolve F.snorm with
  | error err => rw [h1, h2, h3, h4] at h; simp [bind, Except.bind] at h
  | ok g =>
  cases h5 : a.defuzzifier.resolve F.defuzzifier with
  | error err => rw [h1, h2, h3, h4, h5] at h; simp [bind, Except.bind] at h
  | ok z =>
  cases h6 : a.activation.resolve F.activation with
  | error err => rw [h1, h2, h3, h4, h5, h6] at h; simp [bind, Except.bind] at h
  | ok t =>
    rw [h1, h2, h3, h4, h5, h6] at h
    simp only [bind, Except.bind, Except.ok.injEq] at h
    subst h
    refine ⟨fun n => ?_, fun n => ?_, fun n => ?_, fun n => ?_, fun n => ?_, fun n => ?_⟩
    · rw [n, resolve_none] at h1; exact (Except.ok.inj h1).symm
    · rw [n, resolve_none] at h2; exact (Except.ok.inj h2).symm
    · rw [n, resolve_none] at h3; exact (Except.ok.inj h3).symm
    · rw [n, resolve_none] at h4; exact (Except.ok.inj h4).symm
    · rw [n, resolve_none] at h5; exact (Except.ok.inj h5).symm
    · rw [n, resolve_none] at h6; exact (Except.ok.inj h6).symm

/-- **`None` is assigned, not skipped**: after `configure` with `None` for an operator (the default of the parameter),
    that operator of every rule block / output variable IS `None`, whatever it was before -/
theorem configure_none_clears (F : Factories) (a : ConfigArgs) (e e' : Engine) (h : configure F a e = .ok e') :
    (a.conjunction = .none → ∀ b ∈ e'.blocks, b.conjunction = none) ∧
    (a.disjunction = .none → ∀ b ∈ e'.blocks, b.disjunction = none) ∧
    (a.implication = .none → ∀ b ∈ e'.blocks, b.implication = none) ∧
    (a.activation = .none → ∀ b ∈ e'.blocks, b.activation = none) ∧
    (a.aggregation = .none → ∀ v ∈ e'.outputs, v.aggregation = none) ∧
    (a.defuzzifier = .none → ∀ v ∈ e'.outputs, v.defuzzifier = none) := by
  obtain ⟨r, hr, hb, ho⟩ := configure_ok F a e e' h
  obtain ⟨n1, n2, n3, n4, n5, n6⟩ := resolveAll_none F a r hr
  rw [hb, ho]
  refine ⟨fun n b hb => ?_, fun n b hb => ?_, fun n b hb => ?_, fun n b hb => ?_, fun n v hv => ?_, fun n v hv => ?_⟩
  all_goals obtain ⟨x, _, rfl⟩ := List.mem_map.mp ‹_›
  · exact n1 n
  · exact n2 n
  · exact n3 n
  · exact n6 n
  · exact n4 n
  · exact n5 n

/-- everything else of the engine, of a rule block and of an output variable is left as it is -/
theorem configure_frame (F : Factories) (a : ConfigArgs) (e e' : Engine) (h : configure F a e = .ok e') :
    e'.name = e.name ∧ e'.description = e.description ∧ e'.inputs = e.inputs ∧
    e'.blocks.map (fun b => (b.name, b.description, b.enabled, b.rules)) =
      e.blocks.map (fun b => (b.name, b.description, b.enabled, b.rules)) ∧
    e'.outputs.map (fun v => (v.base, v.default, v.lockPrevious)) =
      e.outputs.map (fun v => (v.base, v.default, v.lockPrevious)) := by
  obtain ⟨r, hr, hb, ho⟩ := configure_ok F a e e' h
  unfold configure at h
  rw [hr] at h
  simp only [bind, Except.bind, Except.ok.injEq] at h
  subst h
  refine ⟨rfl, rfl, rfl, ?_, ?_⟩
  · simp only [List.map_map]; rfl
  · simp only [List.map_map]; rfl

/-- a name the factory does not know -/
def Rejected (F : Factories) (a : ConfigArgs) : Prop :=
  (∃ s err, a.conjunction = .name s ∧ F.tnorm s = .error err) ∨ (∃ s err, a.disjunction = .name s ∧ F.snorm s = .error err) ∨
  (∃ s err, a.implication = .name s ∧ F.tnorm s = .error err) ∨ (∃ s err, a.aggregation = .name s ∧ F.snorm s = .error err) ∨
  (∃ s err, a.defuzzifier = .name s ∧ F.defuzzifier s = .error err) ∨
  (∃ s err, a.activation = .name s ∧ F.activation s = .error err)

/-- the factories raise `ValueError` only (what `ConstructionFactory.construct` does for an unregistered name) -/
def OnlyValueError (F : Factories) : Prop :=
  (∀ s err, F.tnorm s = .error err → err = .value) ∧ (∀ s err, F.snorm s = .error err → err = .value) ∧
  (∀ s err, F.defuzzifier s = .error err → err = .value) ∧ (∀ s err, F.activation s = .error err → err = .value)

theorem resolve_error {T : Type} (f : String → Py.M T) (x : OpArg T) (err : Py.Err) (h : x.resolve f = .error err) :
    ∃ s, x = .name s ∧ f s = .error err := by
  cases x with
  | none => simp [OpArg.resolve] at h
  | obj o => simp [OpArg.resolve] at h
  | name s =>
    refine ⟨s, rfl, ?_⟩
    simp only [OpArg.resolve] at h
    cases hf : f s with
    | error e' => rw [hf] at h; simpa [bind, Except.bind] using h
    | ok o => rw [hf] at h; simp [bind, Except.bind] at h

theorem resolve_ok_name {T : Type} (f : String → Py.M T) (s : String) (o : Option T) (err : Py.Err)
    (h : (OpArg.name s).resolve f = .ok o) (hf : f s = .error err) : False := by
  simp [OpArg.resolve, hf, bind, Except.bind] at h

/-- a rejected name makes the model raise; the class is the one the factory raises -/
theorem resolveAll_rejected (F : Factories) (a : ConfigArgs) (h : Rejected F a) :
    ∃ err, resolveAll F a = .error err ∧ (OnlyValueError F → err = .value) := by
  unfold resolveAll
  cases h1 : a.conjunction.resolve F.tnorm with
  | error err =>
    obtain ⟨s, _, hf⟩ := resolve_error _ _ _ h1
    exact ⟨err, rfl, fun hv => hv.1 s err hf⟩
  | ok c =>
  cases h2 : a.disjunction.resolve F.snorm with
  | error err =>
    obtain ⟨s, _, hf⟩ := resolve_error _ _ _ h2
    exact ⟨err, rfl, fun hv => hv.2.1 s err hf⟩
  | ok d =>
  cases h3 : a.implication.resolve F.tnorm with
  | error err =>
    obtain ⟨s, _, hf⟩ := resolve_error _ _ _ h3
    exact ⟨err, rfl, fun hv => hv.1 s err hf⟩
  | ok i =>
  cases h4 : a.aggregation.resolve F.snorm with
  | error err =>
    obtain ⟨s, _, hf⟩ := resolve_error _ _ _ h4
    exact ⟨err, rfl, fun hv => hv.2.1 s err hf⟩
  | ok g =>
  cases h5 : a.defuzzifier.resolve F.defuzzifier with
  | error err =>
    obtain ⟨s, _, hf⟩ := resolve_error _ _ _ h5
    exact ⟨err, rfl, fun hv => hv.2.2.1 s err hf⟩
  | ok z =>
  cases h6 : a.activation.resolve F.activation with
  | error err =>
    obtain ⟨s, _, hf⟩ := resolve_error _ _ _ h6
    exact ⟨err, rfl, fun hv => hv.2.2.2 s err hf⟩
  | ok t =>
    exfalso
    rcases h with ⟨s, err, hn, hf⟩ | ⟨s, err, hn, hf⟩ | ⟨s, err, hn, hf⟩ | ⟨s, err, hn, hf⟩ | ⟨s, err, hn, hf⟩ | ⟨s, err, hn, hf⟩
    · rw [hn] at h1; exact resolve_ok_name _ _ _ _ h1 hf
    · rw [hn] at h2; exact resolve_ok_name _ _ _ _ h2 hf
    · rw [hn] at h3; exact resolve_ok_name _ _ _ _ h3 hf
    · rw [hn] at h4; exact resolve_ok_name _ _ _ _ h4 hf
    · rw [hn] at h5; exact resolve_ok_name _ _ _ _ h5 hf
    · rw [hn] at h6; exact resolve_ok_name _ _ _ _ h6 hf

/-- **a name unknown to its factory: the translated `configure` raises, and at the raise no rule block and no output
    variable has been assigned to** (the factories are consulted before the loops); `ValueError` when that is what the
    factories raise -/
theorem configure_unknown_name_unchanged (F : Factories) (e : Engine) (a : ConfigArgs) (h : Rejected F a) :
    ∃ err σ, Engine_configure.run F e a {} = .error (err, σ) ∧ σ.blocks = [] ∧ σ.outputs = [] ∧
      (OnlyValueError F → err = .value) := by
  obtain ⟨err, hr, hv⟩ := resolveAll_rejected F a h
  have ht := code_engineConfigure F e a
  unfold configure at ht
  rw [hr] at ht
  obtain ⟨σ, t1, t2, t3⟩ := ht
  exact ⟨err, σ, t1, t2, t3, hv⟩

/-- a witness that `None` is not skipped -/
theorem configure_none_is_not_skipped (F : Factories) (h : F.tnorm "Minimum" = .ok "Minimum") :
    configure F { conjunction := .name "Minimum" } { blocks := [{ disjunction := some "Maximum" }] } =
      .ok { blocks := [{ conjunction := some "Minimum", disjunction := none }] } := by
  simp [configure, resolveAll, OpArg.resolve, h, bind, Except.bind, Resolved.setBlock, Resolved.setOutput]

/-- the T-norm factory of the library rejects what is not in the regenerated table -/
theorem configure_unknown_tnorm (F : Factories) (e : Engine) (a : ConfigArgs) (s : String)
    (hF : F.tnorm = Py.Fll.constructNorm Gen.Tables.tnormKeys) (ha : a.conjunction = .name s)
    (hs : s ∉ Gen.Tables.tnormKeys) :
    ∃ σ, Engine_configure.run F e a {} = .error (.value, σ) ∧ σ.blocks = [] ∧ σ.outputs = [] := by
  have h := code_engineConfigure F e a
  have hr : configure F a e = .error .value := by
    simp [configure, resolveAll, ha, OpArg.resolve, hF, Py.Fll.constructNorm, hs, bind, Except.bind]
  rw [hr] at h
  exact h

end Op.Engine

/-! ## `FllImporter.component` -/

namespace Py.W5
open Op.FllIO Py.Fll Gen.Code

/-- `FllImporter.component(cls, fll)` on a stripped value: the first of the four `issubclass` tests that holds selects
    the text-level model of the method (`activOf`, `defuzzOf`, `normOf` over the table of S-norms / T-norms); a class
    that is none of the four is a `TypeError` -/
def componentOf (cls : ClassOf) (fll : String) : Py.M Component :=
  if cls.isActivation then (activOf fll).map .activation
  else if cls.isDefuzzifier then (defuzzOf fll).map .defuzzifier
  else if cls.isSNorm then (lift (normOf Gen.Tables.snormKeys (textTok fll.toList))).map .snorm
  else if cls.isTNorm then (lift (normOf Gen.Tables.tnormKeys (textTok fll.toList))).map .tnorm
  else .error .internal

/-- **`FllImporter.component` as translated from the source = the dispatch `componentOf`** -/
theorem code_fllComponent (cls : ClassOf) (v : String) :
    FllImporter_component.run cls (strip v) {} = (componentOf cls (strip v)).map (fun c => { ret := some c }) := by
  unfold FllImporter_component.run componentOf
  have ha := Op.FllIO.code_activation v
  have hd := Op.FllIO.code_defuzzifier v
  have hs := Op.FllIO.code_snorm (strip v)
  have ht := Op.FllIO.code_tnorm (strip v)
  cases c1 : cls.isActivation
  · cases c2 : cls.isDefuzzifier
    · cases c3 : cls.isSNorm
      · cases c4 : cls.isTNorm
        · simp only [Bool.false_eq_true, if_false]
          rfl
        · simp only [Bool.false_eq_true, if_false, if_true]
          rw [ht]
          cases lift (normOf Gen.Tables.tnormKeys (textTok (strip v).toList)) <;> rfl
      · simp only [Bool.false_eq_true, if_false, if_true]
        rw [hs]
        cases lift (normOf Gen.Tables.snormKeys (textTok (strip v).toList)) <;> rfl
    · simp only [Bool.false_eq_true, if_false, if_true]
      rw [← hd]
      cases FllImporter_defuzzifier.run (strip v) {} with
      | error e => rfl
      | ok r =>
        simp only [bind, Except.bind]
        generalize r.ret = o
        cases o <;> rfl
  · simp only [if_true]
    rw [← ha]
    cases FllImporter_activation.run (strip v) {} with
    | error e => rfl
    | ok r =>
      simp only [bind, Except.bind]
      generalize r.ret = o
      cases o <;> rfl

end Py.W5
