import FlVerif.Lemmas.CodeBlockActFactory
import FlVerif.Op.FllIO

/-! # Tie A for the factory look-ups of the FLL importer: `FllImporter.tnorm` / `snorm`

`if not fll or fll == "none": return None` and otherwise `settings.factory_manager.<kind>.construct(fll)` - the callee
being the translated `ConstructionFactory.construct` on the registered names.  The model of the importer reads a norm
from the tokens of the value (`Op.FllIO.normOf keys`): no token for an empty value, one word otherwise. -/

namespace Py.BlockAct
open Gen.Code Op.FllIO

/-- the exception class of an error of the importer model -/
def fllErrToPy : Op.FllIO.Err → Py.Err
  | .syntax => .syntax | .value => .value | .key => .lookup

/-- the tokens of a value that is empty or one word -/
def normToks (fll : String) : List Tok := if fll = "" then [] else [.w fll]

theorem construct_run_registered (keys : List String) (fll : String) :
    (ConstructionFactory_construct.run (registered keys) (fun c => (.ok c : Py.M String)) fll {} >>= fun r => Py.deref r.ret) =
      if fll ∈ keys then .ok fll else .error .value := by
  have h := code_factoryConstruct (registered keys) (fun c => (.ok c : Py.M String)) fll
  rw [construct_registered] at h
  by_cases hk : fll ∈ keys
  · simp only [hk, if_true] at h ⊢
    obtain ⟨σ, h1, h2⟩ := h
    rw [h1]; simp only [bind, Except.bind, h2, Py.deref_some]
  · simp only [hk, if_false] at h ⊢
    rw [h]; rfl

theorem code_importTnorm (keys : List String) (fll : String) :
    match normOf keys (normToks fll) with
    | .error e => FllImporter_tnorm_factory.run keys fll {} = .error (fllErrToPy e)
    | .ok v => ∃ σ, FllImporter_tnorm_factory.run keys fll {} = .ok σ ∧ σ.ret = v := by
  unfold FllImporter_tnorm_factory.run normToks
  rw [construct_run_registered]
  by_cases h0 : fll = ""
  · subst h0; exact ⟨_, rfl, rfl⟩
  · by_cases h1 : fll = "none"
    · subst h1; exact ⟨_, rfl, rfl⟩
    · by_cases hk : fll ∈ keys
      · simp [normOf, h0, h1, hk, bind, Except.bind]
      · simp [normOf, h0, h1, hk, bind, Except.bind, fllErrToPy]

theorem code_importSnorm (keys : List String) (fll : String) :
    match normOf keys (normToks fll) with
    | .error e => FllImporter_snorm_factory.run keys fll {} = .error (fllErrToPy e)
    | .ok v => ∃ σ, FllImporter_snorm_factory.run keys fll {} = .ok σ ∧ σ.ret = v := by
  unfold FllImporter_snorm_factory.run normToks
  rw [construct_run_registered]
  by_cases h0 : fll = ""
  · subst h0; exact ⟨_, rfl, rfl⟩
  · by_cases h1 : fll = "none"
    · subst h1; exact ⟨_, rfl, rfl⟩
    · by_cases hk : fll ∈ keys
      · simp [normOf, h0, h1, hk, bind, Except.bind]
      · simp [normOf, h0, h1, hk, bind, Except.bind, fllErrToPy]

end Py.BlockAct
