import FlVerif.Gen.CodeTermParse

/-! # Tie A for the helpers of `Operation` used by the FuzzyLite Language layer

`Op.as_identifier` (character classes as parameters), `Op.strip_comments` (character-level model
`Py.FllIn.stripComments`), `Op.scale`, `Op.bound`, as translated from the current source (`Gen/CodeTermParse.lean`). -/

namespace Py.FllIn
open Op.FllIO Gen.Code

/-! ### `Op.as_identifier` -/

theorem first_ofList (c : Char) (r : List Char) : first (String.ofList (c :: r)) = .ok c := by
  simp [first]

/-- `Op.as_identifier(name)` for any character classes in which `_` is not numeric -/
theorem code_asIdentifier (alnum numeric : Char → Bool) (hu : numeric '_' = false) (name : String) :
    ∃ σ, Op_as_identifier.run alnum numeric name {} = .ok σ ∧ σ.ret = some (asIdentWith alnum numeric name) := by
  unfold Op_as_identifier.run asIdentWith asIdentCharsWith
  simp only [List.map_id']
  cases hf : List.filter (fun x => alnum x || x == '_') name.toList with
  | nil =>
    have h1 : first "_" = .ok '_' := rfl
    simp only [String.ofList_nil, bne_self_eq_false, Bool.false_eq_true, if_false, h1, hu, bind, Except.bind]
    exact ⟨_, rfl, rfl⟩
  | cons c r =>
    have hne : (String.ofList (c :: r) != "") = true := by simp
    simp only [hne, if_true, first_ofList, bind, Except.bind]
    cases hn : numeric c with
    | false => exact ⟨_, rfl, rfl⟩
    | true =>
      refine ⟨_, rfl, ?_⟩
      simp only [↓reduceIte, Option.some.injEq]
      apply String.toList_inj.1
      simp

/-- the ASCII classes of the model satisfy the side condition -/
theorem underscore_not_numeric : Char.isDigit '_' = false := by decide

/-! ### `Op.strip_comments` -/

/-- a line of the result: the text before the delimiter, stripped -/
def lineOf (delim : Char) (s : String) : String := String.ofList (stripLine delim s.toList)

theorem findCharAux_spec (c : Char) : ∀ (cs : List Char) (i : Nat),
    (Py.findCharAux c cs i = -1 ∧ cs.takeWhile (· ≠ c) = cs) ∨
    (∃ k : Nat, Py.findCharAux c cs i = ((i + k : Nat) : Int) ∧ cs.take k = cs.takeWhile (· ≠ c))
  | [], i => Or.inl ⟨rfl, rfl⟩
  | d :: rest, i => by
    by_cases hd : d = c
    · refine Or.inr ⟨0, ?_, ?_⟩
      · simp [Py.findCharAux, hd]
      · simp [hd]
    · rcases findCharAux_spec c rest (i + 1) with ⟨h1, h2⟩ | ⟨k, h1, h2⟩
      · refine Or.inl ⟨?_, ?_⟩
        · simp only [Py.findCharAux, hd, if_false, h1]
        · simpa [hd] using h2
      · refine Or.inr ⟨k + 1, ?_, ?_⟩
        · simp only [Py.findCharAux, hd, if_false, h1]
          congr 1
          omega
        · simpa [hd] using h2

theorem strip_notfound (c : Char) (s : String) (h : Py.findChar s c = -1) : strip s = lineOf c s := by
  unfold strip lineOf stripLine
  rcases findCharAux_spec c s.toList 0 with ⟨_, h2⟩ | ⟨k, h1, _⟩
  · rw [h2]
  · unfold Py.findChar at h
    rw [h1] at h
    omega

theorem strip_found (c : Char) (s : String) (h : Py.findChar s c ≠ -1) :
    strip (Py.strPrefix s (Py.findChar s c)) = lineOf c s := by
  unfold strip lineOf stripLine Py.strPrefix
  rcases findCharAux_spec c s.toList 0 with ⟨h1, _⟩ | ⟨k, h1, h2⟩
  · exact absurd h1 h
  · unfold Py.findChar
    rw [h1, String.toList_ofList, ← h2]
    simp

/-- the loop of `strip_comments`: the non-empty stripped lines are appended in order -/
theorem stripLoop (fll : String) (delim : Char) : ∀ (ls : List String) (σ : Op_strip_comments.S),
    ∃ σ', Op_strip_comments.loop1 fll delim ls σ = .ok σ' ∧
      σ'.lines = σ.lines ++ (ls.map (lineOf delim)).filter (· ≠ "")
  | [], σ => ⟨σ, rfl, by simp⟩
  | x :: rest, σ => by
    simp only [Op_strip_comments.loop1]
    by_cases hf : Py.findChar x delim = -1
    · have hb : (Py.findChar x delim != -1) = false := by simp [hf]
      simp only [hb, Bool.false_eq_true, if_false, strip_notfound delim x hf]
      by_cases he : lineOf delim x = ""
      · simp only [he, bne_self_eq_false, Bool.false_eq_true, if_false]
        obtain ⟨σ', h1, h2⟩ := stripLoop fll delim rest { σ with line := "", ignore := Py.findChar x delim }
        exact ⟨σ', h1, by simp [h2, he]⟩
      · have hb2 : (lineOf delim x != "") = true := by simp [he]
        simp only [hb2, if_true]
        obtain ⟨σ', h1, h2⟩ := stripLoop fll delim rest
          { σ with line := lineOf delim x, ignore := Py.findChar x delim, lines := σ.lines ++ [lineOf delim x] }
        exact ⟨σ', h1, by simp [h2, he]⟩
    · have hb : (Py.findChar x delim != -1) = true := by simp [hf]
      simp only [hb, if_true, strip_found delim x hf]
      by_cases he : lineOf delim x = ""
      · simp only [he, bne_self_eq_false, Bool.false_eq_true, if_false]
        obtain ⟨σ', h1, h2⟩ := stripLoop fll delim rest { σ with line := "", ignore := Py.findChar x delim }
        exact ⟨σ', h1, by simp [h2, he]⟩
      · have hb2 : (lineOf delim x != "") = true := by simp [he]
        simp only [hb2, if_true]
        obtain ⟨σ', h1, h2⟩ := stripLoop fll delim rest
          { σ with line := lineOf delim x, ignore := Py.findChar x delim, lines := σ.lines ++ [lineOf delim x] }
        exact ⟨σ', h1, by simp [h2, he]⟩

/-- `Op.strip_comments(fll, delimiter)` for a one-character delimiter -/
theorem code_stripComments (fll : String) (delim : Char) :
    ∃ σ, Op_strip_comments.run fll delim {} = .ok σ ∧ σ.ret = some (stripComments delim fll) := by
  unfold Op_strip_comments.run
  obtain ⟨σ', h1, h2⟩ := stripLoop fll delim (splitNl fll) { lines := [] }
  simp only [h1, bind, Except.bind]
  refine ⟨_, rfl, ?_⟩
  simp only [h2, List.nil_append, stripComments]
  rfl

/-! ### `to_float` -/

/-- `to_float(x)` of a string is the reader: a number, or `ValueError` -/
theorem code_toFloat (rd : String → Option Num) (x : String) :
    match rd x with
    | none => Gen.Code.to_float.run rd x {} = .error .value
    | some v => ∃ σ, Gen.Code.to_float.run rd x {} = .ok σ ∧ σ.ret = some v := by
  unfold Gen.Code.to_float.run toFloat
  cases rd x with
  | none => rfl
  | some v => exact ⟨_, rfl, rfl⟩

/-! ### `Op.scale`, `Op.bound` -/

theorem code_scale (x xmin xmax ymin ymax : X Rat) :
    ∃ σ, Op_scale.run x xmin xmax ymin ymax {} = .ok σ ∧ σ.ret = some (scale x xmin xmax ymin ymax) :=
  ⟨_, rfl, rfl⟩

theorem code_bound (x lo hi : X Rat) :
    ∃ σ, Op_bound.run x lo hi {} = .ok σ ∧ σ.ret = some (X.clip x lo hi) :=
  ⟨_, rfl, rfl⟩

end Py.FllIn
