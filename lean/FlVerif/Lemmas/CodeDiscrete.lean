import FlVerif.Gen.CodeDiscrete

/-! # Tie A for `Discrete.membership`, `Discrete.x` / `y`, `Discrete.to_xy`, `Constant.membership`,
`Term.update_reference` / `Linear.update_reference`, `Aggregated.range`: the definitions translated from the current
sources equal the models (`Op.discrete`, the interpolation model of C03; `Py.Disc.toXy`) -/

namespace Py.Disc
open Gen.Code Py.Np

theorem X_mul_one (h : X Rat) : X.mul h (.fin 1) = h := by
  cases h <;> simp [X.mul, X.mulInf]

theorem finitePts_ofPts : ∀ pts : List (Rat × Rat),
    finitePts (pts.map (fun p => X.fin p.1)) (pts.map (fun p => X.fin p.2)) = some pts
  | [] => rfl
  | p :: pts => by simp [finitePts, finitePts_ofPts pts]

theorem column0_ofPts (pts : List (Rat × Rat)) :
    (Values.ofPts pts).column 0 = .ok (.vec (pts.map (fun p => X.fin p.1))) := by
  simp [Values.ofPts, Values.column, List.map_map, Function.comp_def]

theorem column1_ofPts (pts : List (Rat × Rat)) :
    (Values.ofPts pts).column 1 = .ok (.vec (pts.map (fun p => X.fin p.2))) := by
  simp [Values.ofPts, Values.column, List.map_map, Function.comp_def]

/-- `np.interp` on one finite sample point ignores `x` -/
theorem npInterp_single (nf : X Rat → Row → Row → X Rat) (x : X Rat) (p : Rat × Rat) :
    npInterp nf x (.vec [X.fin p.1]) (.vec [X.fin p.2]) = .ok (X.fin p.2) := by
  simp [npInterp, finitePts]

/-- `np.interp` on two or more finite sample points is the interpolation model -/
theorem npInterp_many (nf : X Rat → Row → Row → X Rat) (x : X Rat) (p q : Rat × Rat) (r : List (Rat × Rat)) :
    npInterp nf x (.vec ((p :: q :: r).map (fun p => X.fin p.1))) (.vec ((p :: q :: r).map (fun p => X.fin p.2))) =
      .ok (Op.interpX (p :: q :: r) x) := by
  have h := finitePts_ofPts (p :: q :: r)
  simp only [List.map_cons] at h
  simp only [npInterp, List.map_cons, List.length_cons, List.length_map, ne_eq, not_true_eq_false, if_false,
    List.isEmpty_cons, Bool.false_eq_true, h]

/-- with one sample point the model is the ordinate, except at NaN -/
theorem interpX_single (p : Rat × Rat) (x : X Rat) (hx : x.isnan = false) : Op.interpX [p] x = X.fin p.2 := by
  cases x with
  | nan => simp at hx
  | ninf => rfl
  | pinf => rfl
  | fin v => simp [Op.interpX, Op.interp, Op.interpGo]

/-- the product `height * np.where(np.isnan(x), nan, 1.0) * v` -/
theorem height_where (h x v : X Rat) :
    X.mul (X.mul h (X.sel (X.isnan x) X.nan (.fin 1))) v = if x.isnan then X.nan else X.mul h v := by
  cases hx : x.isnan <;> simp [X_mul_one]

/-- **`Discrete.membership` as translated from the source = the model `Op.discrete`** (for coordinate pairs that are
    finite numbers); an array without entries or of another rank than two is a `ValueError` -/
theorem code_discreteMembership (nf : X Rat → Row → Row → X Rat) (values : Values) (h x : X Rat) :
    (values.size = 0 → Discrete_membership.run nf values h x {} = .error .value) ∧
    (values.ndim ≠ 2 → Discrete_membership.run nf values h x {} = .error .value) ∧
    (∀ pts : List (Rat × Rat), pts ≠ [] → values = Values.ofPts pts →
      ∃ σ, Discrete_membership.run nf values h x {} = .ok σ ∧ σ.ret = some (Op.discrete pts h x)) := by
  refine ⟨?_, ?_, ?_⟩
  · intro h0
    simp [Discrete_membership.run, h0]
  · intro h2
    unfold Discrete_membership.run
    by_cases h0 : values.size = 0
    · simp [h0]
    · simp [h0, h2]
  · intro pts hne hv
    subst hv
    have hsize : ((Values.ofPts pts).size == 0) = false := by
      cases pts with
      | nil => exact absurd rfl hne
      | cons p r => simp [Values.ofPts, Values.size]
    have hndim : ((Values.ofPts pts).ndim != 2) = false := by simp [Values.ofPts, Values.ndim]
    unfold Discrete_membership.run
    simp only [hsize, hndim, Bool.false_eq_true, if_false, column0_ofPts, column1_ofPts, bind, Except.bind]
    match pts, hne with
    | [p], _ =>
      simp only [List.map_cons, List.map_nil, npInterp_single, height_where]
      refine ⟨_, rfl, ?_⟩
      cases hx : x.isnan
      · simp [Op.discrete, interpX_single p x hx]
      · cases x <;> simp at hx
        simp [Op.discrete, Op.interpX]
    | p :: q :: r, _ =>
      rw [npInterp_many]
      simp only [height_where]
      refine ⟨_, rfl, ?_⟩
      cases hx : x.isnan
      · simp [Op.discrete]
      · cases x <;> simp at hx
        simp [Op.discrete, Op.interpX]

/-- **`Discrete.x` / `Discrete.y`**: the first / second column of a 2-D array (`IndexError` below two dimensions or
    without such a column); for the array of coordinate pairs, the abscissae / ordinates -/
theorem code_discreteX (values : Values) :
    (match values.column 0 with
     | .error e => Discrete_x.run values {} = .error e
     | .ok c => ∃ σ, Discrete_x.run values {} = .ok σ ∧ σ.ret = some c) ∧
    (∀ pts : List (X Rat × X Rat), (Values.ofPairs pts).column 0 = .ok (.vec (pts.map (·.1)))) ∧
    (∀ v, (Values.scalar v).column 0 = .error .lookup) ∧ (∀ l, (Values.vec l).column 0 = .error .lookup) := by
  refine ⟨?_, ?_, fun _ => rfl, fun _ => rfl⟩
  · unfold Discrete_x.run
    cases values.column 0 <;> simp [bind, Except.bind]
  · intro pts
    simp [Values.ofPairs, Values.column, List.map_map, Function.comp_def]

theorem code_discreteY (values : Values) :
    (match values.column 1 with
     | .error e => Discrete_y.run values {} = .error e
     | .ok c => ∃ σ, Discrete_y.run values {} = .ok σ ∧ σ.ret = some c) ∧
    (∀ pts : List (X Rat × X Rat), (Values.ofPairs pts).column 1 = .ok (.vec (pts.map (·.2)))) ∧
    (∀ v, (Values.scalar v).column 1 = .error .lookup) ∧ (∀ l, (Values.vec l).column 1 = .error .lookup) := by
  refine ⟨?_, ?_, fun _ => rfl, fun _ => rfl⟩
  · unfold Discrete_y.run
    cases values.column 1 <;> simp [bind, Except.bind]
  · intro pts
    simp [Values.ofPairs, Values.column, List.map_map, Function.comp_def]

/-- **`Discrete.to_xy` as translated from the source = `Py.Disc.toXy`** -/
theorem code_toXy (x y : Coord) :
    match toXy x y with
    | .error e => Discrete_to_xy.run x y {} = .error e
    | .ok v => ∃ σ, Discrete_to_xy.run x y {} = .ok σ ∧ σ.ret = some v := by
  unfold toXy Discrete_to_xy.run
  by_cases hs : x.shape = y.shape
  · simp only [hs, bne_self_eq_false, Bool.false_eq_true, if_false, if_true]
    cases stackT x y <;> simp [bind, Except.bind]
  · simp [hs]

/-- two vectors of the same length give the array of the pairs, of different lengths a `ValueError` -/
theorem toXy_vec (a b : Row) :
    toXy (.vec a) (.vec b) =
      if a.length = b.length then .ok (Values.ofPairs (List.zip a b)) else .error .value := by
  unfold toXy
  by_cases h : a.length = b.length
  · simp [Coord.shape, stackT, h, Values.ofPairs, List.zip, List.map_zipWith]
  · simp [Coord.shape, h]

/-- **`Constant.membership`**: the shape of the argument, every entry the value; for a scalar the value -/
theorem code_constantMembership (value : X Rat) (x : Nd) :
    (∃ σ, Constant_membership.run value x {} = .ok σ ∧ σ.ret = some (fullLike x value)) ∧
    (∀ v, fullLike (.scalar v) value = .scalar value) :=
  ⟨⟨_, rfl, rfl⟩, fun _ => rfl⟩

/-- **`Term.update_reference`** does nothing, **`Linear.update_reference`** stores the engine -/
theorem code_updateReference (engine : Option Engine) (σ : Term_update_reference.S) (τ : Linear_update_reference.S) :
    Term_update_reference.run engine σ = .ok σ ∧
    Linear_update_reference.run engine τ = .ok { τ with self_engine := engine } :=
  ⟨rfl, rfl⟩

/-- **`Aggregated.range`**: `maximum - minimum` -/
theorem code_aggregatedRange (minimum maximum : X Rat) :
    ∃ σ, Aggregated_range.run minimum maximum {} = .ok σ ∧ σ.ret = some (X.sub maximum minimum) :=
  ⟨_, rfl, rfl⟩

end Py.Disc
