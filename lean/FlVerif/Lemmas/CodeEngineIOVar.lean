import FlVerif.Gen.CodeEngineIO

/-! # Tie A for `Engine.copy` and for the accessors of `Variable` (`value` setter, `drange`, `range`): straight-line
    code, so every tie is a definitional unfolding – what it pins is which operations the source performs -/

namespace Op
open Gen.Code

/-- **the setter of `Variable.value` as translated from the source (AST) = `Op.setter`**: `np.clip(value, minimum,
    maximum)` when `lock_range`, the value itself otherwise -/
theorem code_valueSetter (c : CascadeCfg Rat) (v : X Rat) :
    ∃ σ, Variable_set_value.run c v {} = .ok σ ∧ σ.self__value = setter c v := by
  unfold Variable_set_value.run setter
  cases c.lockRange <;> exact ⟨_, rfl, rfl⟩

/-- the clipping setter of an input variable (`Op.Engine.InVar.setValue`) is the same function -/
theorem inVar_setValue_eq (iv : Engine.InVar Rat) (v : X Rat) :
    (iv.setValue v).value =
      setter { lockPrev := false, lockRange := iv.lockRange, dflt := .nan, lo := iv.lo, hi := iv.hi } v := rfl

theorem code_drange (c : CascadeCfg Rat) :
    ∃ σ, Variable_drange.run c {} = .ok σ ∧ σ.ret = some (drange c) := ⟨_, rfl, rfl⟩

theorem code_range (c : CascadeCfg Rat) :
    ∃ σ, Variable_range.run c {} = .ok σ ∧ σ.ret = some (range c) := ⟨_, rfl, rfl⟩

theorem code_setRange (c : CascadeCfg Rat) (p : X Rat × X Rat) :
    ∃ σ, Variable_set_range.run p { self_minimum := c.lo, self_maximum := c.hi } = .ok σ ∧
      σ.self_minimum = (setRange c p).lo ∧ σ.self_maximum = (setRange c p).hi := ⟨_, rfl, rfl, rfl⟩

/-- **`Engine.copy` as translated from the source = `Op.Session.copy`**: one `copy.deepcopy(self)`, returned as it is –
    no restart, no reloading of rules, no other statement -/
theorem code_copy (s : Session.Sess Rat) :
    ∃ σ, Engine_copy.run s {} = .ok σ ∧ σ.ret = some (Session.copy s) := ⟨_, rfl, rfl⟩

end Op
