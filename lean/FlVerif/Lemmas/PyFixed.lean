import FlVerif.Lemmas.PyTree
import FlVerif.Lemmas.FllRepresentable

/-! Prefixes of the constructor-call tree, and `repr (eval (repr o)) = repr o`. -/

namespace Op.PyRepr
open Dec Op.FllIO Spec.Fll

/-! ### prefixes -/

/-- every call, array, `nan` / `inf` literal and rule creation carries the prefix of the alias setting -/
def PrefixOK (env : Env) (s : Src) : Prop :=
  Rose.Forall
    (fun a => match a with
      | .lit p _ => p = settingsPrefix env
      | .rule p _ => p = classPrefix env "Rule"
      | .invalid => True)
    (fun k _ => match k with
      | .array p => p = settingsPrefix env
      | .call p cls _ => p = classPrefix env cls
      | _ => True) s

theorem prefix_asConstructor (env : Env) : ∀ v : Val, PrefixOK env (asConstructor env v) := by
  refine Rose.ind ?_ ?_
  · intro a
    cases a <;> simp [asConstructor, litSrc, PrefixOK, Rose.Forall]
  · intro k kids ih
    have hkids : Rose.ForallList _ _ (kids.map (asConstructor env)) :=
      (Rose.forallList_iff _ _ _).2 (fun t ht => by
        obtain ⟨x, hx, rfl⟩ := List.mem_map.1 ht
        exact ih x hx)
    cases k with
    | list => simp only [asConstructor, asConstructorList_eq]; exact ⟨trivial, hkids⟩
    | array => simp only [asConstructor, asConstructorList_eq]; exact ⟨rfl, hkids⟩
    | dict keys => simp only [asConstructor, asConstructorList_eq]; exact ⟨trivial, hkids⟩
    | obj cls names =>
      simp only [asConstructor, asConstructorList_eq]
      cases hps : paramsOf cls with
      | none => simp [PrefixOK, Rose.Forall]
      | some ps =>
        cases hinfo : reprInfoOf cls with
        | none => simp [PrefixOK, Rose.Forall]
        | some info =>
          simp only
          by_cases hunk : (info.cond.any fun c => c.2 == DropKind.unknown) = true
          · simp [hunk, PrefixOK, Rose.Forall]
          · simp only [hunk, Bool.false_eq_true, if_false]
            cases hargs : emit (fun n => if (passed env ps info (names.zip kids) n).isSome
                then (names.zip (kids.map (asConstructor env))).lookup n else none) info.positional ps with
            | none => simp [PrefixOK, Rose.Forall]
            | some args =>
              refine ⟨rfl, (Rose.forallList_iff _ _ _).2 ?_⟩
              intro t ht
              obtain ⟨a, ha, rfl⟩ := List.mem_map.1 ht
              obtain ⟨n, hn⟩ := emit_values _ _ ps args hargs a ha
              by_cases hp : (passed env ps info (names.zip kids) n).isSome = true
              · simp only [hp, if_true] at hn
                have := lookup_zip_mem names _ n a.2 hn
                obtain ⟨x, hx, hxe⟩ := List.mem_map.1 this
                rw [← hxe]; exact ih x hx
              · simp [hp] at hn

/-! ### `repr (eval (repr o)) = repr o` -/

theorem emit_congr {β : Type} (f g : String → Option β) (b : Bool) (ps : List Param)
    (h : ∀ p ∈ ps, f p.name = g p.name) : emit f b ps = emit g b ps := by
  induction ps generalizing b with
  | nil => rfl
  | cons p ps ih =>
    have hp := h p (by simp)
    have ih' := fun b => ih b (fun q hq => h q (by simp [hq]))
    simp only [emit, hp, ih']

/-- what binding looks up for a parameter of the signature -/
theorem expected_lookup {β : Type} (fields : String → Option β) (dflt : Param → Option β) (ps : List Param)
    (hd : Distinct ps) (bound : List (String × β)) (h : expected fields dflt ps = some bound) :
    ∀ p ∈ ps, bound.lookup p.name = (match fields p.name with | some v => some v | none => dflt p) := by
  induction ps generalizing bound with
  | nil => intro p hp; simp at hp
  | cons q qs ih =>
    obtain ⟨hne, hd'⟩ := hd
    -- entries of the tail never carry the name of the head
    have tail_none : ∀ b', expected fields dflt qs = some b' → b'.lookup q.name = none := by
      intro b' hb'
      clear ih h
      induction qs generalizing b' with
      | nil => simp [expected] at hb'; subst hb'; rfl
      | cons r rs ihr =>
        have hr : r.name ≠ q.name := hne r (by simp)
        have hne' : ∀ x ∈ rs, x.name ≠ q.name := fun x hx => hne x (by simp [hx])
        simp only [expected] at hb'
        have hbeq : (q.name == r.name) = false := by simpa using fun e => hr e.symm
        cases hf : fields r.name with
        | some v =>
          simp only [hf, Option.map_eq_some_iff] at hb'
          obtain ⟨b2, hb2, rfl⟩ := hb'
          simp [List.lookup_cons, hbeq, ihr hne' hd'.2 b2 hb2]
        | none =>
          simp only [hf] at hb'
          cases hdf : dflt r with
          | some d =>
            simp only [hdf, Option.map_eq_some_iff] at hb'
            obtain ⟨b2, hb2, rfl⟩ := hb'
            simp [List.lookup_cons, hbeq, ihr hne' hd'.2 b2 hb2]
          | none =>
            simp only [hdf] at hb'
            by_cases hh : r.hasDefault = true
            · simp only [hh, if_true] at hb'; exact ihr hne' hd'.2 b' hb'
            · simp [hh] at hb'
    intro p hp
    simp only [expected] at h
    rcases List.mem_cons.1 hp with rfl | hp'
    · cases hf : fields p.name with
      | some v =>
        simp only [hf, Option.map_eq_some_iff] at h
        obtain ⟨b2, _, rfl⟩ := h
        simp
      | none =>
        simp only [hf] at h
        cases hdf : dflt p with
        | some d =>
          simp only [hdf, Option.map_eq_some_iff] at h
          obtain ⟨b2, _, rfl⟩ := h
          simp
        | none =>
          simp only [hdf] at h
          by_cases hh : p.hasDefault = true
          · simp only [hh, if_true] at h; simpa using tail_none bound h
          · simp [hh] at h
    · have hpq : p.name ≠ q.name := hne p hp'
      have hbeq : (p.name == q.name) = false := by simpa using hpq
      cases hf : fields q.name with
      | some v =>
        simp only [hf, Option.map_eq_some_iff] at h
        obtain ⟨b2, hb2, rfl⟩ := h
        simp only [List.lookup_cons, hbeq]
        exact ih hd' b2 hb2 p hp'
      | none =>
        simp only [hf] at h
        cases hdf : dflt q with
        | some d =>
          simp only [hdf, Option.map_eq_some_iff] at h
          obtain ⟨b2, hb2, rfl⟩ := h
          simp only [List.lookup_cons, hbeq]
          exact ih hd' b2 hb2 p hp'
        | none =>
          simp only [hdf] at h
          by_cases hh : q.hasDefault = true
          · simp only [hh, if_true] at h; exact ih hd' bound h p hp'
          · simp [hh] at h

theorem zip_map_fst_snd {α β : Type} (l : List (α × β)) : (l.map (·.1)).zip (l.map (·.2)) = l := by
  induction l with
  | nil => rfl
  | cons a l ih => simp [ih]

theorem lookup_map_snd {β γ : Type} (f : β → γ) (l : List (String × β)) (n : String) :
    (l.map (fun b => (b.1, f b.2))).lookup n = (l.lookup n).map f := by
  induction l with
  | nil => rfl
  | cons a l ih =>
    obtain ⟨k, v⟩ := a
    simp only [List.map_cons, List.lookup_cons]
    by_cases h : n == k <;> simp [h, ih]

/-- the default of a parameter of a duplicate-free signature, found by name -/
theorem defaultOf_mem (ps : List Param) (hd : Distinct ps) (p : Param) (hp : p ∈ ps) : defaultOf ps p.name = p.stored := by
  induction ps with
  | nil => simp at hp
  | cons q qs ih =>
    obtain ⟨hne, hd'⟩ := hd
    unfold defaultOf
    rcases List.mem_cons.1 hp with rfl | hp'
    · simp
    · have : ¬ (q.name = p.name) := fun e => hne p hp' e.symm
      simp only [List.find?_cons, this, decide_false]
      exact ih hd' hp'

theorem view_node_obj (env : Env) (cls : String) (names : List String) (kids : List Val) :
    ∃ names' kids', view env (.node (.obj cls names) kids) = .node (.obj cls names') kids' := by
  simp only [view]
  split
  · split
    · exact ⟨_, _, rfl⟩
    · exact ⟨_, _, rfl⟩
  · exact ⟨_, _, rfl⟩

theorem eqDefaultVal_obj (d : Val) (cls : String) (names : List String) (kids : List Val) :
    eqDefaultVal d (.node (.obj cls names) kids) = false := by
  cases d with
  | atom a => cases a <;> simp [eqDefaultVal]
  | node k ks =>
    cases ks with
    | cons x xs => simp [eqDefaultVal]
    | nil =>
      cases kids with
      | cons y ys => simp [eqDefaultVal]
      | nil =>
        cases k with
        | obj c n => simp [eqDefaultVal, emptyKind]
        | list => simp [eqDefaultVal]
        | array => simp [eqDefaultVal]
        | dict keys => simp [eqDefaultVal]

theorem eqDefaultVal_rule (d : Val) (r : Rule) : eqDefaultVal d (.atom (.rule r)) = false := by
  cases d with
  | atom a => cases a <;> simp [eqDefaultVal]
  | node k ks => cases ks <;> simp [eqDefaultVal]

theorem eqDefaultVal_view (env : Env) (d v : Val) : eqDefaultVal d (view env v) = eqDefaultVal d v := by
  cases v with
  | atom a =>
    cases a with
    | rule r => simp only [view]; rw [eqDefaultVal_rule, eqDefaultVal_rule]
    | num x => simp [view]
    | int z => simp [view]
    | str s => simp [view]
    | bool b => simp [view]
    | none => simp [view]
    | enum s => simp [view]
    | other w => simp [view]
  | node kk kids =>
    cases kk with
    | obj cls names =>
      obtain ⟨n', k', hv⟩ := view_node_obj env cls names kids
      rw [hv, eqDefaultVal_obj, eqDefaultVal_obj]
    | list =>
      cases kids with
      | nil => simp [view, viewList]
      | cons x xs => cases d with
        | atom a => cases a <;> simp [view, viewList, eqDefaultVal]
        | node k ks => cases ks <;> simp [view, viewList, eqDefaultVal]
    | array =>
      cases kids with
      | nil => simp [view, viewList]
      | cons x xs => cases d with
        | atom a => cases a <;> simp [view, viewList, eqDefaultVal]
        | node k ks => cases ks <;> simp [view, viewList, eqDefaultVal]
    | dict keys =>
      cases kids with
      | nil => simp [view, viewList]
      | cons x xs => cases d with
        | atom a => cases a <;> simp [view, viewList, eqDefaultVal]
        | node k ks => cases ks <;> simp [view, viewList, eqDefaultVal]

/-- the drop conditions do not see the difference between a value and its view -/
theorem dropHolds_view (env : Env) (d : Option Val) (k : DropKind) (v : Val) :
    dropHolds env d k (view env v) = dropHolds env d k v := by
  cases k with
  | unknown => simp [dropHolds]
  | eqDefault =>
    cases d with
    | none => simp [dropHolds]
    | some d => simp [dropHolds, eqDefaultVal_view]
  | close1 =>
    cases v with
    | atom a => cases a <;> simp [view, dropHolds]
    | node kk kids =>
      cases kk with
      | obj cls names =>
        obtain ⟨n', k', hv⟩ := view_node_obj env cls names kids
        rw [hv]; simp [dropHolds]
      | list => simp [view, dropHolds]
      | array => simp [view, dropHolds]
      | dict keys => simp [view, dropHolds]

theorem dropped_view (env : Env) (ps : List Param) (info : ReprInfo) (n : String) (v : Val) :
    dropped env ps info n (view env v) = dropped env ps info n v := by
  unfold dropped
  cases info.cond.lookup n with
  | none => rfl
  | some k => simp only [dropHolds_view]

theorem passed_view (env : Env) (ps : List Param) (info : ReprInfo) (names : List String) (kids : List Val) (n : String) :
    passed env ps info (names.zip (kids.map (view env))) n = (passed env ps info (names.zip kids) n).map (view env) := by
  unfold passed
  rw [lookup_zip_map]
  cases (names.zip kids).lookup n with
  | none => rfl
  | some w =>
    simp only [Option.map_some, Option.bind_some, dropped_view]
    by_cases hd : dropped env ps info n w = true <;> simp [hd]

theorem zip_map_snd {α β γ : Type} (f : β → γ) (l : List (α × β)) :
    (l.map (·.1)).zip ((l.map (·.2)).map f) = l.map (fun b => (b.1, f b.2)) := by
  induction l with
  | nil => rfl
  | cons a l ih => simp_all [Function.comp_def]

/-- for every conditional drop rule of the tables, the constructor default itself satisfies the rule -/
def TablesFixed (env : Env) : Prop :=
  ∀ cls ps info, paramsOf cls = some ps → reprInfoOf cls = some info →
    ∀ n k, info.cond.lookup n = some k → ∀ d, defaultOf ps n = some d → dropHolds env (some d) k d = true

/-- an object carries every stored constructor parameter of its class that its `__repr__` may pass on -/
def Complete (v : Val) : Prop :=
  Rose.Forall (fun _ => True) (fun k kids => match k with
    | .obj cls names => ∀ ps info, paramsOf cls = some ps → reprInfoOf cls = some info →
        ∀ p ∈ ps, p.stored.isSome = true → info.always.contains p.name = false →
          ((names.zip kids).lookup p.name).isSome = true
    | _ => True) v

theorem asConstructor_view (env : Env) (h0 : 0 ≤ env.cfg.tol) (ht : TablesDistinct) (hf : TablesFixed env) :
    ∀ v : Val, Complete v → asConstructor env (view env v) = asConstructor env v := by
  refine Rose.ind ?_ ?_
  · intro a _
    cases a with
    | rule r =>
      have hs := keepHeight_stable env.cfg h0
      have := ruleLine_canon (keepHeight env.cfg) env.cfg hs.1 r (hs.2 r.weight)
      simp only [ruleLine, Line.mk.injEq, true_and] at this
      simp [view, asConstructor, litSrc, this]
    | num x => simp [view]
    | int z => simp [view]
    | str s => simp [view]
    | bool b => simp [view]
    | none => simp [view]
    | enum s => simp [view]
    | other w => simp [view]
  · intro k kids ih hc
    have hck : ∀ t ∈ kids, Complete t := (Rose.forallList_iff _ _ kids).1 hc.2
    have hkids : (kids.map (view env)).map (asConstructor env) = kids.map (asConstructor env) := by
      rw [List.map_map]
      exact List.map_congr_left (fun t ht' => ih t ht' (hck t ht'))
    cases k with
    | list => simp only [view, viewList_eq, asConstructor, asConstructorList_eq, hkids]
    | array => simp only [view, viewList_eq, asConstructor, asConstructorList_eq, hkids]
    | dict keys => simp only [view, viewList_eq, asConstructor, asConstructorList_eq, hkids]
    | obj cls names =>
      cases hps : paramsOf cls with
      | none => simp only [view, hps, asConstructor]
      | some ps =>
        cases hinfo : reprInfoOf cls with
        | none => simp only [view, hps, hinfo, asConstructor]
        | some info =>
          have hdist := ht cls ps hps
          have hcomp := hc.1 ps info hps hinfo
          -- the fields passed on by the original object
          have hpv_lookup : ∀ n w, passed env ps info (names.zip kids) n = some w →
              (names.zip kids).lookup n = some w ∧ dropped env ps info n w = false := by
            intro n w h
            unfold passed at h
            cases hl : (names.zip kids).lookup n with
            | none => simp [hl] at h
            | some w' =>
              simp only [hl, Option.bind_some] at h
              by_cases hd : dropped env ps info n w' = true
              · simp [hd] at h
              · simp only [hd, Bool.false_eq_true, if_false, Option.some.injEq] at h
                subst h
                exact ⟨rfl, by simpa using hd⟩
          have hF : (fun n => if (passed env ps info (names.zip kids) n).isSome
              then (names.zip (kids.map (asConstructor env))).lookup n else none)
              = fun n => (passed env ps info (names.zip kids) n).map (asConstructor env) := by
            funext n
            cases hp : passed env ps info (names.zip kids) n with
            | none => simp
            | some w => simp [lookup_zip_map, (hpv_lookup n w hp).1]
          have hV : (fun n => if (passed env ps info (names.zip kids) n).isSome
              then (names.zip (kids.map (view env))).lookup n else none)
              = fun n => (passed env ps info (names.zip kids) n).map (view env) := by
            funext n
            cases hp : passed env ps info (names.zip kids) n with
            | none => simp
            | some w => simp [lookup_zip_map, (hpv_lookup n w hp).1]
          -- right-hand side
          have hrhs : asConstructor env (.node (.obj cls names) kids)
              = (if info.cond.any (fun c => c.2 == DropKind.unknown) then Rose.atom SAtom.invalid else
                match emit (fun n => (passed env ps info (names.zip kids) n).map (asConstructor env)) info.positional ps with
                | some args => Rose.node (SKind.call (classPrefix env cls) cls (args.map (·.1))) (args.map (·.2))
                | none => Rose.atom SAtom.invalid) := by
            simp only [asConstructor, asConstructorList_eq, hps, hinfo, hF]
            rfl
          rw [hrhs]
          simp only [view, viewList_eq, hps, hinfo, hV]
          cases hexp : expected (fun n => (passed env ps info (names.zip kids) n).map (view env)) (fun p => p.stored) ps with
          | none =>
            simp only [asConstructor, asConstructorList_eq, hps, hinfo, hkids]
            have : (fun n => if (passed env ps info (names.zip (kids.map (view env))) n).isSome
                then (names.zip (kids.map (asConstructor env))).lookup n else none)
                = fun n => (passed env ps info (names.zip kids) n).map (asConstructor env) := by
              funext n
              rw [passed_view]
              cases hp : passed env ps info (names.zip kids) n with
              | none => simp
              | some w => simp [lookup_zip_map, (hpv_lookup n w hp).1]
            rw [this]
            rfl
          | some bound =>
            simp only [asConstructor, asConstructorList_eq, hps, hinfo, zip_map_fst_snd, zip_map_snd, lookup_map_snd]
            have hlook := expected_lookup _ _ ps hdist bound hexp
            have hcongr : emit (fun n => if (passed env ps info bound n).isSome
                then (bound.lookup n).map (asConstructor env) else none) info.positional ps
                = emit (fun n => (passed env ps info (names.zip kids) n).map (asConstructor env)) info.positional ps := by
              apply emit_congr
              intro p hp
              have hl := hlook p hp
              cases hpv : passed env ps info (names.zip kids) p.name with
              | some w =>
                obtain ⟨hlk, hdr⟩ := hpv_lookup p.name w hpv
                have hwk : w ∈ kids := lookup_zip_mem names kids p.name w hlk
                simp only [hpv, Option.map_some] at hl ⊢
                have : passed env ps info bound p.name = some (view env w) := by
                  unfold passed
                  simp [hl, dropped_view, hdr]
                simp [this, hl, ih w hwk (hck w hwk)]
              | none =>
                simp only [hpv, Option.map_none] at hl ⊢
                cases hst : p.stored with
                | none =>
                  have : passed env ps info bound p.name = none := by
                    unfold passed; simp [hl, hst]
                  simp [this]
                | some d =>
                  have hdrop : dropped env ps info p.name d = true := by
                    by_cases hal : info.always.contains p.name = true
                    · have hmem : p.name ∈ info.always := by simpa using hal
                      simp [dropped, hmem]
                    · have hal' : info.always.contains p.name = false := by simpa using hal
                      have hpres := hcomp p hp (by simp [hst]) hal'
                      cases hlk : (names.zip kids).lookup p.name with
                      | none => simp [hlk] at hpres
                      | some w =>
                        have hdw : dropped env ps info p.name w = true := by
                          by_contra hne
                          have : passed env ps info (names.zip kids) p.name = some w := by
                            unfold passed; simp [hlk, hne]
                          rw [this] at hpv; cases hpv
                        unfold dropped at hdw ⊢
                        simp only [hal', Bool.false_or] at hdw ⊢
                        cases hcd : info.cond.lookup p.name with
                        | none => simp [hcd] at hdw
                        | some kd =>
                          simp only [hcd] at hdw ⊢
                          have hdo := defaultOf_mem ps hdist p hp
                          rw [hdo, hst]
                          exact hf cls ps info hps hinfo p.name kd hcd d (by rw [hdo, hst])
                  have : passed env ps info bound p.name = none := by
                    unfold passed; simp [hl, hst, hdrop]
                  simp [this]
            rw [hcongr]
            rfl

end Op.PyRepr
