import FlVerif.Spec.Norm
import Mathlib.Tactic.Ring
import Mathlib.Tactic.Linarith
import Mathlib.Tactic.FieldSimp
import Mathlib.Tactic.Positivity

/-! # Laws of the documented norms over an arbitrary linearly ordered field -/

namespace Spec
variable {α : Type} [Field α] [LinearOrder α] [IsStrictOrderedRing α]

/-! ### T-norms -/

theorem einstein_den_pos {a b : α} (ha : I a) (hb : I b) : 0 < 2 - (a + b - a * b) := by
  nlinarith [mul_nonneg (sub_nonneg.2 ha.2) (sub_nonneg.2 hb.2)]

theorem hamacher_den_pos {a b : α} (ha : I a) (hb : I b) (h : a + b ≠ 0) : 0 < a + b - a * b := by
  have h0 : 0 < a + b := lt_of_le_of_ne (add_nonneg ha.1 hb.1) (Ne.symm h)
  rcases lt_or_eq_of_le ha.1 with ha0 | ha0
  · nlinarith [mul_nonneg ha.1 (sub_nonneg.2 hb.2)]
  · rw [← ha0] at h0 ⊢; simpa using h0

theorem tnorm_comm (T : TNorm) (a b : α) : tnorm T a b = tnorm T b a := by
  cases T <;> simp only [tnorm, drastic, mul_comm a b, add_comm a b, max_comm a b, min_comm a b]

theorem tnorm_one (T : TNorm) {a : α} (ha : I a) : tnorm T a 1 = a := by
  obtain ⟨h0, h1⟩ := ha
  cases T <;> simp only [tnorm, drastic]
  · ring
  · simp [h0]
  · simp [max_eq_right h1, min_eq_left h1]
  · have : (2 : α) - (a + 1 - a * 1) = 1 := by ring
    rw [this]; simp
  · have hne : a + 1 ≠ 0 := by linarith
    have : a + 1 - a * 1 = 1 := by ring
    simp [hne, this]
  · exact min_eq_left h1
  · rcases lt_or_eq_of_le h0 with h | h
    · have : a + 1 > 1 := by linarith
      simp [this, min_eq_left h1]
    · simp [← h]

theorem tnorm_zero (T : TNorm) {a : α} (ha : I a) : tnorm T a 0 = 0 := by
  obtain ⟨h0, h1⟩ := ha
  cases T <;> simp only [tnorm, drastic]
  · ring
  · exact max_eq_left (by linarith)
  · split_ifs <;> simp [min_eq_right h0]
  · simp
  · simp
  · exact min_eq_right h0
  · have : ¬ a + 0 > 1 := by simp only [add_zero, gt_iff_lt, not_lt]; exact h1
    rw [if_neg this]

theorem tnorm_nonneg (T : TNorm) {a b : α} (ha : I a) (hb : I b) : 0 ≤ tnorm T a b := by
  cases T <;> simp only [tnorm, drastic]
  · exact mul_nonneg ha.1 hb.1
  · exact le_max_left _ _
  · split_ifs <;> simp [le_min, ha.1, hb.1]
  · exact div_nonneg (mul_nonneg ha.1 hb.1) (einstein_den_pos ha hb).le
  · split_ifs with h
    · exact div_nonneg (mul_nonneg ha.1 hb.1) (hamacher_den_pos ha hb h).le
    · exact le_refl _
  · exact le_min ha.1 hb.1
  · split_ifs <;> simp [le_min, ha.1, hb.1]

theorem tnorm_le_left (T : TNorm) {a b : α} (ha : I a) (hb : I b) : tnorm T a b ≤ a := by
  cases T <;> simp only [tnorm, drastic]
  · nlinarith [mul_nonneg ha.1 (sub_nonneg.2 hb.2)]
  · exact max_le ha.1 (by linarith [hb.2])
  · split_ifs
    · exact min_le_left _ _
    · exact ha.1
  · rw [div_le_iff₀ (einstein_den_pos ha hb)]
    nlinarith [mul_nonneg ha.1 (sub_nonneg.2 hb.2),
      mul_nonneg (mul_nonneg ha.1 (sub_nonneg.2 ha.2)) (sub_nonneg.2 hb.2)]
  · split_ifs with h
    · rw [div_le_iff₀ (hamacher_den_pos ha hb h)]
      nlinarith [mul_nonneg ha.1 (sub_nonneg.2 hb.2), mul_nonneg (mul_nonneg ha.1 ha.1) (sub_nonneg.2 hb.2),
        mul_nonneg ha.1 ha.1]
    · exact ha.1
  · exact min_le_left _ _
  · split_ifs
    · exact min_le_left _ _
    · exact ha.1

theorem tnorm_le_min (T : TNorm) {a b : α} (ha : I a) (hb : I b) : tnorm T a b ≤ min a b := by
  refine le_min (tnorm_le_left T ha hb) ?_
  rw [tnorm_comm]; exact tnorm_le_left T hb ha

theorem tnorm_range (T : TNorm) {a b : α} (ha : I a) (hb : I b) : I (tnorm T a b) :=
  ⟨tnorm_nonneg T ha hb, le_trans (tnorm_le_left T ha hb) ha.2⟩

theorem drastic_eq {a b : α} (ha : I a) (hb : I b) :
    drastic a b = if a = 1 then b else if b = 1 then a else 0 := by
  unfold drastic
  by_cases h1 : a = 1
  · subst h1; simp [max_eq_left hb.2, min_eq_right hb.2]
  · by_cases h2 : b = 1
    · subst h2; simp [h1, max_eq_right ha.2, min_eq_left ha.2]
    · have : max a b ≠ 1 := by
        intro h; rcases max_choice a b with h' | h' <;> rw [h'] at h <;> contradiction
      simp [h1, h2, this]

/-! ### monotonicity and associativity of the T-norms -/

theorem tnorm_mono_left (T : TNorm) {a a' b : α} (ha : I a) (ha' : I a') (hb : I b) (h : a ≤ a') :
    tnorm T a b ≤ tnorm T a' b := by
  cases T <;> simp only [tnorm, drastic]
  · exact mul_le_mul_of_nonneg_right h hb.1
  · exact max_le_max (le_refl _) (by linarith)
  · by_cases h1 : max a b = 1
    · have h2 : max a' b = 1 := le_antisymm (max_le ha'.2 hb.2) (h1 ▸ max_le_max h (le_refl b))
      rw [if_pos h1, if_pos h2]; exact min_le_min h (le_refl b)
    · rw [if_neg h1]; split_ifs
      · exact le_min ha'.1 hb.1
      · exact le_refl _
  · rw [div_le_div_iff₀ (einstein_den_pos ha hb) (einstein_den_pos ha' hb)]
    have h3 : 0 ≤ (a' - a) * b * (2 - b) := mul_nonneg (mul_nonneg (sub_nonneg.2 h) hb.1) (by linarith [hb.2])
    nlinarith [h3]
  · by_cases h1 : a + b ≠ 0
    · have h2 : a' + b ≠ 0 := by
        have : 0 < a + b := lt_of_le_of_ne (add_nonneg ha.1 hb.1) (Ne.symm h1)
        linarith
      rw [if_pos h1, if_pos h2, div_le_div_iff₀ (hamacher_den_pos ha hb h1) (hamacher_den_pos ha' hb h2)]
      have h3 : 0 ≤ (a' - a) * (b * b) := mul_nonneg (sub_nonneg.2 h) (mul_nonneg hb.1 hb.1)
      nlinarith [h3]
    · rw [if_neg h1]; split_ifs with h2
      · exact div_nonneg (mul_nonneg ha'.1 hb.1) (hamacher_den_pos ha' hb h2).le
      · exact le_refl _
  · exact min_le_min h (le_refl b)
  · by_cases h1 : a + b > 1
    · have h2 : a' + b > 1 := by linarith
      rw [if_pos h1, if_pos h2]; exact min_le_min h (le_refl b)
    · rw [if_neg h1]; split_ifs
      · exact le_min ha'.1 hb.1
      · exact le_refl _

theorem tnorm_assoc (T : TNorm) {a b c : α} (ha : I a) (hb : I b) (hc : I c) :
    tnorm T (tnorm T a b) c = tnorm T a (tnorm T b c) := by
  have hab := tnorm_range T ha hb
  have hbc := tnorm_range T hb hc
  cases T <;> simp only [tnorm] at hab hbc ⊢
  · ring
  · rcases le_total 0 (a + b - 1) with h1 | h1 <;> rcases le_total 0 (b + c - 1) with h2 | h2
    · rw [max_eq_right h1, max_eq_right h2]; congr 1; ring
    · rw [max_eq_right h1, max_eq_left h2, max_eq_left (by linarith [ha.2]), max_eq_left (by linarith [ha.2])]
    · rw [max_eq_left h1, max_eq_right h2, max_eq_left (by linarith [hc.2]), max_eq_left (by linarith [hc.2])]
    · rw [max_eq_left h1, max_eq_left h2, max_eq_left (by linarith [hc.2]), max_eq_left (by linarith [ha.2])]
  · rw [drastic_eq hab hc, drastic_eq ha hbc, drastic_eq ha hb, drastic_eq hb hc]
    by_cases h1 : a = 1 <;> by_cases h2 : b = 1 <;> by_cases h3 : c = 1 <;> simp [h1, h2, h3]
  · have h1 := einstein_den_pos ha hb
    have h2 := einstein_den_pos hb hc
    have h3 := einstein_den_pos hab hc
    have h4 := einstein_den_pos ha hbc
    rw [div_eq_div_iff h3.ne' h4.ne']
    field_simp
    ring
  · by_cases ha0 : a = 0
    · subst ha0; simp
    by_cases hb0 : b = 0
    · subst hb0; simp
    by_cases hc0 : c = 0
    · subst hc0; simp
    have pa : 0 < a := lt_of_le_of_ne ha.1 (Ne.symm ha0)
    have pb : 0 < b := lt_of_le_of_ne hb.1 (Ne.symm hb0)
    have pc : 0 < c := lt_of_le_of_ne hc.1 (Ne.symm hc0)
    have n1 : a + b ≠ 0 := by positivity
    have n2 : b + c ≠ 0 := by positivity
    have d1 := hamacher_den_pos ha hb n1
    have d2 := hamacher_den_pos hb hc n2
    simp only [if_pos n1, if_pos n2] at hab hbc ⊢
    have t1 : 0 < a * b / (a + b - a * b) := div_pos (mul_pos pa pb) d1
    have t2 : 0 < b * c / (b + c - b * c) := div_pos (mul_pos pb pc) d2
    have n3 : a * b / (a + b - a * b) + c ≠ 0 := by positivity
    have n4 : a + b * c / (b + c - b * c) ≠ 0 := by positivity
    have d3 := hamacher_den_pos hab hc n3
    have d4 := hamacher_den_pos ha hbc n4
    rw [if_pos n3, if_pos n4, div_eq_div_iff d3.ne' d4.ne']
    field_simp
    ring
  · simp only [min_assoc]
  · simp only [gt_iff_lt]
    split_ifs <;> simp only [min_def] at * <;> split_ifs at * <;> first | rfl | linarith [ha.1, ha.2, hb.1, hb.2, hc.1, hc.2]

/-! ### duality S(a,b) = 1 - T(1-a, 1-b) -/


theorem I_compl {a : α} (ha : I a) : I (1 - a) := ⟨by linarith [ha.2], by linarith [ha.1]⟩

theorem one_sub_min (a b : α) : 1 - min (1 - a) (1 - b) = max a b := by
  rcases le_total a b with h | h
  · rw [max_eq_right h, min_eq_right (by linarith)]; ring
  · rw [max_eq_left h, min_eq_left (by linarith)]; ring

theorem duality (S : SNorm) (T : TNorm) (h : dual S = some T) {a b : α} (ha : I a) (hb : I b) :
    snorm S a b = 1 - tnorm T (1 - a) (1 - b) := by
  cases S <;> simp only [dual, Option.some.injEq, reduceCtorEq] at h <;> subst h <;> simp only [snorm, tnorm, drastic]
  · ring
  · rcases le_total (a + b) 1 with h1 | h1
    · rw [min_eq_right h1, max_eq_right (by linarith)]; ring
    · rw [min_eq_left h1, max_eq_left (by linarith)]; ring
  · have e1 : (min a b = 0) ↔ (max (1 - a) (1 - b) = 1) := by
      rcases le_total a b with h | h
      · rw [min_eq_left h, max_eq_left (by linarith)]; constructor <;> intro h' <;> linarith
      · rw [min_eq_right h, max_eq_right (by linarith)]; constructor <;> intro h' <;> linarith
    by_cases h0 : min a b = 0
    · rw [if_pos h0, if_pos (e1.1 h0), one_sub_min]
    · rw [if_neg h0, if_neg (fun h => h0 (e1.2 h))]; ring
  · have hd := einstein_den_pos (I_compl ha) (I_compl hb)
    have hd' : (0 : α) < 1 + a * b := by nlinarith [mul_nonneg ha.1 hb.1]
    rw [eq_sub_iff_add_eq, div_add_div _ _ hd'.ne' hd.ne', div_eq_one_iff_eq (mul_ne_zero hd'.ne' hd.ne')]
    ring
  · by_cases h1 : a * b = 1
    · have ha1 : a = 1 := by nlinarith [mul_nonneg (sub_nonneg.2 ha.2) (sub_nonneg.2 hb.2), mul_nonneg ha.1 (sub_nonneg.2 hb.2), mul_nonneg hb.1 (sub_nonneg.2 ha.2)]
      have hb1 : b = 1 := by rw [ha1] at h1; simpa using h1
      simp [ha1, hb1]
    · have hne : (1 - a) + (1 - b) ≠ 0 := by
        intro h0
        have ha1 : a = 1 := by linarith [ha.2, hb.2]
        have hb1 : b = 1 := by linarith [ha.2, hb.2]
        exact h1 (by rw [ha1, hb1]; ring)
      have hd := hamacher_den_pos (I_compl ha) (I_compl hb) hne
      have hd' : (1 : α) - a * b ≠ 0 := sub_ne_zero.2 (Ne.symm h1)
      rw [if_pos h1, if_pos hne]
      rw [eq_sub_iff_add_eq, div_add_div _ _ hd' hd.ne', div_eq_one_iff_eq (mul_ne_zero hd' hd.ne')]
      ring
  · exact (one_sub_min a b).symm
  · have e1 : (a + b < 1) ↔ ((1 - a) + (1 - b) > 1) := by constructor <;> intro h <;> linarith
    by_cases h0 : a + b < 1
    · rw [if_pos h0, if_pos (e1.1 h0), one_sub_min]
    · rw [if_neg h0, if_neg (fun h => h0 (e1.2 h))]; ring

/-! ### S-norm laws, transferred from the T-norm laws through duality -/

theorem normalizedSum_eq_boundedSum {a b : α} (ha : I a) (hb : I b) :
    snorm .normalizedSum a b = snorm .boundedSum a b := by
  simp only [snorm]
  rcases le_total (a + b) 1 with h | h
  · rw [max_eq_left h, min_eq_right h]; simp
  · have hp : (0 : α) < a + b := by linarith
    rw [max_eq_right h, min_eq_left h, div_self hp.ne']

/-- every bounded S-norm is the dual of a T-norm on [0,1] (NormalizedSum through BoundedSum) -/
theorem snorm_dual_repr (S : SNorm) (hS : S ≠ .unboundedSum) :
    ∃ T : TNorm, ∀ {a b : α}, I a → I b → snorm S a b = 1 - tnorm T (1 - a) (1 - b) := by
  cases S
  · exact ⟨.algebraicProduct, fun ha hb => duality _ _ rfl ha hb⟩
  · exact ⟨.boundedDifference, fun ha hb => duality _ _ rfl ha hb⟩
  · exact ⟨.drasticProduct, fun ha hb => duality _ _ rfl ha hb⟩
  · exact ⟨.einsteinProduct, fun ha hb => duality _ _ rfl ha hb⟩
  · exact ⟨.hamacherProduct, fun ha hb => duality _ _ rfl ha hb⟩
  · exact ⟨.minimum, fun ha hb => duality _ _ rfl ha hb⟩
  · exact ⟨.nilpotentMinimum, fun ha hb => duality _ _ rfl ha hb⟩
  · exact ⟨.boundedDifference, fun ha hb => by
      rw [normalizedSum_eq_boundedSum ha hb]; exact duality _ _ rfl ha hb⟩
  · exact absurd rfl hS

theorem snorm_range (S : SNorm) (hS : S ≠ .unboundedSum) {a b : α} (ha : I a) (hb : I b) : I (snorm S a b) := by
  obtain ⟨T, h⟩ := snorm_dual_repr (α := α) S hS
  rw [h ha hb]; exact I_compl (tnorm_range T (I_compl ha) (I_compl hb))

theorem snorm_comm (S : SNorm) (a b : α) : snorm S a b = snorm S b a := by
  cases S <;> simp only [snorm, mul_comm a b, add_comm a b, max_comm a b, min_comm a b]
  · have : 2 * a * b = 2 * b * a := by ring
    rw [this]

theorem snorm_ge_max (S : SNorm) (hS : S ≠ .unboundedSum) {a b : α} (ha : I a) (hb : I b) :
    max a b ≤ snorm S a b := by
  obtain ⟨T, h⟩ := snorm_dual_repr (α := α) S hS
  rw [h ha hb, ← one_sub_min a b]
  linarith [tnorm_le_min T (I_compl ha) (I_compl hb)]

theorem snorm_zero (S : SNorm) (hS : S ≠ .unboundedSum) {a : α} (ha : I a) : snorm S a 0 = a := by
  obtain ⟨T, h⟩ := snorm_dual_repr (α := α) S hS
  rw [h ha ⟨le_refl _, zero_le_one⟩, sub_zero, tnorm_one T (I_compl ha)]; ring

theorem snorm_one (S : SNorm) (hS : S ≠ .unboundedSum) {a : α} (ha : I a) : snorm S a 1 = 1 := by
  obtain ⟨T, h⟩ := snorm_dual_repr (α := α) S hS
  rw [h ha ⟨zero_le_one, le_refl _⟩, sub_self, tnorm_zero T (I_compl ha)]; ring

theorem snorm_mono_left (S : SNorm) (hS : S ≠ .unboundedSum) {a a' b : α} (ha : I a) (ha' : I a') (hb : I b)
    (h : a ≤ a') : snorm S a b ≤ snorm S a' b := by
  obtain ⟨T, hd⟩ := snorm_dual_repr (α := α) S hS
  rw [hd ha hb, hd ha' hb]
  linarith [tnorm_mono_left T (I_compl ha') (I_compl ha) (I_compl hb) (by linarith : 1 - a' ≤ 1 - a)]

theorem snorm_assoc (S : SNorm) (hS : S ≠ .unboundedSum) {a b c : α} (ha : I a) (hb : I b) (hc : I c) :
    snorm S (snorm S a b) c = snorm S a (snorm S b c) := by
  obtain ⟨T, hd⟩ := snorm_dual_repr (α := α) S hS
  have hab := snorm_range S hS ha hb
  have hbc := snorm_range S hS hb hc
  rw [hd hab hc, hd ha hbc, hd ha hb, hd hb hc]
  have e1 : (1 : α) - (1 - tnorm T (1 - a) (1 - b)) = tnorm T (1 - a) (1 - b) := by ring
  have e2 : (1 : α) - (1 - tnorm T (1 - b) (1 - c)) = tnorm T (1 - b) (1 - c) := by ring
  rw [e1, e2, tnorm_assoc T (I_compl ha) (I_compl hb) (I_compl hc)]

theorem unboundedSum_eq (a b : α) : snorm .unboundedSum a b = a + b := rfl

end Spec
