import FlVerif.Gen.CodeSession
import FlVerif.Lemmas.CodeRule

/-! # Tie A for the loading / unloading functions of `rule.py`

`Rule.load`, `Rule.unload`, `Rule.is_loaded`, the same of `Antecedent` / `Consequent`, and `RuleBlock.load_rules`,
`unload_rules`, `reload_rules`, as translated from the current source, against the models of `Op/RuleLoad.lean`
(`Op.ruleLoad`, `Op.RuleState`, `Op.loadRules`).  `Rule.load`, `load_rules` and `reload_rules` are translated with the
state at a raise (`Except (Py.Err × S) S`), so the theorems also say what a failing call leaves behind. -/

namespace Py.Sess
open Op

/-- what `is_loaded` looks at -/
def RuleObj.state (r : RuleObj) : RuleState := ⟨r.ante, r.cons⟩

/-- the rule object after a call that leaves its parts in the state `s` (every such call starts with `deactivate()`) -/
def RuleObj.put (r : RuleObj) (s : RuleState) : RuleObj := { r with ante := s.ante, cons := s.cons, activated := false }

@[simp] theorem RuleObj.put_parsed (r : RuleObj) (s : RuleState) : (r.put s).parsed = r.parsed := rfl
@[simp] theorem RuleObj.put_state (r : RuleObj) (s : RuleState) : (r.put s).state = s := rfl
@[simp] theorem RuleObj.put_put (r : RuleObj) (s t : RuleState) : (r.put s).put t = r.put t := rfl
@[simp] theorem RuleObj.put_activated (r : RuleObj) (s : RuleState) : (r.put s).activated = false := rfl

end Py.Sess

namespace Op
open Lang Gen.Code Py.Sess

theorem errOfKind_eq (k : ErrKind) : Py.errOfKind k = k.toPy := by cases k <;> rfl

theorem isPython_toPy (k : ErrKind) : Py.Err.isPython k.toPy = true := by cases k <;> rfl

/-! ## the parts -/

theorem code_anteIsLoaded (a : Option ANode) (σ0 : Antecedent_is_loaded.S) :
    Antecedent_is_loaded.run a σ0 = .ok { σ0 with ret := some a.isSome } := rfl

theorem code_anteUnload (σ0 : Antecedent_unload.S) :
    Antecedent_unload.run σ0 = .ok { σ0 with self_expression := none } := rfl

theorem code_consIsLoaded (cs : List Conclusion) (σ0 : Consequent_is_loaded.S) :
    Consequent_is_loaded.run cs σ0 = .ok { σ0 with ret := some (!cs.isEmpty) } := rfl

theorem code_consUnload (σ0 : Consequent_unload.S) :
    Consequent_unload.run σ0 = .ok { σ0 with self_conclusions := [] } := rfl

/-! ## `Rule.is_loaded`, `Rule.unload`, `Rule.load` -/

theorem code_ruleIsLoaded (r : RuleObj) (σ0 : Rule_is_loaded.S) :
    Rule_is_loaded.run r σ0 = .ok { σ0 with ret := some r.state.isLoaded } := by
  unfold Rule_is_loaded.run
  simp only [code_anteIsLoaded, code_consIsLoaded, bind, Except.bind, Py.deref, RuleState.isLoaded, RuleObj.state]
  cases r.ante <;> rfl

theorem code_ruleUnload (r : RuleObj) (σ0 : Rule_unload.S) :
    Rule_unload.run r σ0 = .ok { this := r.put .unloaded } := rfl

/-- `Rule.load` as translated from the source, in equational form -/
theorem code_ruleLoad_eq (tbl : Table) (e : EngineInfo) (r : RuleObj) (σ0 : Rule_load.S) :
    Rule_load.run tbl e r σ0 =
      match ruleLoad tbl e r.parsed r.state with
      | (s, none) => .ok { this := r.put s }
      | (s, some k) => .error (k.toPy, { this := r.put s }) := by
  unfold Rule_load.run ruleLoad anteLoad consLoad
  simp only []
  cases ha : antecedentLoad tbl e (joinWords r.parsed.ante) with
  | error k => simp only [Py.R.map_error, bind, Except.bind, errOfKind_eq]; rfl
  | ok a =>
    simp only [Py.R.map_ok, bind, Except.bind]
    cases hc : consequentLoad e (joinWords r.parsed.cons) with
    | error k => simp only [Py.R.map_error, errOfKind_eq]; rfl
    | ok cs => simp only [Py.R.map_ok]; rfl

/-- **`Rule.load` as translated from the source = the model `Op.ruleLoad`**, including what a failing load leaves
    behind: the exception class is the one of the model and the parts of the rule are in the model's state -/
theorem code_ruleLoad (tbl : Table) (e : EngineInfo) (r : RuleObj) :
    match ruleLoad tbl e r.parsed r.state with
    | (s, none) => ∃ σ, Rule_load.run tbl e r {} = .ok σ ∧ σ.this = r.put s
    | (s, some k) => ∃ σ, Rule_load.run tbl e r {} = .error (k.toPy, σ) ∧ σ.this = r.put s := by
  rw [code_ruleLoad_eq]
  rcases ruleLoad tbl e r.parsed r.state with ⟨s, _ | k⟩
  · exact ⟨_, rfl, rfl⟩
  · exact ⟨_, rfl, rfl⟩

/-! ## `RuleBlock.unload_rules`, `load_rules`, `reload_rules` -/

theorem code_unloadLoop (rules : List RuleObj) : ∀ (l : List RuleObj) (σ : RuleBlock_unload_rules.S),
    ∃ σ', RuleBlock_unload_rules.loop1 rules l σ = .ok σ' ∧ σ'.visited = σ.visited ++ l.map (·.put .unloaded)
  | [], σ => ⟨σ, rfl, by simp⟩
  | x :: l, σ => by
    simp only [RuleBlock_unload_rules.loop1, code_ruleUnload, bind, Except.bind]
    obtain ⟨σ', h, hv⟩ := code_unloadLoop rules l
      { rule := x.put .unloaded, visited := σ.visited ++ [x.put .unloaded] }
    exact ⟨σ', h, by simp [hv]⟩

theorem code_unloadRules (rules : List RuleObj) :
    ∃ σ, RuleBlock_unload_rules.run rules {} = .ok σ ∧ σ.visited = rules.map (·.put .unloaded) := by
  unfold RuleBlock_unload_rules.run
  obtain ⟨σ', h, hv⟩ := code_unloadLoop rules rules {}
  exact ⟨σ', by simp only [h, bind, Except.bind], hv.trans (List.nil_append _)⟩

/-- the rule after one iteration of `load_rules` -/
def loadedObj (tbl : Table) (e : EngineInfo) (r : RuleObj) : RuleObj := r.put (ruleLoad tbl e r.parsed .unloaded).1

/-- the entry one iteration of `load_rules` adds to `exceptions` -/
def loadFailure (tbl : Table) (e : EngineInfo) (r : RuleObj) : Option (ParsedRule × Py.Err) :=
  (ruleLoad tbl e r.parsed .unloaded).2.map (fun k => (r.parsed, k.toPy))

theorem code_loadLoop (tbl : Table) (e : EngineInfo) (rules : List RuleObj) : ∀ (l : List RuleObj)
    (σ : RuleBlock_load_rules.S),
    ∃ σ', RuleBlock_load_rules.loop1 tbl e rules l σ = .ok σ' ∧ σ'.visited = σ.visited ++ l.map (loadedObj tbl e) ∧
      σ'.exceptions = σ.exceptions ++ l.filterMap (loadFailure tbl e)
  | [], σ => ⟨σ, rfl, by simp, by simp⟩
  | x :: l, σ => by
    simp only [RuleBlock_load_rules.loop1, code_ruleUnload, code_ruleLoad_eq, bind, Except.bind, Py.inState_ok,
      RuleObj.put_parsed, RuleObj.put_state, List.map_cons, List.filterMap_cons, loadedObj, loadFailure]
    rcases ruleLoad tbl e x.parsed .unloaded with ⟨s, _ | k⟩
    · simp only [Py.R.map_ok, RuleObj.put_put, Option.map_none]
      obtain ⟨σ', h, hv, hx⟩ := code_loadLoop tbl e rules l
        { σ with rule := x.put s, visited := σ.visited ++ [x.put s] }
      exact ⟨σ', h, by simp [hv, loadedObj], by simp [hx, loadFailure]⟩
    · simp only [Py.R.map_error, RuleObj.put_put, Option.map_some, isPython_toPy, if_true]
      obtain ⟨σ', h, hv, hx⟩ := code_loadLoop tbl e rules l
        { σ with rule := x.put s, ex := k.toPy, exceptions := σ.exceptions ++ [(x.parsed, k.toPy)],
                 visited := σ.visited ++ [x.put s] }
      exact ⟨σ', h, by simp [hv, loadedObj], by simp [hx, loadFailure]⟩

/-- `load_rules` as translated from the source, on the rule objects: every rule ends as one `unload` + `load` leaves
    it, the failures are collected in order, and `RuntimeError` is raised after the loop iff there is one -/
theorem code_loadRules_obj (tbl : Table) (e : EngineInfo) (rules : List RuleObj) (σ0 : RuleBlock_load_rules.S) :
    ∃ σ, RuleBlock_load_rules.run tbl e rules σ0 =
        (if (rules.filterMap (loadFailure tbl e)).isEmpty then .ok σ else .error (.runtime, σ)) ∧
      σ.visited = σ0.visited ++ rules.map (loadedObj tbl e) ∧ σ.exceptions = rules.filterMap (loadFailure tbl e) := by
  unfold RuleBlock_load_rules.run
  obtain ⟨σ', h, hv, hx⟩ := code_loadLoop tbl e rules rules { σ0 with exceptions := [] }
  refine ⟨σ', ?_, hv, by simpa using hx⟩
  simp only [h, bind, Except.bind]
  have : σ'.exceptions = rules.filterMap (loadFailure tbl e) := by simpa using hx
  rw [this]
  cases (rules.filterMap (loadFailure tbl e)).isEmpty <;> rfl

theorem loadRules_states (tbl : Table) (e : EngineInfo) (rules : List RuleObj) :
    (rules.map (loadedObj tbl e)).map RuleObj.state = (loadRules tbl e (rules.map (·.parsed))).1 := by
  simp [loadRules, loadedObj, List.map_map, Function.comp_def]

theorem loadRules_failures (tbl : Table) (e : EngineInfo) (rules : List RuleObj) :
    rules.filterMap (loadFailure tbl e) = (loadRules tbl e (rules.map (·.parsed))).2.map (fun f => (f.1, f.2.toPy)) := by
  induction rules with
  | nil => rfl
  | cons r rs ih =>
    have hs : (loadRules tbl e ((r :: rs).map (·.parsed))).2 =
        (match (ruleLoad tbl e r.parsed .unloaded).2 with | some k => [(r.parsed, k)] | none => []) ++
          (loadRules tbl e (rs.map (·.parsed))).2 := by
      simp only [loadRules, List.map_cons, List.filterMap_cons]
      cases (ruleLoad tbl e r.parsed .unloaded).2 <;> rfl
    rw [hs, List.filterMap_cons, List.map_append, ← ih]
    simp only [loadFailure]
    cases (ruleLoad tbl e r.parsed .unloaded).2 <;> rfl

/-- **`RuleBlock.load_rules` as translated from the source = the model `Op.loadRules`**: it raises `RuntimeError`
    exactly when the model has a failure – after every rule has been tried – and, raising or not, leaves every rule in
    the state of the model (same texts, no activation) with one collected entry per failure, in order -/
theorem code_loadRules (tbl : Table) (e : EngineInfo) (rules : List RuleObj) :
    ∃ σ, RuleBlock_load_rules.run tbl e rules {} =
        (if loadRulesRaises tbl e (rules.map (·.parsed)) then .error (.runtime, σ) else .ok σ) ∧
      σ.visited.map RuleObj.state = (loadRules tbl e (rules.map (·.parsed))).1 ∧
      σ.visited.map (·.parsed) = rules.map (·.parsed) ∧ (∀ r ∈ σ.visited, r.activated = false) ∧
      σ.exceptions = (loadRules tbl e (rules.map (·.parsed))).2.map (fun f => (f.1, f.2.toPy)) := by
  obtain ⟨σ, h, hv, hx⟩ := code_loadRules_obj tbl e rules {}
  have hv' : σ.visited = rules.map (loadedObj tbl e) := hv.trans (List.nil_append _)
  refine ⟨σ, ?_, ?_, ?_, ?_, ?_⟩
  · have hE : (rules.filterMap (loadFailure tbl e)).isEmpty = (loadRules tbl e (rules.map (·.parsed))).2.isEmpty := by
      rw [loadRules_failures]; cases (loadRules tbl e (rules.map (·.parsed))).2 <;> rfl
    rw [h, loadRulesRaises, hE]
    cases (loadRules tbl e (rules.map (·.parsed))).2.isEmpty <;> rfl
  · rw [hv', loadRules_states]
  · rw [hv']; simp [loadedObj, List.map_map, Function.comp_def]
  · rw [hv']; intro r hr
    obtain ⟨r', _, rfl⟩ := List.mem_map.mp hr
    rfl
  · rw [hx, loadRules_failures]

/-- **`RuleBlock.reload_rules` as translated from the source**: `unload_rules` then `load_rules` – the result of
    `load_rules` on the same rules (which unloads every rule itself) -/
theorem code_reloadRules (tbl : Table) (e : EngineInfo) (rules : List RuleObj) :
    ∃ σ, RuleBlock_reload_rules.run tbl e rules {} =
        (if loadRulesRaises tbl e (rules.map (·.parsed)) then .error (.runtime, σ) else .ok σ) ∧
      σ.rules.map RuleObj.state = (loadRules tbl e (rules.map (·.parsed))).1 ∧
      σ.rules.map (·.parsed) = rules.map (·.parsed) ∧ (∀ r ∈ σ.rules, r.activated = false) := by
  unfold RuleBlock_reload_rules.run
  obtain ⟨σu, hu, hvu⟩ := code_unloadRules rules
  simp only [hu, bind, Except.bind, Py.inState_ok]
  obtain ⟨σ, h, h1, h2, h3, _⟩ := code_loadRules tbl e σu.visited
  have hp : σu.visited.map (·.parsed) = rules.map (·.parsed) := by
    rw [hvu]; simp [List.map_map, Function.comp_def]
  rw [hp] at h h1 h2
  refine ⟨{ rules := σ.visited }, ?_, h1, h2, h3⟩
  rw [h]
  cases loadRulesRaises tbl e (rules.map (·.parsed)) <;> rfl

end Op
