import FlVerif.Op.Interp
import Mathlib.Tactic.Ring
import Mathlib.Tactic.Linarith
import Mathlib.Tactic.Positivity

/-! Laws of `Op.interp` (the model of `numpy.interp` behind `Discrete.membership`) -/

set_option linter.unusedSectionVars false
set_option linter.unusedVariables false

namespace Op
variable {α : Type} [Field α] [LinearOrder α] [IsStrictOrderedRing α]

/-- strictly increasing abscissae -/
def IncX : List (α × α) → Prop
  | [] => True
  | [_] => True
  | p :: q :: rest => p.1 < q.1 ∧ IncX (q :: rest)

/-- the chord through `a` and `b` -/
def seg (a b : α × α) (x : α) : α := a.2 + (b.2 - a.2) / (b.1 - a.1) * (x - a.1)

theorem IncX.tail {p : α × α} {l : List (α × α)} (h : IncX (p :: l)) : IncX l := by
  cases l with
  | nil => trivial
  | cons q r => exact h.2

theorem IncX.lt_of_mem {p : α × α} {l : List (α × α)} (h : IncX (p :: l)) : ∀ a ∈ l, p.1 < a.1 := by
  induction l generalizing p with
  | nil => intro a ha; cases ha
  | cons q r ih =>
    intro a ha
    rcases List.mem_cons.1 ha with rfl | ha
    · exact h.1
    · exact lt_trans h.1 (ih h.2 a ha)

theorem seg_left (a b : α × α) : seg a b a.1 = a.2 := by simp [seg]

theorem seg_between (a b : α × α) (x lo hi : α) (h1 : a.1 ≤ x) (h2 : x < b.1)
    (ha : lo ≤ a.2 ∧ a.2 ≤ hi) (hb : lo ≤ b.2 ∧ b.2 ≤ hi) : lo ≤ seg a b x ∧ seg a b x ≤ hi := by
  have hd : 0 < b.1 - a.1 := by linarith
  have ht0 : 0 ≤ (x - a.1) / (b.1 - a.1) := div_nonneg (by linarith) hd.le
  have ht1 : (x - a.1) / (b.1 - a.1) ≤ 1 := (div_le_one hd).2 (by linarith)
  have e : seg a b x = a.2 + (b.2 - a.2) * ((x - a.1) / (b.1 - a.1)) := by unfold seg; ring
  rw [e]
  constructor <;> nlinarith [ha.1, ha.2, hb.1, hb.2]

/-- walking from `p` reaches the segment `[a, b)` that contains `x` -/
theorem interpGo_seg (x : α) (a b : α × α) (r : List (α × α)) (h1 : a.1 ≤ x) (h2 : x < b.1) :
    ∀ (l : List (α × α)) (p : α × α), IncX (p :: (l ++ a :: b :: r)) → interpGo p (l ++ a :: b :: r) x = seg a b x := by
  intro l
  induction l with
  | nil =>
    intro p h
    have : ¬ x < a.1 := not_lt.2 h1
    simp [interpGo, this, h2, seg]
  | cons c l ih =>
    intro p h
    have hc : c.1 < a.1 := IncX.lt_of_mem h.2 a (by simp)
    have : ¬ x < c.1 := by intro hx; linarith
    simp only [List.cons_append, interpGo, this, if_false]
    exact ih c h.2

/-- between two neighbouring points the value is the chord through them -/
theorem interp_seg (l r : List (α × α)) (a b : α × α) (x : α) (h : IncX (l ++ a :: b :: r))
    (h1 : a.1 ≤ x) (h2 : x < b.1) : interp (l ++ a :: b :: r) x = seg a b x := by
  cases l with
  | nil =>
    have : ¬ x < a.1 := not_lt.2 h1
    simp [interp, interpGo, this, h2, seg]
  | cons p l =>
    have hp : p.1 < a.1 := IncX.lt_of_mem h a (by simp)
    have : ¬ x < p.1 := by intro hx; linarith
    simp only [List.cons_append, interp, this, if_false]
    exact interpGo_seg x a b r h1 h2 l p h

theorem interpGo_last (x : α) (a : α × α) (h1 : a.1 ≤ x) :
    ∀ (l : List (α × α)) (p : α × α), IncX (p :: (l ++ [a])) → interpGo p (l ++ [a]) x = a.2 := by
  intro l
  induction l with
  | nil =>
    intro p h
    have : ¬ x < a.1 := not_lt.2 h1
    simp [interpGo, this]
  | cons c l ih =>
    intro p h
    have hc : c.1 < a.1 := IncX.lt_of_mem h.2 a (by simp)
    have : ¬ x < c.1 := by intro hx; linarith
    simp only [List.cons_append, interpGo, this, if_false]
    exact ih c h.2

/-- clamped on the right: at and beyond the last point the value is the last ordinate -/
theorem interp_last (l : List (α × α)) (a : α × α) (x : α) (h : IncX (l ++ [a])) (h1 : a.1 ≤ x) :
    interp (l ++ [a]) x = a.2 := by
  cases l with
  | nil =>
    have : ¬ x < a.1 := not_lt.2 h1
    simp [interp, interpGo, this]
  | cons p l =>
    have hp : p.1 < a.1 := IncX.lt_of_mem h a (by simp)
    have : ¬ x < p.1 := by intro hx; linarith
    simp only [List.cons_append, interp, this, if_false]
    exact interpGo_last x a h1 l p h

/-- clamped on the left: before the first point the value is the first ordinate -/
theorem interp_first (p : α × α) (l : List (α × α)) (x : α) (h : x < p.1) : interp (p :: l) x = p.2 := by
  simp [interp, h]

/-- the interpolant passes through every given point -/
theorem interp_at (pts : List (α × α)) (h : IncX pts) (a : α × α) (ha : a ∈ pts) : interp pts a.1 = a.2 := by
  obtain ⟨l, r, rfl⟩ := List.append_of_mem ha
  cases r with
  | nil => exact interp_last l a a.1 h (le_refl _)
  | cons b r =>
    have hb : a.1 < b.1 := by
      have h' : IncX (a :: b :: r) := by
        clear ha
        induction l with
        | nil => exact h
        | cons c l ih => exact ih (IncX.tail h)
      exact h'.1
    rw [interp_seg l r a b a.1 h (le_refl _) hb, seg_left]

theorem interpGo_range (x lo hi : α) :
    ∀ (l : List (α × α)) (p : α × α), IncX (p :: l) → p.1 ≤ x → (∀ q ∈ p :: l, lo ≤ q.2 ∧ q.2 ≤ hi) →
      lo ≤ interpGo p l x ∧ interpGo p l x ≤ hi := by
  intro l
  induction l with
  | nil => intro p _ _ hb; exact hb p (by simp)
  | cons q l ih =>
    intro p h hp hb
    simp only [interpGo]
    split_ifs with hx
    · exact seg_between p q x lo hi hp hx (hb p (by simp)) (hb q (by simp))
    · exact ih q h.2 (not_lt.1 hx) (fun t ht => hb t (List.mem_cons_of_mem _ ht))

/-- the interpolant stays between the smallest and the largest ordinate -/
theorem interp_range (pts : List (α × α)) (x lo hi : α) (hne : pts ≠ []) (h : IncX pts)
    (hb : ∀ q ∈ pts, lo ≤ q.2 ∧ q.2 ≤ hi) : lo ≤ interp pts x ∧ interp pts x ≤ hi := by
  cases pts with
  | nil => exact absurd rfl hne
  | cons p l =>
    simp only [interp]
    split_ifs with hx
    · exact hb p (by simp)
    · exact interpGo_range x lo hi l p h (not_lt.1 hx) hb

/-- between two neighbouring points the value lies between their ordinates -/
theorem interp_between (l r : List (α × α)) (a b : α × α) (x : α) (h : IncX (l ++ a :: b :: r))
    (h1 : a.1 ≤ x) (h2 : x < b.1) :
    min a.2 b.2 ≤ interp (l ++ a :: b :: r) x ∧ interp (l ++ a :: b :: r) x ≤ max a.2 b.2 := by
  rw [interp_seg l r a b x h h1 h2]
  exact seg_between a b x _ _ h1 h2 ⟨min_le_left _ _, le_max_left _ _⟩ ⟨min_le_right _ _, le_max_right _ _⟩

end Op
