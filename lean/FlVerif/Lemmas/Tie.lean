import FlVerif.Base.X
import Mathlib.Tactic.Ring
import Mathlib.Tactic.Linarith

/-! Tactic used by every `Gen = Spec` tie: push `fin` through the traced expression, then close the
    remaining real-arithmetic goal by reflexivity, ring normalisation or case analysis. -/

open X in
macro "tie_fin" : tactic => `(tactic|
  (simp only [add_fin, sub_fin, mul_fin, neg_fin, npmin_fin, npmax_fin, lt_fin, le_fin, eq_fin, ne_fin, sq_fin,
      abs_fin, sel_decide, ofBool_decide, isnan_fin, sel_false, sel_true, Bool.false_eq_true, if_false]
   first | rfl | (congr 1; ring1) | (congr 1; grind [min_def, max_def]) | skip))
