import FlVerif.Spec.Term
import FlVerif.Gen.TermGen
import FlVerif.Lemmas.Tie
import Mathlib.Tactic.FieldSimp
import Mathlib.Tactic.Positivity
import Mathlib.Tactic.NormNum

/-! Helper lemmas for the ties `Gen.Term.* = Spec.Mu.*` (C03, C11) -/

set_option linter.unusedSectionVars false
set_option linter.unusedVariables false
set_option linter.unusedSimpArgs false

namespace X
variable {α : Type} [Field α] [LinearOrder α] [IsStrictOrderedRing α]

theorem sel_eq_ite (c : Bool) (a b : X α) : sel c a b = if c = true then a else b := rfl
theorem div_fin_total (a b : α) : div (fin a) (fin b) = if b = 0 then mulInf true a else fin (a / b) := rfl
theorem sqrt_fin_total (F : Fn α) (a : α) : sqrt F (fin a) = if a < 0 then nan else fin (F.sqrt a) := rfl
@[simp] theorem lt_fin_pinf (a : α) : lt (fin a) pinf = true := rfl
@[simp] theorem lt_fin_ninf (a : α) : lt (fin a) ninf = false := rfl
@[simp] theorem lt_pinf_fin (a : α) : lt pinf (fin a) = false := rfl
@[simp] theorem lt_ninf_fin (a : α) : lt ninf (fin a) = true := rfl
@[simp] theorem eq_pinf_pinf : eq (pinf : X α) pinf = true := rfl
@[simp] theorem eq_ninf_ninf : eq (ninf : X α) ninf = true := rfl
@[simp] theorem eq_fin_pinf' (a : α) : eq (fin a) pinf = false := rfl
@[simp] theorem eq_fin_ninf' (a : α) : eq (fin a) ninf = false := rfl
@[simp] theorem eq_pinf_ninf : eq (pinf : X α) ninf = false := rfl
@[simp] theorem eq_ninf_pinf : eq (ninf : X α) pinf = false := rfl
end X

namespace TermTie
open X Spec
variable {α : Type} [Field α] [LinearOrder α] [IsStrictOrderedRing α]

theorem triangle_fin (F : Fn α) (a : X α) (b : α) (c : X α) (h x : α) (ha : LeftEnd a b) (hc : RightEnd b c) :
    Gen.Term.Triangle.membership F a (fin b) c (fin h) (fin x) = fin (Mu.triangle a b c h x) := by
  rcases ha with rfl | ⟨a', rfl, hab⟩ <;> rcases hc with rfl | ⟨c', rfl, hbc⟩
  all_goals
    unfold Gen.Term.Triangle.membership Mu.triangle
    simp only [isnan_fin, sel_false, mul_fin, mul_one, lt_fin, eq_fin, lt_fin_pinf, lt_fin_ninf, lt_pinf_fin,
      lt_ninf_fin, eq_pinf_pinf, eq_ninf_ninf, eq_fin_pinf', eq_fin_ninf', sub_fin, val_fin]
  · rcases lt_trichotomy x b with hx | hx | hx <;> simp [hx]
  · by_cases h2 : c' < x
    · simp [h2]
    · rcases lt_trichotomy x b with hx | hx | hx
      · simp [h2, hx]
      · subst hx; simp [h2]
      · have hne : c' - b ≠ 0 := by intro h0; apply h2; linarith
        simp [h2, hx, hx.ne', not_lt.2 hx.le, div_fin _ _ hne]
  · by_cases h1 : x < a'
    · simp [h1]
    · rcases lt_trichotomy x b with hx | hx | hx
      · have hne : b - a' ≠ 0 := by intro h0; apply h1; linarith
        simp [h1, hx, hx.ne, not_lt.2 hx.le, div_fin _ _ hne]
      · subst hx; simp [h1]
      · simp [h1, hx]
  · by_cases h1 : x < a'
    · simp [h1]
    · by_cases h2 : c' < x
      · simp [h1, h2]
      · rcases lt_trichotomy x b with hx | hx | hx
        · have hne : b - a' ≠ 0 := by intro h0; apply h1; linarith
          simp [h1, h2, hx, hx.ne, not_lt.2 hx.le, div_fin _ _ hne]
        · subst hx; simp [h1, h2]
        · have hne : c' - b ≠ 0 := by intro h0; apply h2; linarith
          simp [h1, h2, hx, hx.ne', not_lt.2 hx.le, div_fin _ _ hne]

theorem trapezoid_fin (F : Fn α) (a : X α) (b c : α) (d : X α) (h x : α) (ha : LeftEnd a b) (hbc : b ≤ c)
    (hd : RightEnd c d) :
    Gen.Term.Trapezoid.membership F a (fin b) (fin c) d (fin h) (fin x) = fin (Mu.trapezoid a b c d h x) := by
  rcases ha with rfl | ⟨a', rfl, hab⟩ <;> rcases hd with rfl | ⟨d', rfl, hcd⟩
  all_goals
    unfold Gen.Term.Trapezoid.membership Mu.trapezoid
    simp only [isnan_fin, sel_false, mul_fin, mul_one, lt_fin, le_fin, eq_fin, lt_fin_pinf, lt_fin_ninf, lt_pinf_fin,
      lt_ninf_fin, eq_pinf_pinf, eq_ninf_ninf, eq_fin_pinf', eq_fin_ninf', sub_fin, val_fin]
  · by_cases h3 : x < b
    · simp [h3]
    · by_cases h4 : c < x
      · simp [h3, h4, not_lt.1 h3]
      · simp [h3, h4, not_lt.1 h3, not_lt.1 h4]
  · by_cases h2 : d' < x
    · simp [h2]
    · by_cases h3 : x < b
      · simp [h2, h3]
      · by_cases h4 : c < x
        · have hne : d' - c ≠ 0 := by intro h0; apply h2; linarith
          simp [h2, h3, h4, not_le.2 h4, div_fin _ _ hne]
        · simp [h2, h3, h4, not_lt.1 h3, not_lt.1 h4]
  · by_cases h1 : x < a'
    · simp [h1]
    · by_cases h3 : x < b
      · have hne : b - a' ≠ 0 := by intro h0; apply h1; linarith
        have h4 : ¬ c < x := by intro h; linarith
        simp [h1, h3, h4, not_le.2 h3, div_fin _ _ hne]
      · by_cases h4 : c < x
        · simp [h1, h3, h4, not_lt.1 h3]
        · simp [h1, h3, h4, not_lt.1 h3, not_lt.1 h4]
  · by_cases h1 : x < a'
    · simp [h1]
    · by_cases h2 : d' < x
      · simp [h1, h2]
      · by_cases h3 : x < b
        · have hne : b - a' ≠ 0 := by intro h0; apply h1; linarith
          simp [h1, h2, h3, not_le.2 h3, div_fin _ _ hne]
        · by_cases h4 : c < x
          · have hne : d' - c ≠ 0 := by intro h0; apply h2; linarith
            simp [h1, h2, h3, h4, not_le.2 h4, div_fin _ _ hne]
          · simp [h1, h2, h3, h4, not_lt.1 h3, not_lt.1 h4]

theorem rectangle_fin (F : Fn α) (s e h x : α) :
    Gen.Term.Rectangle.membership F (fin s) (fin e) (fin h) (fin x) = fin (Mu.rectangle s e h x) := by
  unfold Gen.Term.Rectangle.membership Mu.rectangle
  simp only [lt_fin, le_fin, isnan_fin, sel_false, mul_fin, mul_one, ofBool, decide_eq_true_eq]
  rcases lt_trichotomy s e with h1 | h1 | h1
  · have h2 : ¬ e < s := not_lt.2 h1.le
    simp only [h1, h2, if_true, if_false, min_eq_left h1.le, max_eq_right h1.le]
    by_cases hx : s ≤ x ∧ x ≤ e <;> simp [hx]
  · subst h1
    simp only [lt_irrefl, if_false, min_self, max_self]
    by_cases hx : s ≤ x ∧ x ≤ s <;> simp [hx]
  · have h2 : ¬ s < e := not_lt.2 h1.le
    simp only [h1, h2, if_true, if_false, min_eq_right h1.le, max_eq_left h1.le]
    by_cases hx : e ≤ x ∧ x ≤ s <;> simp [hx]

theorem ramp_fin (F : Fn α) (s e h x : α) (hse : s ≠ e) :
    Gen.Term.Ramp.membership F (fin s) (fin e) (fin h) (fin x) = fin (Mu.ramp s e h x) := by
  unfold Gen.Term.Ramp.membership Mu.ramp
  rcases lt_or_gt_of_ne hse with h1 | h1
  · have h2 : ¬ e < s := not_lt.2 h1.le
    have hd : e - s ≠ 0 := sub_ne_zero.2 (Ne.symm hse)
    by_cases hx1 : s < x
    · by_cases hx2 : x < e
      · simp [h1, h2, hx1, hx2, div_fin _ _ hd]
      · have h3 : ¬ x < s := not_lt.2 hx1.le
        simp [h1, h2, hx1, hx2, h3, not_lt.1 hx2, ofBool]
    · have h3 : ¬ e ≤ x := by intro h; apply hx1; linarith
      have h4 : ¬ e < x := by intro h; apply hx1; linarith
      simp [h1, h2, hx1, h3, h4, ofBool]
  · have h2 : ¬ s < e := not_lt.2 h1.le
    have hd : s - e ≠ 0 := sub_ne_zero.2 hse
    by_cases hx1 : x < s
    · by_cases hx2 : e < x
      · have h3 : ¬ s < x := not_lt.2 hx1.le
        simp [h1, h2, hx1, hx2, h3, div_fin _ _ hd]
      · have h3 : ¬ s < x := not_lt.2 hx1.le
        simp [h1, h2, hx1, hx2, h3, not_lt.1 hx2, ofBool]
    · have h3 : ¬ x ≤ e := by intro h; apply hx1; linarith
      have h4 : ¬ x < e := by intro h; apply hx1; linarith
      simp [h1, h2, hx1, h3, h4, ofBool]

theorem binary_fin (F : Fn α) (s : α) (d : X α) (h x : α) (hd : d = pinf ∨ d = ninf) :
    Gen.Term.Binary.membership F (fin s) d (fin h) (fin x) = fin (Mu.binary s d h x) := by
  unfold Gen.Term.Binary.membership Mu.binary
  rcases hd with rfl | rfl
  · by_cases hx : s ≤ x <;> simp [hx]
  · by_cases hx : x ≤ s <;> simp [hx]

theorem concave_fin (F : Fn α) (i e h x : α) (hie : i ≠ e) :
    Gen.Term.Concave.membership F (fin i) (fin e) (fin h) (fin x) = fin (Mu.concave i e h x) := by
  unfold Gen.Term.Concave.membership Mu.concave
  rcases lt_or_gt_of_ne hie with h1 | h1
  · have h2 : ¬ e ≤ i := not_le.2 h1
    have h2' : ¬ e < i := not_lt.2 h1.le
    by_cases hx : x < e
    · have hne : 2 * e - i - x ≠ 0 := by intro h0; linarith
      simp [h1.le, h2, h2', hx, div_fin _ _ hne]
    · simp [h1.le, h2, h2', hx]
  · have h2 : ¬ i ≤ e := not_le.2 h1
    by_cases hx : e < x
    · have hne : i - 2 * e + x ≠ 0 := by intro h0; linarith
      have : -(2 * e) + i + x = i - 2 * e + x := by ring
      simp [h1.le, h1, h2, hx, div_fin _ _ hne, this]
    · simp [h1.le, h1, h2, hx]

theorem constant_fin (F : Fn α) (k : α) (x : X α) :
    Gen.Term.Constant.membership F (fin k) x = fin (Mu.constant k 0) := rfl

theorem half_mul (a : α) : (1 : α) / 2 * a = a / 2 := by ring

theorem sShape_fin (F : Fn α) (s e h x : α) (hse : s < e) :
    Gen.Term.SShape.membership F (fin s) (fin e) (fin h) (fin x) = fin (Mu.sShape s e h x) := by
  unfold Gen.Term.SShape.membership Mu.sShape
  have hd : e - s ≠ 0 := by intro h0; linarith
  simp only [isnan_fin, sel_false, mul_fin, mul_one, lt_fin, le_fin, sub_fin, add_fin, sq_fin, div_fin _ _ hd,
    sel_decide, half_mul]
  congr 1; split_ifs <;> ring

theorem zShape_fin (F : Fn α) (s e h x : α) (hse : s < e) :
    Gen.Term.ZShape.membership F (fin s) (fin e) (fin h) (fin x) = fin (Mu.zShape s e h x) := by
  unfold Gen.Term.ZShape.membership Mu.zShape
  have hd : e - s ≠ 0 := by intro h0; linarith
  simp only [isnan_fin, sel_false, mul_fin, mul_one, lt_fin, le_fin, sub_fin, add_fin, sq_fin, div_fin _ _ hd,
    sel_decide, half_mul]
  congr 1; split_ifs <;> ring

theorem piShape_fin (F : Fn α) (a b c d h x : α) (hab : a < b) (hcd : c < d) :
    Gen.Term.PiShape.membership F (fin a) (fin b) (fin c) (fin d) (fin h) (fin x) = fin (Mu.piShape a b c d h x) := by
  unfold Gen.Term.PiShape.membership Mu.piShape Mu.sShape Mu.zShape
  have hd1 : b - a ≠ 0 := by intro h0; linarith
  have hd2 : d - c ≠ 0 := by intro h0; linarith
  simp only [isnan_fin, sel_false, mul_fin, mul_one, lt_fin, le_fin, sub_fin, add_fin, sq_fin, div_fin _ _ hd1,
    div_fin _ _ hd2, sel_decide, half_mul]
  congr 1; split_ifs <;> ring

end TermTie
