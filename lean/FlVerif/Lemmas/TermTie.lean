import FlVerif.Spec.Term
import FlVerif.Gen.TermGen
import FlVerif.Lemmas.Tie
import Mathlib.Tactic.FieldSimp
import Mathlib.Tactic.Positivity
import Mathlib.Tactic.NormNum

/-! Helper lemmas for the ties `Gen.Term.* = Spec.Mu.*` (C03, C11) -/

set_option linter.unusedSectionVars false
set_option linter.unusedVariables false
set_option linter.unusedSimpArgs false

namespace X
variable {α : Type} [Field α] [LinearOrder α] [IsStrictOrderedRing α]

theorem sel_eq_ite (c : Bool) (a b : X α) : sel c a b = if c = true then a else b := rfl
theorem div_fin_total (a b : α) : div (fin a) (fin b) = if b = 0 then mulInf true a else fin (a / b) := rfl
theorem sqrt_fin_total (F : Fn α) (a : α) : sqrt F (fin a) = if a < 0 then nan else fin (F.sqrt a) := rfl
@[simp] theorem lt_fin_pinf (a : α) : lt (fin a) pinf = true := rfl
@[simp] theorem lt_fin_ninf (a : α) : lt (fin a) ninf = false := rfl
@[simp] theorem lt_pinf_fin (a : α) : lt pinf (fin a) = false := rfl
@[simp] theorem lt_ninf_fin (a : α) : lt ninf (fin a) = true := rfl
@[simp] theorem eq_pinf_pinf : eq (pinf : X α) pinf = true := rfl
@[simp] theorem eq_ninf_ninf : eq (ninf : X α) ninf = true := rfl
@[simp] theorem eq_fin_pinf' (a : α) : eq (fin a) pinf = false := rfl
@[simp] theorem eq_fin_ninf' (a : α) : eq (fin a) ninf = false := rfl
@[simp] theorem eq_pinf_ninf : eq (pinf : X α) ninf = false := rfl
@[simp] theorem eq_ninf_pinf : eq (ninf : X α) pinf = false := rfl
@[simp] theorem sub_pinf_fin (a : α) : sub pinf (fin a) = pinf := rfl
@[simp] theorem sub_ninf_fin (a : α) : sub ninf (fin a) = ninf := rfl
@[simp] theorem sub_fin_pinf (a : α) : sub (fin a) pinf = ninf := rfl
@[simp] theorem sub_fin_ninf (a : α) : sub (fin a) ninf = pinf := rfl
@[simp] theorem add_fin_pinf (a : α) : add (fin a) pinf = pinf := rfl
@[simp] theorem add_fin_ninf (a : α) : add (fin a) ninf = ninf := rfl
@[simp] theorem le_fin_pinf (a : α) : le (fin a) pinf = true := rfl
@[simp] theorem le_fin_ninf (a : α) : le (fin a) ninf = false := rfl
@[simp] theorem le_pinf_fin (a : α) : le pinf (fin a) = false := rfl
@[simp] theorem le_ninf_fin (a : α) : le ninf (fin a) = true := rfl
@[simp] theorem isfinite_pinf : isfinite (pinf : X α) = false := rfl
@[simp] theorem isfinite_ninf : isfinite (ninf : X α) = false := rfl
@[simp] theorem sq_pinf : sq (pinf : X α) = pinf := rfl
@[simp] theorem sq_ninf : sq (ninf : X α) = pinf := rfl
@[simp] theorem neg_pinf : neg (pinf : X α) = ninf := rfl
@[simp] theorem neg_ninf : neg (ninf : X α) = pinf := rfl
@[simp] theorem abs_pinf : abs (pinf : X α) = pinf := rfl
@[simp] theorem abs_ninf : abs (ninf : X α) = pinf := rfl
@[simp] theorem exp_pinf (F : Fn α) : exp F (pinf : X α) = pinf := rfl
@[simp] theorem exp_ninf (F : Fn α) : exp F (ninf : X α) = fin 0 := rfl
@[simp] theorem div_fin_pinf (a : α) : div (fin a) pinf = fin 0 := rfl
@[simp] theorem div_fin_ninf (a : α) : div (fin a) ninf = fin 0 := rfl
theorem div_pinf_fin (b : α) (hb : 0 < b) : div pinf (fin b) = pinf := by simp [div, hb.le]
theorem div_ninf_fin (b : α) (hb : 0 < b) : div ninf (fin b) = ninf := by simp [div, hb.le]
theorem mul_fin_pinf (a : α) (ha : 0 < a) : mul (fin a) pinf = pinf := by simp [mul, mulInf, ha]
theorem mul_fin_ninf (a : α) (ha : 0 < a) : mul (fin a) ninf = ninf := by simp [mul, mulInf, ha]
theorem mul_neg_pinf (a : α) (ha : a < 0) : mul (fin a) pinf = ninf := by simp [mul, mulInf, ha, not_lt.2 ha.le]
theorem mul_neg_ninf (a : α) (ha : a < 0) : mul (fin a) ninf = pinf := by simp [mul, mulInf, ha, not_lt.2 ha.le]
theorem add_pinf_fin (a : α) : add pinf (fin a) = pinf := rfl
theorem add_ninf_fin (a : α) : add ninf (fin a) = ninf := rfl
end X

/-- finishing step of a tie after the case analysis: nothing to do when `simp` closed the goal; otherwise the code
    was rewritten algebraically (e.g. `(s - x) / (s - e)` as `(x - s) / (e - s)`): decide the remaining divisions
    (`b = 0` is refuted from the order hypotheses) and compare the two quotients as field expressions -/
macro "tie_close" : tactic => `(tactic| first
  | done
  | (simp only [X.div_fin_total, X.mul_fin, X.sub_fin, X.add_fin]
     split_ifs <;> first
       | (exfalso; linarith)
       | (simp only [X.mul_fin]; congr 1; field_simp; ring1)
       | (simp only [X.mul_fin]; congr 1; field_simp)))

namespace TermTie
open X Spec
variable {α : Type} [Field α] [LinearOrder α] [IsStrictOrderedRing α]

theorem triangle_fin (F : Fn α) (a : X α) (b : α) (c : X α) (h x : α) (ha : LeftEnd a b) (hc : RightEnd b c) :
    Gen.Term.Triangle.membership F a (fin b) c (fin h) (fin x) = fin (Mu.triangle a b c h x) := by
  rcases ha with rfl | ⟨a', rfl, hab⟩ <;> rcases hc with rfl | ⟨c', rfl, hbc⟩
  all_goals
    unfold Gen.Term.Triangle.membership Mu.triangle
    simp only [isnan_fin, sel_false, mul_fin, mul_one, lt_fin, eq_fin, lt_fin_pinf, lt_fin_ninf, lt_pinf_fin,
      lt_ninf_fin, eq_pinf_pinf, eq_ninf_ninf, eq_fin_pinf', eq_fin_ninf', sub_fin, val_fin]
  · rcases lt_trichotomy x b with hx | hx | hx <;> simp [hx]
  · by_cases h2 : c' < x
    · simp [h2]
    · rcases lt_trichotomy x b with hx | hx | hx
      · simp [h2, hx]
      · subst hx; simp [h2]
      · have hne : c' - b ≠ 0 := by intro h0; apply h2; linarith
        simp [h2, hx, hx.ne', not_lt.2 hx.le, div_fin _ _ hne] <;> tie_close
  · by_cases h1 : x < a'
    · simp [h1]
    · rcases lt_trichotomy x b with hx | hx | hx
      · have hne : b - a' ≠ 0 := by intro h0; apply h1; linarith
        simp [h1, hx, hx.ne, not_lt.2 hx.le, div_fin _ _ hne] <;> tie_close
      · subst hx; simp [h1]
      · simp [h1, hx]
  · by_cases h1 : x < a'
    · simp [h1]
    · by_cases h2 : c' < x
      · simp [h1, h2]
      · rcases lt_trichotomy x b with hx | hx | hx
        · have hne : b - a' ≠ 0 := by intro h0; apply h1; linarith
          simp [h1, h2, hx, hx.ne, not_lt.2 hx.le, div_fin _ _ hne] <;> tie_close
        · subst hx; simp [h1, h2]
        · have hne : c' - b ≠ 0 := by intro h0; apply h2; linarith
          simp [h1, h2, hx, hx.ne', not_lt.2 hx.le, div_fin _ _ hne] <;> tie_close

theorem trapezoid_fin (F : Fn α) (a : X α) (b c : α) (d : X α) (h x : α) (ha : LeftEnd a b) (hbc : b ≤ c)
    (hd : RightEnd c d) :
    Gen.Term.Trapezoid.membership F a (fin b) (fin c) d (fin h) (fin x) = fin (Mu.trapezoid a b c d h x) := by
  rcases ha with rfl | ⟨a', rfl, hab⟩ <;> rcases hd with rfl | ⟨d', rfl, hcd⟩
  all_goals
    unfold Gen.Term.Trapezoid.membership Mu.trapezoid
    simp only [isnan_fin, sel_false, mul_fin, mul_one, lt_fin, le_fin, eq_fin, lt_fin_pinf, lt_fin_ninf, lt_pinf_fin,
      lt_ninf_fin, eq_pinf_pinf, eq_ninf_ninf, eq_fin_pinf', eq_fin_ninf', sub_fin, val_fin]
  · by_cases h3 : x < b
    · simp [h3]
    · by_cases h4 : c < x
      · simp [h3, h4, not_lt.1 h3]
      · simp [h3, h4, not_lt.1 h3, not_lt.1 h4]
  · by_cases h2 : d' < x
    · simp [h2]
    · by_cases h3 : x < b
      · simp [h2, h3]
      · by_cases h4 : c < x
        · have hne : d' - c ≠ 0 := by intro h0; apply h2; linarith
          simp [h2, h3, h4, not_le.2 h4, div_fin _ _ hne] <;> tie_close
        · simp [h2, h3, h4, not_lt.1 h3, not_lt.1 h4]
  · by_cases h1 : x < a'
    · simp [h1]
    · by_cases h3 : x < b
      · have hne : b - a' ≠ 0 := by intro h0; apply h1; linarith
        have h4 : ¬ c < x := by intro h; linarith
        simp [h1, h3, h4, not_le.2 h3, div_fin _ _ hne] <;> tie_close
      · by_cases h4 : c < x
        · simp [h1, h3, h4, not_lt.1 h3]
        · simp [h1, h3, h4, not_lt.1 h3, not_lt.1 h4]
  · by_cases h1 : x < a'
    · simp [h1]
    · by_cases h2 : d' < x
      · simp [h1, h2]
      · by_cases h3 : x < b
        · have hne : b - a' ≠ 0 := by intro h0; apply h1; linarith
          simp [h1, h2, h3, not_le.2 h3, div_fin _ _ hne] <;> tie_close
        · by_cases h4 : c < x
          · have hne : d' - c ≠ 0 := by intro h0; apply h2; linarith
            simp [h1, h2, h3, h4, not_le.2 h4, div_fin _ _ hne] <;> tie_close
          · simp [h1, h2, h3, h4, not_lt.1 h3, not_lt.1 h4]

theorem rectangle_fin (F : Fn α) (s e h x : α) :
    Gen.Term.Rectangle.membership F (fin s) (fin e) (fin h) (fin x) = fin (Mu.rectangle s e h x) := by
  unfold Gen.Term.Rectangle.membership Mu.rectangle
  simp only [lt_fin, le_fin, isnan_fin, sel_false, mul_fin, mul_one, ofBool, decide_eq_true_eq]
  rcases lt_trichotomy s e with h1 | h1 | h1
  · have h2 : ¬ e < s := not_lt.2 h1.le
    simp only [h1, h2, if_true, if_false, min_eq_left h1.le, max_eq_right h1.le]
    by_cases hx : s ≤ x ∧ x ≤ e <;> simp [hx]
  · subst h1
    simp only [lt_irrefl, if_false, min_self, max_self]
    by_cases hx : s ≤ x ∧ x ≤ s <;> simp [hx]
  · have h2 : ¬ s < e := not_lt.2 h1.le
    simp only [h1, h2, if_true, if_false, min_eq_right h1.le, max_eq_left h1.le]
    by_cases hx : e ≤ x ∧ x ≤ s <;> simp [hx]

theorem ramp_fin (F : Fn α) (s e h x : α) (hse : s ≠ e) :
    Gen.Term.Ramp.membership F (fin s) (fin e) (fin h) (fin x) = fin (Mu.ramp s e h x) := by
  unfold Gen.Term.Ramp.membership Mu.ramp
  rcases lt_or_gt_of_ne hse with h1 | h1
  · have h2 : ¬ e < s := not_lt.2 h1.le
    have hd : e - s ≠ 0 := sub_ne_zero.2 (Ne.symm hse)
    by_cases hx1 : s < x
    · by_cases hx2 : x < e
      · simp [h1, h2, hx1, hx2, div_fin _ _ hd]
      · have h3 : ¬ x < s := not_lt.2 hx1.le
        simp [h1, h2, hx1, hx2, h3, not_lt.1 hx2, ofBool]
    · have h3 : ¬ e ≤ x := by intro h; apply hx1; linarith
      have h4 : ¬ e < x := by intro h; apply hx1; linarith
      simp [h1, h2, hx1, h3, h4, ofBool]
  · have h2 : ¬ s < e := not_lt.2 h1.le
    have hd : s - e ≠ 0 := sub_ne_zero.2 hse
    by_cases hx1 : x < s
    · by_cases hx2 : e < x
      · have h3 : ¬ s < x := not_lt.2 hx1.le
        simp [h1, h2, hx1, hx2, h3, div_fin _ _ hd] <;> tie_close
      · have h3 : ¬ s < x := not_lt.2 hx1.le
        simp [h1, h2, hx1, hx2, h3, not_lt.1 hx2, ofBool]
    · have h3 : ¬ x ≤ e := by intro h; apply hx1; linarith
      have h4 : ¬ x < e := by intro h; apply hx1; linarith
      simp [h1, h2, hx1, h3, h4, ofBool]

theorem binary_fin (F : Fn α) (s : α) (d : X α) (h x : α) (hd : d = pinf ∨ d = ninf) :
    Gen.Term.Binary.membership F (fin s) d (fin h) (fin x) = fin (Mu.binary s d h x) := by
  unfold Gen.Term.Binary.membership Mu.binary
  rcases hd with rfl | rfl
  · by_cases hx : s ≤ x <;> simp [hx]
  · by_cases hx : x ≤ s <;> simp [hx]

theorem concave_fin (F : Fn α) (i e h x : α) (hie : i ≠ e) :
    Gen.Term.Concave.membership F (fin i) (fin e) (fin h) (fin x) = fin (Mu.concave i e h x) := by
  unfold Gen.Term.Concave.membership Mu.concave
  rcases lt_or_gt_of_ne hie with h1 | h1
  · have h2 : ¬ e ≤ i := not_le.2 h1
    have h2' : ¬ e < i := not_lt.2 h1.le
    by_cases hx : x < e
    · have hne : 2 * e - i - x ≠ 0 := by intro h0; linarith
      simp [h1.le, h2, h2', hx, div_fin _ _ hne] <;> tie_close
    · simp [h1.le, h2, h2', hx]
  · have h2 : ¬ i ≤ e := not_le.2 h1
    by_cases hx : e < x
    · have hne : i - 2 * e + x ≠ 0 := by intro h0; linarith
      have : -(2 * e) + i + x = i - 2 * e + x := by ring
      simp [h1.le, h1, h2, hx, div_fin _ _ hne, this] <;> tie_close
    · simp [h1.le, h1, h2, hx]

theorem constant_fin (F : Fn α) (k : α) (x : X α) :
    Gen.Term.Constant.membership F (fin k) x = fin (Mu.constant k 0) := rfl

theorem half_mul (a : α) : (1 : α) / 2 * a = a / 2 := by ring

theorem sShape_fin (F : Fn α) (s e h x : α) (hse : s < e) :
    Gen.Term.SShape.membership F (fin s) (fin e) (fin h) (fin x) = fin (Mu.sShape s e h x) := by
  unfold Gen.Term.SShape.membership Mu.sShape
  have hd : e - s ≠ 0 := by intro h0; linarith
  simp only [isnan_fin, sel_false, mul_fin, mul_one, lt_fin, le_fin, sub_fin, add_fin, sq_fin, div_fin _ _ hd,
    sel_decide, half_mul]
  congr 1; split_ifs <;> ring

theorem zShape_fin (F : Fn α) (s e h x : α) (hse : s < e) :
    Gen.Term.ZShape.membership F (fin s) (fin e) (fin h) (fin x) = fin (Mu.zShape s e h x) := by
  unfold Gen.Term.ZShape.membership Mu.zShape
  have hd : e - s ≠ 0 := by intro h0; linarith
  simp only [isnan_fin, sel_false, mul_fin, mul_one, lt_fin, le_fin, sub_fin, add_fin, sq_fin, div_fin _ _ hd,
    sel_decide, half_mul]
  congr 1; split_ifs <;> ring

theorem piShape_fin (F : Fn α) (a b c d h x : α) (hab : a < b) (hcd : c < d) :
    Gen.Term.PiShape.membership F (fin a) (fin b) (fin c) (fin d) (fin h) (fin x) = fin (Mu.piShape a b c d h x) := by
  unfold Gen.Term.PiShape.membership Mu.piShape Mu.sShape Mu.zShape
  have hd1 : b - a ≠ 0 := by intro h0; linarith
  have hd2 : d - c ≠ 0 := by intro h0; linarith
  simp only [isnan_fin, sel_false, mul_fin, mul_one, lt_fin, le_fin, sub_fin, add_fin, sq_fin, div_fin _ _ hd1,
    div_fin _ _ hd2, sel_decide, half_mul]
  congr 1; split_ifs <;> ring

/-! ### classes with transcendental functions: generic in `F`, side conditions as hypotheses -/

theorem arc_fin (F : Fn α) (s e h x : α) (hse : s ≠ e) :
    Gen.Term.Arc.membership F (fin s) (fin e) (fin h) (fin x) = fin (Mu.arc F s e h x) := by
  unfold Gen.Term.Arc.membership Mu.arc
  have hc : s + (e - s) = e := by ring
  have hr : |e - s| ≠ 0 := abs_ne_zero.2 (sub_ne_zero.2 (Ne.symm hse))
  simp only [add_fin, sub_fin, hc, sq_fin, abs_fin, isnan_fin, sel_false, mul_fin, mul_one, lt_fin, le_fin, pow_two]
  rcases lt_or_gt_of_ne hse with h1 | h1
  · have h2 : ¬ e < s := not_lt.2 h1.le
    by_cases hx1 : s ≤ x
    · by_cases hx2 : x ≤ e
      · have hrad : 0 ≤ (e - s) * (e - s) - (x - e) * (x - e) := by nlinarith
        simp [h1, h2, hx1, hx2, sqrt_fin F _ hrad, div_fin _ _ hr]
      · have h3 : ¬ x ≤ s := by intro h; apply hx2; linarith
        simp [h1, h2, hx1, hx2, h3, not_le.1 hx2, ofBool]
    · have h3 : ¬ e ≤ x := by intro h; apply hx1; linarith
      have h4 : ¬ e < x := by intro h; apply hx1; linarith
      simp [h1, h2, hx1, h3, h4, ofBool]
  · have h2 : ¬ s < e := not_lt.2 h1.le
    by_cases hx1 : x ≤ s
    · by_cases hx2 : e ≤ x
      · have hrad : 0 ≤ (e - s) * (e - s) - (x - e) * (x - e) := by nlinarith
        simp [h1, h2, hx1, hx2, sqrt_fin F _ hrad, div_fin _ _ hr]
      · have h3 : ¬ s ≤ x := by intro h; apply hx2; linarith
        simp [h1, h2, hx1, hx2, h3, not_le.1 hx2, ofBool]
    · have h3 : ¬ x ≤ e := by intro h; apply hx1; linarith
      have h4 : ¬ x < e := by intro h; apply hx1; linarith
      simp [h1, h2, hx1, h3, h4, ofBool]

theorem powNonneg_fin (F : Fn α) {a b : α} (ha : 0 ≤ a) (hb : 0 ≤ b) :
    powNonneg F (fin a) (fin b) = fin (powNN F a b) := by
  unfold powNonneg powNN
  by_cases h1 : b = 0
  · simp [h1]
  · by_cases h2 : a = 0
    · have : 0 < b := lt_of_le_of_ne hb (Ne.symm h1)
      simp [h1, h2, this]
    · have : ¬ a < 0 := not_lt.2 ha
      simp [h1, h2, this]

theorem powNN_nonneg (F : Fn α) (hpow : ∀ a b : α, 0 < a → 0 ≤ F.pow a b) {a : α} (ha : 0 ≤ a) (b : α) :
    0 ≤ powNN F a b := by
  unfold powNN
  split_ifs with h1 h2
  · exact zero_le_one
  · exact le_refl _
  · exact hpow a b (lt_of_le_of_ne ha (Ne.symm h2))

theorem bell_fin (F : Fn α) (hpow : ∀ a b : α, 0 < a → 0 ≤ F.pow a b) (c w sl h x : α) (hw : 0 < w) (hsl : 0 ≤ sl) :
    Gen.Term.Bell.membership F (fin c) (fin w) (fin sl) (fin h) (fin x) = fin (Mu.bell F c w sl h x) := by
  unfold Gen.Term.Bell.membership Mu.bell
  have ha : 0 ≤ |(x - c) / w| := abs_nonneg _
  have hb : 0 ≤ 2 * sl := by linarith
  have hden : 1 + powNN F |(x - c) / w| (2 * sl) ≠ 0 := by
    have := powNN_nonneg F hpow ha (2 * sl); intro h0; linarith
  have habs : |(x - c) / w| = |x - c| / w := by rw [abs_div, abs_of_pos hw]
  simp only [isnan_fin, sel_false, mul_fin, mul_one, sub_fin, div_fin _ _ hw.ne', abs_fin, powNonneg_fin F ha hb,
    add_fin, div_fin _ _ hden]
  rw [habs, mul_one_div]

theorem cosine_fin (F : Fn α) (c w h x : α) (hw : w ≠ 0) :
    Gen.Term.Cosine.membership F (fin c) (fin w) (fin h) (fin x) = fin (Mu.cosine F c w h x) := by
  unfold Gen.Term.Cosine.membership Mu.cosine
  simp only [isnan_fin, isfinite_fin, Bool.true_and, sel_false, mul_fin, mul_one, sub_fin, add_fin, le_fin,
    div_fin _ _ hw, cos_fin, ← Bool.decide_and, sel_decide, half_mul]
  congr 1; split_ifs <;> ring

theorem gaussian_fin (F : Fn α) (m sd h x : α) (hsd : sd ≠ 0) :
    Gen.Term.Gaussian.membership F (fin m) (fin sd) (fin h) (fin x) = fin (Mu.gaussian F m sd h x) := by
  unfold Gen.Term.Gaussian.membership Mu.gaussian
  have hden : 2 * (sd * sd) ≠ 0 := by simp [hsd]
  simp only [isnan_fin, sel_false, mul_fin, mul_one, sub_fin, sq_fin, neg_fin, div_fin _ _ hden, exp_fin, pow_two]

theorem gaussianProduct_fin (F : Fn α) (ma sa mb sb h x : α) (hsa : sa ≠ 0) (hsb : sb ≠ 0) :
    Gen.Term.GaussianProduct.membership F (fin ma) (fin sa) (fin mb) (fin sb) (fin h) (fin x) =
      fin (Mu.gaussianProduct F ma sa mb sb h x) := by
  unfold Gen.Term.GaussianProduct.membership Mu.gaussianProduct Mu.gaussian
  have hda : 2 * (sa * sa) ≠ 0 := by simp [hsa]
  have hdb : 2 * (sb * sb) ≠ 0 := by simp [hsb]
  simp only [isnan_fin, sel_false, mul_fin, mul_one, one_mul, sub_fin, sq_fin, neg_fin, div_fin _ _ hda,
    div_fin _ _ hdb, exp_fin, pow_two, lt_fin, sel_decide]
  congr 1; ring

theorem semiEllipse_fin (F : Fn α) (s e h x : α) (hse : s ≠ e) :
    Gen.Term.SemiEllipse.membership F (fin s) (fin e) (fin h) (fin x) = fin (Mu.semiEllipse F s e h x) := by
  unfold Gen.Term.SemiEllipse.membership Mu.semiEllipse
  have h2 : (2 : α) ≠ 0 := two_ne_zero
  rcases lt_or_gt_of_ne hse with h1 | h1
  · have h1' : ¬ e < s := not_lt.2 h1.le
    have hr : (e - s) / 2 ≠ 0 := by intro h0; have : e - s = 0 := by linarith [h0]
                                    linarith
    have hc : s + (e - s) / 2 = (s + e) / 2 := by ring
    simp only [lt_fin, h1, h1', decide_true, decide_false, if_true, if_false, Bool.false_eq_true, min_eq_left h1.le,
      max_eq_right h1.le, isnan_fin, sel_false, mul_fin, mul_one, sub_fin, add_fin, sq_fin, le_fin, div_fin _ _ h2, hc,
      pow_two]
    by_cases hx : s ≤ x ∧ x ≤ e
    · have hrad : 0 ≤ (e - s) / 2 * ((e - s) / 2) - (x - (s + e) / 2) * (x - (s + e) / 2) := by
        nlinarith [hx.1, hx.2]
      simp [hx, hx.1, hx.2, sqrt_fin F _ hrad, max_eq_left hrad, div_fin _ _ hr]
    · have : (decide (s ≤ x) && decide (x ≤ e)) = false := by simpa using hx
      simp [hx, this]
  · have h1' : ¬ s < e := not_lt.2 h1.le
    have hr : (s - e) / 2 ≠ 0 := by intro h0; have : s - e = 0 := by linarith [h0]
                                    linarith
    have hc : e + (s - e) / 2 = (e + s) / 2 := by ring
    simp only [lt_fin, h1, h1', decide_true, decide_false, if_true, if_false, Bool.false_eq_true, min_eq_right h1.le,
      max_eq_left h1.le, isnan_fin, sel_false, mul_fin, mul_one, sub_fin, add_fin, sq_fin, le_fin, div_fin _ _ h2, hc,
      pow_two]
    by_cases hx : e ≤ x ∧ x ≤ s
    · have hrad : 0 ≤ (s - e) / 2 * ((s - e) / 2) - (x - (e + s) / 2) * (x - (e + s) / 2) := by
        nlinarith [hx.1, hx.2]
      simp [hx, hx.1, hx.2, sqrt_fin F _ hrad, max_eq_left hrad, div_fin _ _ hr]
    · have : (decide (e ≤ x) && decide (x ≤ s)) = false := by simpa using hx
      simp [hx, this]

theorem sigmoid_fin (F : Fn α) (hexp : ∀ a : α, 0 < F.exp a) (i sl h x : α) :
    Gen.Term.Sigmoid.membership F (fin i) (fin sl) (fin h) (fin x) = fin (Mu.sigmoid F i sl h x) := by
  unfold Gen.Term.Sigmoid.membership Mu.sigmoid
  have hden : 1 + F.exp (-sl * (x - i)) ≠ 0 := by have := hexp (-sl * (x - i)); intro h0; linarith
  simp only [isnan_fin, sel_false, mul_fin, mul_one, sub_fin, neg_fin, exp_fin, add_fin, div_fin _ _ hden]

theorem sigmoidDifference_fin (F : Fn α) (hexp : ∀ a : α, 0 < F.exp a) (l r f rt h x : α) :
    Gen.Term.SigmoidDifference.membership F (fin l) (fin r) (fin f) (fin rt) (fin h) (fin x) =
      fin (Mu.sigmoidDifference F l r f rt h x) := by
  unfold Gen.Term.SigmoidDifference.membership Mu.sigmoidDifference Mu.sigmoid
  have hd1 : 1 + F.exp (-r * (x - l)) ≠ 0 := by have := hexp (-r * (x - l)); intro h0; linarith
  have hd2 : 1 + F.exp (-f * (x - rt)) ≠ 0 := by have := hexp (-f * (x - rt)); intro h0; linarith
  simp only [isnan_fin, sel_false, mul_fin, mul_one, sub_fin, neg_fin, exp_fin, add_fin, div_fin _ _ hd1,
    div_fin _ _ hd2, abs_fin]

theorem sigmoidProduct_fin (F : Fn α) (hexp : ∀ a : α, 0 < F.exp a) (l r f rt h x : α) :
    Gen.Term.SigmoidProduct.membership F (fin l) (fin r) (fin f) (fin rt) (fin h) (fin x) =
      fin (Mu.sigmoidProduct F l r f rt h x) := by
  unfold Gen.Term.SigmoidProduct.membership Mu.sigmoidProduct Mu.sigmoid
  have hd1 : 1 + F.exp (-r * (x - l)) ≠ 0 := by have := hexp (-r * (x - l)); intro h0; linarith
  have hd2 : 1 + F.exp (-f * (x - rt)) ≠ 0 := by have := hexp (-f * (x - rt)); intro h0; linarith
  simp only [isnan_fin, sel_false, mul_fin, mul_one, sub_fin, neg_fin, exp_fin, add_fin, div_fin _ _ hd1,
    div_fin _ _ hd2]

theorem spike_fin (F : Fn α) (c w h x : α) (hw : w ≠ 0) :
    Gen.Term.Spike.membership F (fin c) (fin w) (fin h) (fin x) = fin (Mu.spike F c w h x) := by
  unfold Gen.Term.Spike.membership Mu.spike
  simp only [isnan_fin, sel_false, mul_fin, mul_one, sub_fin, neg_fin, exp_fin, abs_fin, div_fin _ _ hw]

end TermTie
