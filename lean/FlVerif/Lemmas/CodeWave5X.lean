import FlVerif.Gen.CodeWave5X
import FlVerif.Op.Infer
import FlVerif.Op.InferTree

/-! # Tie A for `WeightedDefuzzifier.infer_type`: the definition translated from the current source equals the model

`infer_type` is recursive over the component it is given.  `inferComp` (`Op/InferTree.lean`) is the model on every tree
of components (`Py.W5.Comp`); on the `Aggregated` term of the weighted model it is `Op.Weighted.inferType`, on a plain term it is
`Op.Weighted.inferTerm`. -/

namespace Op.Weighted
open Gen.Code Py.W Py.W5

/-- a result of the model and a result of the translated code agree -/
def InferAgree (r : Except Err WType) (g : Py.M WeightedDefuzzifier_infer_type.S) : Prop :=
  match r with
  | .error e => g = .error (errToPy e)
  | .ok t => ∃ σ, g = .ok σ ∧ σ.ret = some t

theorem Comp.depth_pos : ∀ c : Comp, 0 < c.depth
  | .group _ => Nat.succ_pos _
  | .activated _ => Nat.succ_pos _
  | .plain _ => Nat.succ_pos _

/-- the value a recursive call returns -/
abbrev recVal (n : Nat) (c : Comp) : Py.M WType :=
  WeightedDefuzzifier_infer_type.rec n c {} >>= fun r => Py.deref r.ret

theorem recVal_of_agree (n : Nat) (c : Comp) (h : InferAgree (inferComp c) (WeightedDefuzzifier_infer_type.rec n c {})) :
    recVal n c = (match inferComp c with | .ok t => .ok t | .error e => .error (errToPy e)) := by
  unfold recVal
  cases hc : inferComp c with
  | error e => rw [hc] at h; simp only [InferAgree] at h; simp only [h, bind, Except.bind]
  | ok t =>
    rw [hc] at h
    obtain ⟨σ, h1, h2⟩ := h
    simp only [h1, h2, bind, Except.bind, Py.deref_some]

/-- the comprehension over the terms, given that the recursive calls agree with the model -/
theorem mapM_recVal (n : Nat) : ∀ ts : List Comp,
    (∀ c ∈ ts, recVal n c = (match inferComp c with | .ok t => .ok t | .error e => .error (errToPy e))) →
    List.mapM (fun (t_i : Comp) => (WeightedDefuzzifier_infer_type.rec n t_i {} >>= fun r => Py.deref r.ret)) ts =
      (match inferList ts with | .ok l => .ok l | .error e => .error (errToPy e))
  | [], _ => rfl
  | c :: cs, h => by
    have hc := h c (List.mem_cons_self)
    have ih := mapM_recVal n cs (fun c' hc' => h c' (List.mem_cons_of_mem _ hc'))
    simp only [recVal] at hc
    rw [List.mapM_cons, hc, ih, inferList]
    cases inferComp c with
    | error e => rfl
    | ok t =>
      cases inferList cs with
      | error e => rfl
      | ok l => rfl

theorem depthList_le : ∀ (ts : List Comp) (c : Comp), c ∈ ts → c.depth ≤ Comp.depth.depthList ts
  | c' :: cs, c, h => by
    rw [Comp.depth.depthList]
    rcases List.mem_cons.mp h with rfl | h'
    · exact Nat.le_max_left _ _
    · exact Nat.le_trans (depthList_le cs c h') (Nat.le_max_right _ _)

/-- **the translated `infer_type` agrees with the model on every component**, for every bound that covers its depth -/
theorem code_inferComp : ∀ (n : Nat) (c : Comp) (σ : WeightedDefuzzifier_infer_type.S), c.depth ≤ n →
    InferAgree (inferComp c) (WeightedDefuzzifier_infer_type.rec n c σ)
  | 0, c, _, h => absurd (Comp.depth_pos c) (by omega)
  | n + 1, .plain ⟨nm, kind, mu, tsk⟩, σ, _ => by
    simp only [WeightedDefuzzifier_infer_type.rec, Comp.isGroup, Comp.isActivated, Comp.isSugeno, Comp.isMonotonic,
      Bool.false_eq_true, if_false, inferComp, inferTerm, InferAgree]
    cases kind <;> exact ⟨_, rfl, rfl⟩
  | n + 1, .activated c, σ, h => by
    have hd : c.depth ≤ n := by simp only [Comp.depth] at h; omega
    have hv := recVal_of_agree n c (code_inferComp n c {} hd)
    simp only [recVal] at hv
    simp only [WeightedDefuzzifier_infer_type.rec, Comp.isGroup, Comp.isActivated, Bool.false_eq_true, if_false, if_true,
      Comp.term, inferComp, bind, Except.bind] at hv ⊢
    rw [hv]
    cases inferComp c with
    | error e => rfl
    | ok t => exact ⟨_, rfl, rfl⟩
  | n + 1, .group ts, σ, h => by
    have hd : Comp.depth.depthList ts ≤ n := by simp only [Comp.depth] at h; omega
    have hm := mapM_recVal n ts (fun c hc =>
      recVal_of_agree n c (code_inferComp n c {} (Nat.le_trans (depthList_le ts c hc) hd)))
    simp only [WeightedDefuzzifier_infer_type.rec, Comp.isGroup, if_true, Comp.terms, inferComp]
    rw [hm]
    cases inferList ts with
    | error e => rfl
    | ok l =>
      simp only [bind, Except.bind]
      match hl : Py.distinct l with
      | [] => exact ⟨_, rfl, rfl⟩
      | [t] => exact ⟨_, rfl, rfl⟩
      | t1 :: t2 :: r => rfl

/-! ## the `Aggregated` term of the weighted model -/

theorem inferList_ofActs : ∀ acts : List (Act String Rat),
    inferList (acts.map (fun a => Comp.activated (.plain a.1))) = .ok (acts.map (fun a => inferTerm a.1))
  | [] => rfl
  | a :: as => by
    simp only [List.map_cons, inferList, inferComp, inferList_ofActs as, bind, Except.bind]

theorem distinct_types (acts : List (Act String Rat)) :
    Py.distinct (acts.map (fun a => inferTerm a.1)) = typeSet acts := by
  unfold Py.distinct typeSet
  rw [List.foldl_map]
  congr 1
  funext s a
  simp only [Py.setAdd, insertNew, List.contains_iff_mem]

/-- on the `Aggregated` term of the weighted model the tree model is `Op.Weighted.inferType` -/
theorem inferComp_ofActs (acts : List (Act String Rat)) : inferComp (ofActs acts) = inferType acts := by
  simp only [ofActs, inferComp, inferList_ofActs, bind, Except.bind, distinct_types, inferType]
  split <;> simp_all

/-- **`WeightedDefuzzifier.infer_type` as translated from the source = `Op.Weighted.inferType`** on an `Aggregated` term -/
theorem code_inferType (acts : List (Act String Rat)) :
    match inferType acts with
    | .error e => WeightedDefuzzifier_infer_type.run (ofActs acts) {} = .error (errToPy e)
    | .ok t => ∃ σ, WeightedDefuzzifier_infer_type.run (ofActs acts) {} = .ok σ ∧ σ.ret = some t := by
  have h := code_inferComp (ofActs acts).depth (ofActs acts) {} (Nat.le_refl _)
  rw [inferComp_ofActs] at h
  exact h

/-- … and the classification `inferTerm` on a plain term -/
theorem code_inferType_plain (t : WTerm String Rat) :
    ∃ σ, WeightedDefuzzifier_infer_type.run (.plain t) {} = .ok σ ∧ σ.ret = some (inferTerm t) :=
  code_inferComp _ (.plain t) {} (Nat.le_refl _)

/-- on every component -/
theorem code_inferType_tree (c : Comp) :
    match inferComp c with
    | .error e => WeightedDefuzzifier_infer_type.run c {} = .error (errToPy e)
    | .ok t => ∃ σ, WeightedDefuzzifier_infer_type.run c {} = .ok σ ∧ σ.ret = some t :=
  code_inferComp c.depth c {} (Nat.le_refl _)

/-- **the external `Py.W.inferType`** - the call `self.infer_type(fuzzy_output)` inside the translated
    `WeightedAverage.defuzzify` / `WeightedSum.defuzzify` - **is the translated `infer_type`** on the term as a component -/
theorem inferType_external_is_code (a : Aggregated) :
    match Py.W.inferType a with
    | .ok t => ∃ σ, WeightedDefuzzifier_infer_type.run (ofActs a.terms) {} = .ok σ ∧ σ.ret = some t
    | .error e => WeightedDefuzzifier_infer_type.run (ofActs a.terms) {} = .error e := by
  have h := code_inferType a.terms
  unfold Py.W.inferType
  cases hi : inferType a.terms with
  | error e => rw [hi] at h; exact h
  | ok t => rw [hi] at h; exact h

/-! ## the external of `Engine.infer_type` -/

mutual
theorem inferComp_error : ∀ (c : Comp) (e : Err), inferComp c = .error e → e = .typeError
  | .plain _, e, h => by simp [inferComp] at h
  | .activated c, e, h => by rw [inferComp] at h; exact inferComp_error c e h
  | .group ts, e, h => by
    rw [inferComp] at h
    cases hl : inferList ts with
    | error e' =>
      rw [hl] at h
      have := inferList_error ts e' hl
      simp only [bind, Except.bind, Except.error.injEq] at h
      rw [← h, this]
    | ok l =>
      rw [hl] at h
      simp only [bind, Except.bind] at h
      split at h <;> simp_all
theorem inferList_error : ∀ (cs : List Comp) (e : Err), inferList cs = .error e → e = .typeError
  | [], e, h => by simp [inferList] at h
  | c :: cs, e, h => by
    rw [inferList] at h
    cases hc : inferComp c with
    | error e' =>
      rw [hc] at h
      have := inferComp_error c e' hc
      simp only [bind, Except.bind, Except.error.injEq] at h
      rw [← h, this]
    | ok t =>
      rw [hc] at h
      cases hl : inferList cs with
      | error e' =>
        rw [hl] at h
        have := inferList_error cs e' hl
        simp only [bind, Except.bind, Except.error.injEq] at h
        rw [← h, this]
      | ok l => rw [hl] at h; simp [bind, Except.bind] at h
end

/-- the defuzzifier of an output variable with the terms `ts`, as `Op.Infer.Engine` sees it: a weighted defuzzifier
    together with what `infer_type` makes of the variable -/
def weightedOfTerms (ts : List Comp) : Option WType :=
  match inferComp (.group ts) with
  | .ok t => some t
  | .error _ => none

/-- **the external `Op.Infer.Defuzz.weightedType`** - the call `variable.defuzzifier.infer_type(variable)` inside the
    translated `Engine.infer_type` - **is the translated `infer_type`** on the variable as a component: the common type of
    its terms, `TypeError` when they have several -/
theorem inferType_engine_external_is_code (ts : List Comp) :
    match Op.Infer.Defuzz.weightedType (.weighted (weightedOfTerms ts)) with
    | .ok t => ∃ σ, WeightedDefuzzifier_infer_type.run (.group ts) {} = .ok σ ∧ σ.ret = some t
    | .error e => WeightedDefuzzifier_infer_type.run (.group ts) {} = .error e := by
  have h := code_inferType_tree (.group ts)
  unfold weightedOfTerms
  cases hi : inferComp (.group ts) with
  | error e =>
    rw [hi] at h
    rw [inferComp_error _ e hi] at h
    exact h
  | ok t => rw [hi] at h; exact h

end Op.Weighted
