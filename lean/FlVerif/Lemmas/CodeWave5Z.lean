import FlVerif.Gen.CodeFormatInfix
import FlVerif.Lemmas.FormatInfix
import FlVerif.Lemmas.CodeFunction
import FlVerif.Lemmas.CodeBlockActFactory

/-! # Tie A: `Function.format_infix` (term.py) is `Op.formatInfix`

The translated function builds the set of operator symbols, sorts it in descending order and applies the two
regular-expression substitutions (`Py.W5Z.subAlt`, `Py.W5Z.collapseStrip`: `Op/PyExtWave5Z.lean`).  The hand-written
model `Op.formatInfix` is one scan over the characters that returns the tokens (`format_infix(...).split()`).

* `alts_eq`: the alternation the code builds is `Op.symbolOps tbl` (sets as lists without repetitions);
* `words_subAlt`: the white-space separated words of the text with the blanks inserted are the tokens of the scan;
* `strip_collapse`: collapsing the white-space runs and stripping gives these words joined by single blanks;
* `splitWords_join`: `str.split()` of such a text gives the words back. -/

namespace Lang

/-- what the code relies on in the names of the operators: they are the keys of a dictionary (no repetition), none is
    empty (an empty alternative of the regular expression would match everywhere) and none contains white space (the
    second substitution and `split()` would cut such a symbol in two) -/
def Table.SymbolsPlain (tbl : Table) : Prop :=
  tbl.operators.Nodup ∧ ∀ o ∈ tbl.operators, o ≠ "" ∧ ∀ c ∈ o.toList, isSpace c = false

instance (tbl : Table) : Decidable tbl.SymbolsPlain := by unfold Table.SymbolsPlain; infer_instance

end Lang

namespace CodeW5Z
open Lang Op Gen.Code Py.W5Z

/-! ## the alternation -/

theorem insertDesc_eq (s : String) : ∀ l, Py.insertDesc s l = Op.insertDesc s l
  | [] => rfl
  | x :: xs => by simp only [Py.insertDesc, Op.insertDesc, insertDesc_eq s xs]

theorem sortedDesc_eq : ∀ l, Py.sortedDesc l = Op.sortDesc l
  | [] => rfl
  | x :: xs => by
    have ih := sortedDesc_eq xs
    simp only [Py.sortedDesc, Op.sortDesc, List.foldr_cons] at ih ⊢
    rw [ih, insertDesc_eq]

theorem ofList_nodup : ∀ (l : List String), l.Nodup → Py.SetOf.ofList l = l
  | [], _ => rfl
  | x :: xs, h => by
    rw [List.nodup_cons] at h
    have hx : xs.contains x = false := by simpa using h.1
    simp only [Py.SetOf.ofList, hx, Bool.false_eq_true, if_false, ofList_nodup xs h.2]

theorem lookup_none_not_mem : ∀ (tbl : Table) (s : String), tbl.lookup s = none → s ∉ tbl.map (·.1)
  | [], _, _ => by simp
  | r :: rest, s, h => by
    simp only [Table.lookup] at h
    by_cases e : r.1 = s
    · simp [e] at h
    · simp only [e, if_false] at h
      have := lookup_none_not_mem rest s h
      simp only [List.map_cons, List.mem_cons, not_or]
      exact ⟨fun e' => e e'.symm, this⟩

theorem not_mem_operators (tbl : Table) (s : String) (h : tbl.lookup s = none) : s ∉ tbl.operators := by
  intro hm
  apply lookup_none_not_mem tbl s h
  unfold Table.operators at hm
  rw [List.mem_map] at hm ⊢
  obtain ⟨r, hr, e⟩ := hm
  exact ⟨r, (List.mem_filter.mp hr).1, e⟩

theorem operators_filter : ∀ (tbl : Table),
    tbl.operators.filter (fun x => !["and", "or"].contains x) =
      (tbl.filter (fun r => r.2.1 && r.1 != "and" && r.1 != "or")).map (·.1)
  | [] => rfl
  | r :: rest => by
    have ih := operators_filter rest
    unfold Table.operators at ih ⊢
    by_cases h1 : r.2.1 = true
    · by_cases h2 : r.1 = "and"
      · simp_all
      · by_cases h3 : r.1 = "or"
        · simp_all
        · simp_all
    · simp_all

/-- the alternation the translated code builds is the one of the model -/
theorem alts_eq (tbl : Table) (hT : tbl.NoPunct) (hN : tbl.operators.Nodup) :
    Py.sortedDesc (Py.SetOf.diff (Py.SetOf.union (Py.SetOf.ofList tbl.operators) ["(", ")", ","]) ["and", "or"]) =
      symbolOps tbl := by
  obtain ⟨h1, h2, h3⟩ := hT
  have m1 := not_mem_operators tbl _ h1
  have m2 := not_mem_operators tbl _ h2
  have m3 := not_mem_operators tbl _ h3
  rw [sortedDesc_eq, ofList_nodup _ hN]
  unfold symbolOps
  congr 1
  have hu : Py.SetOf.union tbl.operators ["(", ")", ","] = tbl.operators ++ ["(", ")", ","] := by
    have : Py.SetOf.ofList ["(", ")", ","] = ["(", ")", ","] := by decide
    simp [Py.SetOf.union, this, m1, m2, m3]
  rw [hu]
  simp only [Py.SetOf.diff, List.filter_append, operators_filter]
  congr 1

/-! ## characters: the first alternative -/

theorem isPrefixOf_eq : ∀ (a b : List Char), a.isPrefixOf b = isPrefix a b
  | [], _ => by simp [isPrefix]
  | _ :: _, [] => by simp [isPrefix]
  | a :: as, b :: bs => by simp only [List.isPrefixOf, isPrefix, isPrefixOf_eq as bs]

theorem firstLit_eq (ops : List (List Char)) (cs : List Char) : firstLit ops cs = firstMatch ops cs := by
  unfold firstLit firstMatch
  congr 1
  funext o
  rw [isPrefixOf_eq]

/-! ## characters: words -/

/-- the words of a text (maximal runs of characters that are not white space); `cur` is the word being read -/
def wds : List Char → List Char → List (List Char)
  | [], cur => if cur.isEmpty then [] else [cur]
  | c :: cs, cur => if isSpace c then (if cur.isEmpty then [] else [cur]) ++ wds cs [] else wds cs (cur ++ [c])

theorem flush_eq (cur : List Char) : flush cur = (if cur.isEmpty then [] else [cur]).map String.ofList := by
  unfold flush; split <;> rfl

/-- `wds` is the scan of the model without operators -/
theorem wds_scan : ∀ (l cur : List Char), (wds l cur).map String.ofList = scan [] l 0 cur
  | [], cur => by simp only [wds, scan, flush_eq]
  | c :: cs, cur => by
    have hn : firstMatch [] (c :: cs) = none := rfl
    simp only [wds, scan, hn]
    split
    · rw [List.map_append, wds_scan cs [], flush_eq]
    · exact wds_scan cs _

theorem wds_word : ∀ (w r cur : List Char), (∀ c ∈ w, isSpace c = false) → wds (w ++ r) cur = wds r (cur ++ w)
  | [], r, cur, _ => by simp
  | c :: w, r, cur, h => by
    have hc : isSpace c = false := h c (by simp)
    simp only [List.cons_append, wds, hc, Bool.false_eq_true, if_false]
    rw [wds_word w r (cur ++ [c]) (fun d hd => h d (by simp [hd]))]
    simp

theorem wds_nonempty : ∀ (l cur : List Char), ∀ w ∈ wds l cur, w ≠ []
  | [], cur, w, hw => by
    simp only [wds] at hw
    split at hw
    · simp at hw
    · rename_i hc
      simp only [List.mem_singleton] at hw
      subst hw
      intro e; subst e; simp at hc
  | c :: cs, cur, w, hw => by
    simp only [wds] at hw
    split at hw
    · rw [List.mem_append] at hw
      rcases hw with hw | hw
      · split at hw
        · simp at hw
        · rename_i hc
          simp only [List.mem_singleton] at hw
          subst hw
          intro e; subst e; simp at hc
      · exact wds_nonempty cs [] w hw
    · exact wds_nonempty cs _ w hw

/-- **the words of the text with the blanks inserted are the tokens of the scan** (`ops`: no symbol contains white
    space) -/
theorem words_subAlt (ops : List (List Char)) (hs : ∀ o ∈ ops, ∀ c ∈ o, isSpace c = false) :
    ∀ (l : List Char) (skip : Nat) (cur : List Char),
      (wds (subAltC ops l skip) cur).map String.ofList = scan ops l skip cur
  | [], skip, cur => by simp only [subAltC, wds, scan, flush_eq]
  | c :: cs, skip + 1, cur => by
    simp only [subAltC, scan]
    exact words_subAlt ops hs cs skip cur
  | c :: cs, 0, cur => by
    simp only [subAltC, scan, firstLit_eq]
    cases hfm : firstMatch ops (c :: cs) with
    | some o =>
      have hmem : o ∈ ops := by
        unfold firstMatch at hfm
        exact List.mem_of_find?_eq_some hfm
      have hne : o ≠ [] := firstMatch_nonempty hfm
      have hsp : isSpace ' ' = true := by decide
      simp only [List.cons_append, wds, hsp, if_true]
      rw [wds_word o _ [] (hs o hmem)]
      simp only [List.nil_append, wds, hsp, if_true, List.map_append, List.isEmpty_iff, hne, if_false]
      rw [words_subAlt ops hs cs (o.length - 1) [], flush_eq]
      simp
    | none =>
      simp only [wds]
      split
      · rw [List.map_append, words_subAlt ops hs cs 0 [], flush_eq]
      · exact words_subAlt ops hs cs 0 _

theorem wds_nospace : ∀ (l cur : List Char), (∀ c ∈ cur, isSpace c = false) → ∀ w ∈ wds l cur, ∀ c ∈ w, isSpace c = false
  | [], cur, hc, w, hw => by
    simp only [wds] at hw
    split at hw
    · simp at hw
    · simp only [List.mem_singleton] at hw
      subst hw; exact hc
  | c :: cs, cur, hc, w, hw => by
    simp only [wds] at hw
    split at hw
    · rw [List.mem_append] at hw
      rcases hw with hw | hw
      · split at hw
        · simp at hw
        · simp only [List.mem_singleton] at hw
          subst hw; exact hc
      · exact wds_nospace cs [] (by simp) w hw
    · rename_i hsp
      refine wds_nospace cs _ ?_ w hw
      intro d hd
      rw [List.mem_append] at hd
      rcases hd with hd | hd
      · exact hc d hd
      · simp only [List.mem_singleton] at hd
        subst hd; simpa using hsp

/-! ## characters: collapsing the white-space runs and stripping gives the words joined by single blanks -/

/-- every word with a blank before it -/
def pre (ws : List (List Char)) : List Char := ws.flatMap (fun w => ' ' :: w)

theorem pre_tail : ∀ (W : List (List Char)), (∀ w ∈ W, w ≠ []) →
    (if (pre W).tail = [] then [] else ' ' :: (pre W).tail) = pre W
  | [], _ => rfl
  | w :: R, h => by
    have hw : w ≠ [] := h w (by simp)
    cases w with
    | nil => exact absurd rfl hw
    | cons a w' => simp [pre]

theorem collapse_words : ∀ (l : List Char),
    rstrip (collapseRuns true l) = (pre (wds l [])).tail ∧
    ∀ cur, cur ≠ [] → ' ' :: cur ++ rstrip (collapseRuns false l) = pre (wds l cur)
  | [] => by
    refine ⟨rfl, ?_⟩
    intro cur hc
    simp [collapseRuns, rstrip, wds, hc, pre]
  | c :: cs => by
    obtain ⟨ihA, ihB⟩ := collapse_words cs
    by_cases hs : isSpace c = true
    · refine ⟨?_, ?_⟩
      · simp only [collapseRuns, hs, if_true, wds, List.isEmpty_nil, List.nil_append]
        exact ihA
      · intro cur hc
        have hsp : isSpace ' ' = true := by decide
        simp only [collapseRuns, hs, if_true, Bool.false_eq_true, if_false, rstrip, hsp, Bool.true_and, wds,
          List.isEmpty_iff, hc, ihA]
        rw [pre_tail _ (wds_nonempty cs [])]
        simp [pre]
    · have hs' : isSpace c = false := by simpa using hs
      have key : rstrip (c :: collapseRuns false cs) = c :: rstrip (collapseRuns false cs) := by
        simp [rstrip, hs']
      refine ⟨?_, ?_⟩
      · simp only [collapseRuns, hs', Bool.false_eq_true, if_false, wds, List.nil_append, key]
        have := ihB [c] (by simp)
        rw [← this]; rfl
      · intro cur hc
        simp only [collapseRuns, hs', Bool.false_eq_true, if_false, wds, key]
        have := ihB (cur ++ [c]) (by simp)
        rw [← this]; simp

theorem dropWhile_collapse : ∀ (l : List Char), (collapseRuns true l).dropWhile isSpace = collapseRuns true l
  | [] => rfl
  | c :: cs => by
    by_cases hs : isSpace c = true
    · simp only [collapseRuns, hs, if_true]; exact dropWhile_collapse cs
    · have hs' : isSpace c = false := by simpa using hs
      simp [collapseRuns, hs']

theorem strip_collapse_true : ∀ (l : List Char), strip (collapseRuns false l) = rstrip (collapseRuns true l)
  | [] => rfl
  | c :: cs => by
    unfold strip
    have hsp : isSpace ' ' = true := by decide
    by_cases hs : isSpace c = true
    · simp only [collapseRuns, hs, if_true, Bool.false_eq_true, if_false, List.dropWhile_cons, hsp, dropWhile_collapse]
    · have hs' : isSpace c = false := by simpa using hs
      simp [collapseRuns, hs']

/-- **(b) gives the words joined by single blanks** -/
theorem strip_collapse (l : List Char) : strip (collapseRuns false l) = (pre (wds l [])).tail := by
  rw [strip_collapse_true]; exact (collapse_words l).1

theorem ofList_pre_tail : ∀ (W : List (List Char)),
    String.ofList (pre W).tail = " ".intercalate (W.map String.ofList)
  | [] => by simp [pre]
  | [w] => by simp [pre]
  | w :: u :: R => by
    have ih := ofList_pre_tail (u :: R)
    rw [List.map_cons, List.map_cons, String.intercalate_cons_cons, ← List.map_cons, ← ih]
    simp [pre, String.ofList_append, String.append_assoc]

/-! ## `str.split()` of words joined by single blanks -/

theorem wds_pre_tail : ∀ (W : List (List Char)), (∀ w ∈ W, w ≠ [] ∧ ∀ c ∈ w, isSpace c = false) →
    wds (pre W).tail [] = W
  | [], _ => rfl
  | [w], h => by
    obtain ⟨hne, hsp⟩ := h w (by simp)
    have := wds_word w [] [] hsp
    simp only [List.append_nil, List.nil_append] at this
    simp [pre, this, wds, hne]
  | w :: u :: R, h => by
    obtain ⟨hne, hsp⟩ := h w (by simp)
    have ih := wds_pre_tail (u :: R) (fun x hx => h x (by simp [hx]))
    have hb : isSpace ' ' = true := by decide
    have e : (pre (w :: u :: R)).tail = w ++ ' ' :: (pre (u :: R)).tail := by simp [pre]
    rw [e, wds_word w _ [] hsp]
    simp only [List.nil_append, wds, hb, if_true, List.isEmpty_iff, hne, if_false, ih]
    rfl

/-! ## the tie -/

theorem mem_insertDesc (s x : String) : ∀ l, x ∈ Op.insertDesc s l → x = s ∨ x ∈ l
  | [], h => by simpa [Op.insertDesc] using h
  | y :: ys, h => by
    simp only [Op.insertDesc] at h
    split at h
    · simpa using h
    · rw [List.mem_cons] at h
      rcases h with h | h
      · exact Or.inr (by simp [h])
      · rcases mem_insertDesc s x ys h with h' | h'
        · exact Or.inl h'
        · exact Or.inr (by simp [h'])

theorem mem_sortDesc (x : String) : ∀ l, x ∈ sortDesc l → x ∈ l
  | [], h => by simpa [sortDesc] using h
  | y :: ys, h => by
    simp only [sortDesc, List.foldr_cons] at h
    rcases mem_insertDesc y x _ h with h' | h'
    · simp [h']
    · exact List.mem_cons_of_mem _ (mem_sortDesc x ys h')

/-- no symbol of the alternation contains white space -/
theorem symbolOps_plain (tbl : Table) (hS : tbl.SymbolsPlain) :
    ∀ o ∈ (symbolOps tbl).map String.toList, ∀ c ∈ o, isSpace c = false := by
  intro o ho
  rw [List.mem_map] at ho
  obtain ⟨s, hs, rfl⟩ := ho
  have hm := mem_sortDesc s _ hs
  rw [List.mem_append] at hm
  rcases hm with hm | hm
  · rw [List.mem_map] at hm
    obtain ⟨r, hr, rfl⟩ := hm
    have hr' := List.mem_filter.mp hr
    have : r.1 ∈ tbl.operators := by
      unfold Table.operators
      rw [List.mem_map]
      refine ⟨r, List.mem_filter.mpr ⟨hr'.1, ?_⟩, rfl⟩
      have := hr'.2
      simp only [Bool.and_eq_true] at this
      exact this.1.1
    exact (hS.2 _ this).2
  · have : ∀ s ∈ ["(", ")", ","], ∀ c ∈ String.toList s, isSpace c = false := by decide
    exact this s hm

/-- the text the two substitutions produce, in terms of the model's tokens -/
theorem text_eq (tbl : Table) (hS : tbl.SymbolsPlain) (formula : String) :
    collapseStrip (subAlt (symbolOps tbl) formula) = Py.joinSp (formatInfix tbl formula) := by
  unfold collapseStrip subAlt Py.joinSp formatInfix
  rw [String.toList_ofList, strip_collapse, ofList_pre_tail, words_subAlt _ (symbolOps_plain tbl hS)]

/-- `str.split()` of the text gives the model's tokens back -/
theorem split_text (tbl : Table) (hS : tbl.SymbolsPlain) (formula : String) :
    splitWords (collapseStrip (subAlt (symbolOps tbl) formula)) = formatInfix tbl formula := by
  unfold collapseStrip subAlt splitWords formatInfix
  rw [String.toList_ofList, String.toList_ofList, strip_collapse, ← wds_scan, wds_pre_tail,
    words_subAlt _ (symbolOps_plain tbl hS)]
  intro w hw
  exact ⟨wds_nonempty _ _ w hw, wds_nospace _ _ (by simp) w hw⟩

/-- what the translated function returns: the two substitutions on the model's alternation -/
theorem run_eq (tbl : Table) (hT : tbl.NoPunct) (hS : tbl.SymbolsPlain) (formula : String) :
    ∃ σ, Function_format_infix.run tbl formula {} = .ok σ ∧
      σ.ret = some (collapseStrip (subAlt (symbolOps tbl) formula)) := by
  obtain ⟨σ0, r, h0, hr, -, hk⟩ := Py.BlockAct.code_operators tbl
  have hk' : List.map (fun p => p.1) r = tbl.operators := hk
  simp only [Function_format_infix.run, h0, hr, bind, Except.bind, Py.deref_some, hk', alts_eq tbl hT hS.1]
  exact ⟨_, rfl, rfl⟩

/-- **Tie A (code → model)**: `Function.format_infix` returns the tokens of `Op.formatInfix` joined by single blanks -/
theorem code_formatInfix (tbl : Table) (hT : tbl.NoPunct) (hS : tbl.SymbolsPlain) (formula : String) :
    ∃ σ, Function_format_infix.run tbl formula {} = .ok σ ∧ σ.ret = some (Py.joinSp (formatInfix tbl formula)) := by
  obtain ⟨σ, h1, h2⟩ := run_eq tbl hT hS formula
  exact ⟨σ, h1, by rw [h2, text_eq tbl hS]⟩

/-- the external `cls.format_infix(_0)` (followed by `.split()`) of the tie `code_toPostfix` is the translated function -/
theorem formatInfix_external_is_code (tbl : Table) (hT : tbl.NoPunct) (hS : tbl.SymbolsPlain) (formula : String) :
    ∃ σ s, Function_format_infix.run tbl formula {} = .ok σ ∧ σ.ret = some s ∧ splitWords s = formatInfix tbl formula := by
  obtain ⟨σ, h1, h2⟩ := run_eq tbl hT hS formula
  exact ⟨σ, _, h1, h2, split_text tbl hS formula⟩

/-- the order of the alternatives matters: with `*` before `**` (ascending order) the scan cuts `**` in two -/
theorem reverse_order_needed :
    subAlt (Py.sortedDesc ["*", "**"]) "a**b" = "a ** b" ∧ subAlt (Py.sortedAsc ["*", "**"]) "a**b" = "a *  * b" ∧
    collapseStrip (subAlt (Py.sortedAsc ["*", "**"]) "a**b") = "a * * b" := by
  decide

end CodeW5Z
