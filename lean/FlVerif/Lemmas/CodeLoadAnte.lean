import FlVerif.Lemmas.CodeLoad

/-! # Tie A for `Antecedent.load`: the definition translated from the current source against the model
`Op.antecedentLoadPostfix`

The translated code reaches the proposition under construction through the alias `proposition` of the *top* of
`stack`; the alias is detached by the two `pop()`s and the `append(operator)` of the `and` / `or` branch, and the proof
shows that it is live whenever the code uses it (states `s_is`, `s_hedge | s_term`).

Python's `if variable:` (a variable without terms is false, `Variable.__len__`) is `Py.Load.varTruthy` in the code and
part of `EngineInfo.findVar` in the model: the name of a variable without terms is not recognised by either. -/

set_option linter.unusedSimpArgs false

namespace Op
open Lang Gen.Code Py.Load

/-- the tree of the model that an expression object of the translated code stands for (`none` while an operand is
    missing) -/
def exprA : Expression → Option ANode
  | .none => none
  | .prop p => some (.prop p.variable_.name p.hedges p.term_)
  | .op n l r =>
    match exprA l, exprA r with
    | some a, some b => some (.op n a b)
    | _, _ => none

theorem findVar_eq_varGet (e : EngineInfo) (n : String) :
    e.findVar n = (varGet e.vars n).filter VarInfo.truthy := rfl

theorem varGet_of_findVar {e : EngineInfo} {n : String} {v : VarInfo} (h : e.findVar n = some v) :
    varGet e.vars n = some v := by
  rw [findVar_eq_varGet, Option.filter_eq_some_iff] at h
  exact h.1

theorem findVar_name {e : EngineInfo} {n : String} {v : VarInfo} (h : e.findVar n = some v) : v.name = n := by
  have := List.find?_some (varGet_of_findVar h)
  simpa using this

/-- what the state of the translated loop and the configuration of the model's loop have in common -/
structure ARel (e : EngineInfo) (st : AFlags) (stack : List ANode) (σ : Antecedent_load.S) : Prop where
  stk : σ.stack.map exprA = stack.map some
  vars : σ.variables_ = e.vars
  state : (st = fVariable ∧ σ.state = 1) ∨ (st = fVariableAndOr ∧ σ.state = 17) ∨
    ((st = fIs ∧ σ.state = 2 ∨ st = fHedgeTerm ∧ σ.state = 12) ∧ σ.proposition = .live ∧
      ∃ p rest, σ.stack = .prop p :: rest ∧ e.findVar p.variable_.name = some p.variable_)

/-- agreement of the two loops -/
def AAgree (e : EngineInfo) (r : Except ErrKind (AFlags × List ANode)) (g : Py.M Antecedent_load.S) : Prop :=
  match r with
  | .error k => g = .error k.toPy
  | .ok (st, stack) => ∃ σ', g = .ok σ' ∧ ARel e st stack σ'

/-- Python's truth value of `variables.get(token)` is "the model finds the name" -/
theorem varTruthy_findVar (e : EngineInfo) (t : String) : varTruthy (varGet e.vars t) = (e.findVar t).isSome := by
  rw [varTruthy_eq, findVar_eq_varGet]

/-- the branch `if state & s_variable: variable = variables.get(token); if variable: ...` when the token is a variable -/
theorem ARel.push {e : EngineInfo} {st : AFlags} {stack : List ANode} {σ σ' : Antecedent_load.S} {t : String}
    {v : VarInfo} (h : ARel e st stack σ) (hv : e.findVar t = some v)
    (h1 : σ'.stack = .prop { variable_ := v } :: σ.stack) (h2 : σ'.variables_ = σ.variables_)
    (h3 : σ'.state = 2) (h4 : σ'.proposition = .live) : ARel e fIs (.prop t [] none :: stack) σ' := by
  refine ⟨?_, h2.trans h.vars, Or.inr (Or.inr ⟨Or.inl ⟨rfl, h3⟩, h4, _, _, h1, ?_⟩)⟩
  · rw [h1, List.map_cons, List.map_cons, h.stk, exprA, findVar_name hv]
  · show e.findVar v.name = some v
    rw [findVar_name hv]; exact hv

theorem code_aStep_var (e : EngineInfo) (post : String → Py.M String) (text t : String) (ts : List String)
    (ih : ∀ st stack σ, ARel e st stack σ → AAgree e (aLoop e ts st stack) (Antecedent_load.loop1 e post text ts σ))
    (stack : List ANode) (σ : Antecedent_load.S) (h : ARel e fVariable stack σ) :
    AAgree e (aLoop e (t :: ts) fVariable stack) (Antecedent_load.loop1 e post text (t :: ts) σ) := by
  have hs : σ.state = 1 := by
    rcases h.state with ⟨_, h⟩ | ⟨h, _⟩ | ⟨(⟨h, _⟩ | ⟨h, _⟩), _⟩
    · exact h
    all_goals exact absurd h (by decide)
  simp only [Antecedent_load.loop1, aLoop, aStep, fVariable, hs, h.vars, Nat.reduceAnd, Nat.reduceBNe, ↓reduceIte,
    Bool.true_and, Bool.false_and, Bool.false_eq_true, if_false, varTruthy_findVar]
  cases hv : e.findVar t with
  | none => simp only [Option.isSome_none, Bool.false_eq_true, if_false, AAgree, ErrKind.toPy]
  | some v =>
    have hv' : varGet e.vars t = some v := varGet_of_findVar hv
    simp only [Option.isSome_some, if_true, hv', Py.deref, bind, Except.bind]
    exact ih fIs _ _ (h.push hv rfl h.vars.symm rfl rfl)

theorem ARel.state_live {e : EngineInfo} {st : AFlags} {stack : List ANode} {σ : Antecedent_load.S}
    (h : ARel e st stack σ) (hst : st = fIs ∨ st = fHedgeTerm) :
    σ.state = (if st = fIs then 2 else 12) ∧ σ.proposition = .live ∧
      ∃ p rest, σ.stack = .prop p :: rest ∧ e.findVar p.variable_.name = some p.variable_ := by
  rcases h.state with ⟨h1, _⟩ | ⟨h1, _⟩ | ⟨h1, h2⟩
  · rcases hst with rfl | rfl <;> exact absurd h1 (by decide)
  · rcases hst with rfl | rfl <;> exact absurd h1 (by decide)
  · refine ⟨?_, h2⟩
    rcases h1 with ⟨rfl, h1⟩ | ⟨rfl, h1⟩
    · simpa using h1
    · rw [h1]; rfl

theorem code_aStep_is (e : EngineInfo) (post : String → Py.M String) (text t : String) (ts : List String)
    (ih : ∀ st stack σ, ARel e st stack σ → AAgree e (aLoop e ts st stack) (Antecedent_load.loop1 e post text ts σ))
    (stack : List ANode) (σ : Antecedent_load.S) (h : ARel e fIs stack σ) :
    AAgree e (aLoop e (t :: ts) fIs stack) (Antecedent_load.loop1 e post text (t :: ts) σ) := by
  obtain ⟨hs, hlive, p, rest, hstack, hfound⟩ := h.state_live (Or.inl rfl)
  simp only [if_true] at hs
  simp only [Antecedent_load.loop1, aLoop, aStep, fIs, hs, Nat.reduceAnd, Nat.reduceBNe, ↓reduceIte,
    Bool.true_and, Bool.false_and, Bool.false_eq_true, if_false]
  by_cases ht : t = "is"
  · subst ht
    simp only [beq_self_eq_true, if_true]
    exact ih fHedgeTerm _ _ ⟨h.stk, h.vars, Or.inr (Or.inr ⟨Or.inr ⟨rfl, rfl⟩, hlive, p, rest, hstack, hfound⟩)⟩
  · have ht' : ¬ "is" = t := fun h => ht h.symm
    simp only [beq_iff_eq, ht, ht', if_false, AAgree, ErrKind.toPy]

theorem code_aStep_hedgeTerm (e : EngineInfo) (post : String → Py.M String) (text t : String) (ts : List String)
    (ih : ∀ st stack σ, ARel e st stack σ → AAgree e (aLoop e ts st stack) (Antecedent_load.loop1 e post text ts σ))
    (stack : List ANode) (σ : Antecedent_load.S) (h : ARel e fHedgeTerm stack σ) :
    AAgree e (aLoop e (t :: ts) fHedgeTerm stack) (Antecedent_load.loop1 e post text (t :: ts) σ) := by
  obtain ⟨hs, hlive, p, rest, hstack, hfound⟩ := h.state_live (Or.inr rfl)
  have hs : σ.state = 12 := by rw [hs]; rfl
  obtain ⟨hstk, hvars, -⟩ := h
  rw [hstack, List.map_cons] at hstk
  cases stack with
  | nil => simp at hstk
  | cons a stack' =>
    simp only [List.map_cons, List.cons.injEq, exprA, Option.some.injEq] at hstk
    obtain ⟨rfl, hrest⟩ := hstk
    simp only [Antecedent_load.loop1, aLoop, aStep, fHedgeTerm, hs, Nat.reduceAnd, Nat.reduceBNe, ↓reduceIte,
      Bool.true_and, Bool.false_and, Bool.false_eq_true, if_false, hstack, hlive, Py.aliasTop, Py.top_cons,
      Expression.asProp, Py.setTop, List.tail_cons, bind, Except.bind, topTerms, hfound, Option.map_some,
      Option.getD_some]
    cases hh : e.hedges.contains t
    · simp only [Bool.false_eq_true, if_false]
      cases hct : p.variable_.terms.contains t
      · simp only [termGet, hct, Bool.false_eq_true, if_false, Option.isSome_none, AAgree, ErrKind.toPy]
      · simp only [termGet, hct, if_true, Option.isSome_some]
        exact ih fVariableAndOr _ _ ⟨by simp only [List.map_cons, exprA, hrest], hvars, Or.inr (Or.inl ⟨rfl, rfl⟩)⟩
    · simp only [if_true]
      by_cases hany : t = "any"
      · subst hany
        simp only [beq_self_eq_true, if_true]
        exact ih fVariableAndOr _ _ ⟨by simp only [List.map_cons, exprA, hrest], hvars, Or.inr (Or.inl ⟨rfl, rfl⟩)⟩
      · simp only [beq_iff_eq, hany, if_false]
        exact ih fHedgeTerm _ _ ⟨by simp only [List.map_cons, exprA, hrest], hvars,
          Or.inr (Or.inr ⟨Or.inr ⟨rfl, rfl⟩, rfl, _, _, rfl, hfound⟩)⟩

theorem code_aStep_varAndOr (e : EngineInfo) (post : String → Py.M String) (text t : String) (ts : List String)
    (ih : ∀ st stack σ, ARel e st stack σ → AAgree e (aLoop e ts st stack) (Antecedent_load.loop1 e post text ts σ))
    (stack : List ANode) (σ : Antecedent_load.S) (h : ARel e fVariableAndOr stack σ) :
    AAgree e (aLoop e (t :: ts) fVariableAndOr stack) (Antecedent_load.loop1 e post text (t :: ts) σ) := by
  have hs : σ.state = 17 := by
    rcases h.state with ⟨h, _⟩ | ⟨_, h⟩ | ⟨(⟨h, _⟩ | ⟨h, _⟩), _⟩
    · exact absurd h (by decide)
    · exact h
    all_goals exact absurd h (by decide)
  simp only [Antecedent_load.loop1, aLoop, aStep, fVariableAndOr, hs, h.vars, Nat.reduceAnd, Nat.reduceBNe, ↓reduceIte,
    Bool.true_and, Bool.false_and, Bool.false_eq_true, if_false, varTruthy_findVar]
  cases hv : e.findVar t with
  | some v =>
    have hv' : varGet e.vars t = some v := varGet_of_findVar hv
    simp only [Option.isSome_some, if_true, hv', Py.deref, bind, Except.bind]
    exact ih fIs _ _ (h.push hv rfl h.vars.symm rfl rfl)
  | none =>
    simp only [Option.isSome_none, Bool.false_eq_true, if_false]
    have hc : ["and", "or"].contains t = (t == "and" || t == "or") := by
      simp only [List.contains_cons, List.contains_nil, Bool.or_false]
    rw [hc]
    cases hop : (t == "and" || t == "or")
    · simp only [Bool.false_eq_true, if_false, AAgree, ErrKind.toPy]
    · simp only [if_true]
      obtain ⟨hstk, hvars, -⟩ := h
      cases hσ : σ.stack with
      | nil =>
        rw [hσ] at hstk
        cases stack with
        | nil => simp only [List.length_nil, Nat.ofNat_pos, decide_true, if_true, AAgree, ErrKind.toPy]
        | cons a l => simp at hstk
      | cons x xs =>
        cases xs with
        | nil =>
          rw [hσ] at hstk
          cases stack with
          | nil => simp at hstk
          | cons a l =>
            cases l with
            | nil => simp only [List.length_cons, List.length_nil, Nat.zero_add, Nat.one_lt_ofNat, decide_true, if_true,
                AAgree, ErrKind.toPy]
            | cons b l => simp at hstk
        | cons y ys =>
          rw [hσ] at hstk
          cases stack with
          | nil => simp at hstk
          | cons a l =>
            cases l with
            | nil => simp at hstk
            | cons b l =>
              simp only [List.map_cons, List.cons.injEq] at hstk
              obtain ⟨hx, hy, hys⟩ := hstk
              have hlen : ¬ ((x :: y :: ys).length < 2) := by simp
              simp only [hlen, decide_false, Bool.false_eq_true, if_false, Py.popTop_cons, bind, Except.bind]
              exact ih fVariableAndOr _ _ ⟨by simp only [List.map_cons, Expression.ofOp, exprA, hx, hy, hys], rfl,
                Or.inr (Or.inl ⟨rfl, rfl⟩)⟩

/-- the loop of the translated code follows the loop of the model -/
theorem code_aLoop (e : EngineInfo) (post : String → Py.M String) (text : String) : ∀ (ts : List String) (st : AFlags) (stack : List ANode)
    (σ : Antecedent_load.S), ARel e st stack σ →
    AAgree e (aLoop e ts st stack) (Antecedent_load.loop1 e post text ts σ)
  | [], st, stack, σ, h => by
    simp only [aLoop, Antecedent_load.loop1, AAgree]
    exact ⟨σ, rfl, h⟩
  | t :: ts, st, stack, σ, h => by
    have ih := code_aLoop e post text ts
    rcases h.state with ⟨rfl, _⟩ | ⟨rfl, _⟩ | ⟨(⟨rfl, _⟩ | ⟨rfl, _⟩), _⟩
    · exact code_aStep_var e post text t ts ih stack σ h
    · exact code_aStep_varAndOr e post text t ts ih stack σ h
    · exact code_aStep_is e post text t ts ih stack σ h
    · exact code_aStep_hedgeTerm e post text t ts ih stack σ h

/-- **`Antecedent.load` as translated from the source against the model `Op.antecedentLoadPostfix`**, for every engine
    and for any behaviour `post` of the callee `Function.infix_to_postfix`: an empty
    text is a `SyntaxError`, an exception of the callee is passed on, and on the tokens of the postfix text the code
    raises the exception class the model predicts and otherwise assigns to `self.expression` the tree of the model -/
theorem code_antecedentLoad (e : EngineInfo) (post : String → Py.M String) (text : String) :
    if text = "" then Antecedent_load.run e post text {} = .error .syntax else
    match post text with
    | .error x => Antecedent_load.run e post text {} = .error x
    | .ok s =>
      match antecedentLoadPostfix e (Py.split s) with
      | .error k => Antecedent_load.run e post text {} = .error k.toPy
      | .ok a => ∃ σ, Antecedent_load.run e post text {} = .ok σ ∧ exprA σ.self_expression = some a := by
  unfold Antecedent_load.run
  by_cases h : text = ""
  · subst h
    simp only [bne_self_eq_false, Bool.not_false, if_true]
  · have h2 : (text != "") = true := by simp only [bne_iff_ne, ne_eq, h, not_false_eq_true]
    simp only [h, h2, Bool.not_true, Bool.false_eq_true, if_false]
    cases hp : post text with
    | error x => simp only [bind, Except.bind]
    | ok s =>
      simp only [bind, Except.bind, antecedentLoadPostfix]
      generalize hg : Antecedent_load.loop1 e post text (Py.split s) _ = g
      have hl : AAgree e (aLoop e (Py.split s) fVariable []) g := by
        rw [← hg]
        exact code_aLoop e post text (Py.split s) fVariable [] _ ⟨rfl, rfl, Or.inl ⟨rfl, rfl⟩⟩
      clear hg
      revert hl
      generalize aLoop e (Py.split s) fVariable [] = r
      intro hl
      cases r with
      | error k =>
        simp only [AAgree] at hl
        simp only [hl]
      | ok q =>
        obtain ⟨st, stack⟩ := q
        obtain ⟨σ', rfl, hrel⟩ := hl
        have hcases : (σ'.stack = [] ∧ stack = []) ∨ (∃ x a, σ'.stack = [x] ∧ stack = [a] ∧ exprA x = some a) ∨
            (∃ x y xs a b l, σ'.stack = x :: y :: xs ∧ stack = a :: b :: l) := by
          have hstk := hrel.stk
          cases hσ : σ'.stack with
          | nil =>
            rw [hσ] at hstk
            cases stack with
            | nil => exact Or.inl ⟨rfl, rfl⟩
            | cons a l => simp at hstk
          | cons x xs =>
            rw [hσ] at hstk
            cases stack with
            | nil => simp at hstk
            | cons a l =>
              simp only [List.map_cons, List.cons.injEq] at hstk
              obtain ⟨hx, hxs⟩ := hstk
              cases xs with
              | nil =>
                cases l with
                | nil => exact Or.inr (Or.inl ⟨x, a, rfl, rfl, hx⟩)
                | cons b l => simp at hxs
              | cons y ys =>
                cases l with
                | nil => simp at hxs
                | cons b l => exact Or.inr (Or.inr ⟨x, y, ys, a, b, l, rfl, rfl⟩)
        rcases hrel.state with ⟨rfl, hs⟩ | ⟨rfl, hs⟩ | ⟨(⟨rfl, hs⟩ | ⟨rfl, hs⟩), _⟩
        · simp only [fVariable, hs, Nat.reduceAnd, Nat.reduceBNe, Bool.not_false, Bool.not_true, Bool.or_false,
            Bool.false_eq_true, if_true, if_false]
          rcases hcases with ⟨h1, rfl⟩ | ⟨x, a, h1, rfl, hx⟩ | ⟨x, y, xs, a, b, l, h1, rfl⟩
          · simp [h1, ErrKind.toPy]
          · simp [h1, hx]
          · simp [h1, ErrKind.toPy]
        · simp only [fVariableAndOr, hs, Nat.reduceAnd, Nat.reduceBNe, Bool.not_false, Bool.not_true, Bool.or_self,
            Bool.false_eq_true, if_true, if_false]
          rcases hcases with ⟨h1, rfl⟩ | ⟨x, a, h1, rfl, hx⟩ | ⟨x, y, xs, a, b, l, h1, rfl⟩
          · simp [h1, ErrKind.toPy]
          · simp [h1, hx]
          · simp [h1, ErrKind.toPy]
        · simp only [fIs, hs, Nat.reduceAnd, Nat.reduceBNe, Bool.not_false, Bool.not_true, Bool.or_self,
            Bool.false_eq_true, if_true, if_false, ErrKind.toPy]
        · simp only [fHedgeTerm, hs, Nat.reduceAnd, Nat.reduceBNe, Bool.not_false, Bool.not_true, Bool.or_self,
            Bool.false_eq_true, if_true, if_false, ErrKind.toPy]

end Op
