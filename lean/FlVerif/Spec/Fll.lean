import FlVerif.Op.FllIO

/-! The side conditions of C14 as a user reads them.

* `WellFormed e`  – `e` is an engine of the library: every class is registered and carries the number of
  parameters its class takes (what the constructors / factories guarantee), rule texts are `if … then …`
  with a non-empty antecedent and consequent.
* `Printable e`   – additionally the property's own restriction "identifier names": variable names are what
  `Op.as_identifier` returns (term names are passed through it by the exporter itself).  Descriptions and
  engine / block names are single tokens of text at this level ("single-line, without `#`" concerns the lexer).
* `Stable keep c e` – every printed height / weight is still printed after it was read back
  (the hypothesis the round trip needs; for the pinned printer it fails exactly on F11).
* `Representable c e` – every number is on the `d`-decimal grid, heights and weights are 1 or outside the
  tolerance, term names are identifiers: the engine is then *equal* to its re-import. -/

namespace Spec.Fll
open Op.FllIO Dec

def IsIdent (s : String) : Prop := asIdent s = s

def TermOK (t : Term) : Prop :=
  t.cls ∈ Gen.Tables.termKeys ∧
  match t.body with
  | .shape ps h => isSpecialTerm t.cls = false ∧ termArity t.cls = some (ps.length, h.isSome)
  | .discrete xy _ => t.cls = "Discrete" ∧ xy.length % 2 = 0
  | .linear _ => t.cls = "Linear"
  | .function _ => t.cls = "Function"

def NormOK (keys : List String) (o : Option String) : Prop := ∀ s, o = some s → s ∈ keys

def DefuzzOK : Option Defuzz → Prop
  | none => True
  | some (.integral cls _) => defuzzKind cls = some .integral
  | some (.weighted cls ty) => defuzzKind cls = some .weighted ∧ ty ∈ Gen.ExportTables.defuzzifierTypes

def ActivOK : Option Activ → Prop
  | none => True
  | some (.plain cls) => activKind cls = some .plain
  | some (.nth cls _ _) => activKind cls = some .nth
  | some (.best cls _) => activKind cls = some .best
  | some (.threshold cls cmp _) => activKind cls = some .threshold ∧ cmp ∈ comparatorSymbols

def RuleOK (r : Rule) : Prop :=
  r.antecedent ≠ [] ∧ "then" ∉ r.antecedent ∧ r.consequent ≠ [] ∧ "with" ∉ r.consequent

def VarOK (v : Var) : Prop := ∀ t ∈ v.terms, TermOK t

def OutOK (o : OutVar) : Prop :=
  VarOK o.base ∧ NormOK Gen.Tables.snormKeys o.aggregation ∧ DefuzzOK o.defuzzifier

def BlockOK (b : Block) : Prop :=
  NormOK Gen.Tables.tnormKeys b.conjunction ∧ NormOK Gen.Tables.snormKeys b.disjunction ∧
  NormOK Gen.Tables.tnormKeys b.implication ∧ ActivOK b.activation ∧ ∀ r ∈ b.rules, RuleOK r

def WellFormed (e : Engine) : Prop :=
  (∀ v ∈ e.inputs, VarOK v) ∧ (∀ o ∈ e.outputs, OutOK o) ∧ (∀ b ∈ e.blocks, BlockOK b)

def Printable (e : Engine) : Prop :=
  WellFormed e ∧ (∀ v ∈ e.inputs, IsIdent v.name) ∧ (∀ o ∈ e.outputs, IsIdent o.base.name)

/-- heights of the terms of a variable -/
def termHeights (t : Term) : List Num :=
  match t.body with
  | .shape _ (some h) => [h]
  | .discrete _ h => [h]
  | _ => []

/-- every height and rule weight of the engine -/
def heightsAndWeights (e : Engine) : List Num :=
  (e.inputs.flatMap (fun v => v.terms.flatMap termHeights)) ++
  (e.outputs.flatMap (fun o => o.base.terms.flatMap termHeights)) ++
  (e.blocks.flatMap (fun b => b.rules.map (·.weight)))

/-- a printed height / weight is printed again after it was read back -/
def Stable (keep : Num → Bool) (c : Cfg) (e : Engine) : Prop :=
  ∀ h ∈ heightsAndWeights e, keep h = true → keep (rnd c.d h) = true

/-- the property's wording for heights and weights: 1, or further from 1 than the tolerance -/
def HeightExact (c : Cfg) (h : Num) : Prop := h = one ∨ isClose1 c.tol h = false

def bodyNums : TermBody → List Num
  | .shape ps _ => ps
  | .discrete xy _ => xy
  | .linear cs => cs
  | .function _ => []

def activNums : Option Activ → List Num
  | some (.nth _ _ t) => [t]
  | some (.threshold _ _ t) => [t]
  | _ => []

/-- a height / weight that survives the cycle unchanged -/
def HeightRep (c : Cfg) (h : Num) : Prop := OnGrid c.d h ∧ HeightExact c h

def TermRep (c : Cfg) (t : Term) : Prop :=
  IsIdent t.name ∧ (∀ x ∈ bodyNums t.body, OnGrid c.d x) ∧ (∀ h ∈ termHeights t, HeightRep c h)

def VarRep (c : Cfg) (v : Var) : Prop :=
  IsIdent v.name ∧ OnGrid c.d v.lo ∧ OnGrid c.d v.hi ∧ ∀ t ∈ v.terms, TermRep c t

def OutRep (c : Cfg) (o : OutVar) : Prop := VarRep c o.base ∧ OnGrid c.d o.default

def BlockRep (c : Cfg) (b : Block) : Prop :=
  (∀ x ∈ activNums b.activation, OnGrid c.d x) ∧ ∀ r ∈ b.rules, HeightRep c r.weight

/-- every number (ranges, defaults, thresholds, term parameters, heights, weights) is on the `d`-decimal grid,
    heights and weights are 1 or outside the tolerance, names are identifiers -/
def Representable (c : Cfg) (e : Engine) : Prop :=
  (∀ v ∈ e.inputs, VarRep c v) ∧ (∀ o ∈ e.outputs, OutRep c o) ∧ (∀ b ∈ e.blocks, BlockRep c b)

end Spec.Fll
