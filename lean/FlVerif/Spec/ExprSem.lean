import FlVerif.Spec.Expr
import FlVerif.Spec.FloatLit
import Mathlib.Algebra.Order.Floor.Ring
import Mathlib.Data.Rat.Floor

/-! # Documented numeric meaning of the 47 elements of the formula language (C17)

Values are numbers of the special-value algebra `X α`, truth values (results of `and`, `or`, `!`:
`np.logical_and/or/not`), or `unk` — the result of a function this model leaves uninterpreted (the inverse
trigonometric / hyperbolic functions; their trees are still compared structurally and evaluated with NumPy by the
harness).  The relational functions `gt ge eq neq le lt` are 0/1-valued *numbers* (the reading of the property;
F7 of DESIGN.md section 7), `eq/neq/ge/le` treat two NaNs as equal (`np.isclose(..., equal_nan=True)`),
`min`/`max` are `np.minimum`/`np.maximum` (F6). -/

namespace Lang

inductive Val (α : Type) where
  | num (x : X α)
  | tv (b : Bool)
  | unk
deriving DecidableEq, Repr

section
variable {α : Type} [Field α] [LinearOrder α] [IsStrictOrderedRing α] [FloorRing α]

/-- NumPy truthiness of a float: non-zero (NaN and ±inf are true) -/
def Val.truthy : Val α → Option Bool
  | .num (.fin a) => some (decide (a ≠ 0))
  | .num _ => some true
  | .tv b => some b
  | .unk => none

/-- a truth value used as a number is 0/1 -/
def Val.toNum : Val α → Option (X α)
  | .num x => some x
  | .tv b => some (X.ofBool b)
  | .unk => none

def num1 (f : X α → X α) (v : Val α) : Val α :=
  match v.toNum with | some x => .num (f x) | none => .unk
def num2 (f : X α → X α → X α) (v w : Val α) : Val α :=
  match v.toNum, w.toNum with | some x, some y => .num (f x y) | _, _ => .unk
def log2v (f : Bool → Bool → Bool) (v w : Val α) : Val α :=
  match v.truthy, w.truthy with | some a, some b => .tv (f a b) | _, _ => .unk

def isInt (a : α) : Bool := decide ((Int.floor a : α) = a)
def isOddInt (a : α) : Bool := isInt a && decide (Int.floor a % 2 ≠ 0)

/-- `np.float_power(a, b)` for a finite exponent -/
def xpowFin (F : Fn α) (a : X α) (b : α) : X α :=
  if b = 0 then .fin 1 else
  match a with
  | .nan => .nan
  | .fin a =>
    if 0 < a then .fin (F.pow a b)
    else if a = 0 then (if 0 < b then .fin 0 else .pinf)
    else if isInt b then .fin ((if isOddInt b then -1 else 1) * F.pow (-a) b)
    else .nan
  | .pinf => if 0 < b then .pinf else .fin 0
  | .ninf => if 0 < b then (if isOddInt b then .ninf else .pinf) else .fin 0

/-- `np.float_power(a, b)` -/
def xpow (F : Fn α) (a b : X α) : X α :=
  match b with
  | .fin b => xpowFin F a b
  | .nan => (match a with | .fin a => if a = 1 then .fin 1 else .nan | _ => .nan)
  | .pinf =>
    (match a with
     | .nan => .nan
     | .fin a => if |a| = 1 then .fin 1 else if |a| < 1 then .fin 0 else .pinf
     | _ => .pinf)
  | .ninf =>
    (match a with
     | .nan => .nan
     | .fin a => if |a| = 1 then .fin 1 else if |a| < 1 then .pinf else .fin 0
     | _ => .fin 0)

/-- `np.remainder(a, b)` (Python `%`: result has the sign of the divisor) -/
def xmod : X α → X α → X α
  | .fin a, .fin b => if b = 0 then .nan else .fin (a - (Int.floor (a / b) : α) * b)
  | .fin a, .pinf => if 0 ≤ a then .fin a else .pinf
  | .fin a, .ninf => if a ≤ 0 then .fin a else .ninf
  | _, _ => .nan

/-- `np.fmod(a, b)` (C `fmod`: result has the sign of the dividend) -/
def xfmod : X α → X α → X α
  | .fin a, .fin b =>
      if b = 0 then .nan
      else
        let q := a / b
        let t : Int := if 0 ≤ q then Int.floor q else Int.ceil q
        .fin (a - (t : α) * b)
  | .fin a, .pinf | .fin a, .ninf => .fin a
  | _, _ => .nan

def xfloor : X α → X α
  | .fin a => .fin (Int.floor a : α) | x => x
def xceil : X α → X α
  | .fin a => .fin (Int.ceil a : α) | x => x
/-- `np.round`: to the nearest integer, ties to the even one -/
def xround : X α → X α
  | .fin a =>
      let f := Int.floor a
      let d := a - (f : α)
      if d < 1 / 2 then .fin (f : α)
      else if 1 / 2 < d then .fin ((f + 1 : Int) : α)
      else if f % 2 = 0 then .fin (f : α) else .fin ((f + 1 : Int) : α)
  | x => x

/-- `a == b` with NaNs equal (`np.isclose(a, b, rtol=0, atol=0, equal_nan=True)`) -/
def xeqNan (a b : X α) : Bool := X.eq a b || (a.isnan && b.isnan)

/-- `np.sin`, exact at 0 (where it decides `x ** sin(0) = 1`) -/
def xsin (F : Fn α) : X α → X α
  | .fin a => if a = 0 then .fin 0 else .fin (F.sin a)
  | _ => .nan
def xtan (F : Fn α) : X α → X α
  | .fin a => if a = 0 then .fin 0 else X.div (.fin (F.sin a)) (.fin (F.cos a))
  | _ => .nan
def xcosh (F : Fn α) : X α → X α
  | .fin a => .fin ((F.exp a + F.exp (-a)) / 2)
  | .nan => .nan | _ => .pinf
def xsinh (F : Fn α) : X α → X α
  | .fin a => .fin ((F.exp a - F.exp (-a)) / 2)
  | x => x
def xtanh (F : Fn α) : X α → X α
  | .fin a => .fin ((F.exp (2 * a) - 1) / (F.exp (2 * a) + 1))
  | .nan => .nan | .pinf => .fin 1 | .ninf => .fin (-1)
def xlog10 (F : Fn α) (x : X α) : X α :=
  match X.log F x with
  | .fin l => .fin (l / F.log 10)
  | y => y
def xlog1p (F : Fn α) (x : X α) : X α := X.log F (X.add x (.fin 1))

/-- elements of arity 0 -/
def sem0 (F : Fn α) (f : Elem) : Val α :=
  if f.name = "pi" then .num (.fin F.pi) else .unk

/-- elements of arity 1 -/
def sem1 (F : Fn α) (f : Elem) (v : Val α) : Val α :=
  match f.name with
  | "!" => (match v.truthy with | some b => .tv (!b) | none => .unk)
  | "~" => num1 X.neg v
  | ".-" => num1 X.neg v
  | ".+" => num1 id v
  | "abs" => num1 X.abs v
  | "fabs" => num1 X.abs v
  | "ceil" => num1 xceil v
  | "floor" => num1 xfloor v
  | "round" => num1 xround v
  | "exp" => num1 (X.exp F) v
  | "log" => num1 (X.log F) v
  | "log10" => num1 (xlog10 F) v
  | "log1p" => num1 (xlog1p F) v
  | "sqrt" => num1 (X.sqrt F) v
  | "cos" => num1 (X.cos F) v
  | "sin" => num1 (xsin F) v
  | "tan" => num1 (xtan F) v
  | "cosh" => num1 (xcosh F) v
  | "sinh" => num1 (xsinh F) v
  | "tanh" => num1 (xtanh F) v
  | _ => .unk

/-- elements of arity 2 -/
def sem2 (F : Fn α) (f : Elem) (v w : Val α) : Val α :=
  match f.name with
  | "+" => num2 X.add v w
  | "-" => num2 X.sub v w
  | "*" => num2 X.mul v w
  | "/" => num2 X.div v w
  | "%" => num2 xmod v w
  | "^" => num2 (xpow F) v w
  | "**" => num2 (xpow F) v w
  | "pow" => num2 (xpow F) v w
  | "fmod" => num2 xfmod v w
  | "and" => log2v (· && ·) v w
  | "or" => log2v (· || ·) v w
  | "gt" => num2 (fun a b => X.ofBool (X.lt b a)) v w
  | "lt" => num2 (fun a b => X.ofBool (X.lt a b)) v w
  | "ge" => num2 (fun a b => X.ofBool (X.le b a || xeqNan a b)) v w
  | "le" => num2 (fun a b => X.ofBool (X.le a b || xeqNan a b)) v w
  | "eq" => num2 (fun a b => X.ofBool (xeqNan a b)) v w
  | "neq" => num2 (fun a b => X.ofBool (!xeqNan a b)) v w
  | "min" => num2 X.npmin v w
  | "max" => num2 X.npmax v w
  | _ => .unk

/-- a number literal in the field of the model -/
def castX : X Rat → X α
  | .fin q => .fin (q : α) | .nan => .nan | .pinf => .pinf | .ninf => .ninf

/-- leaves: `float(token)` if it is the text of a number, otherwise the variable map -/
def semLeaf (env : String → Option (X α)) (s : String) : Option (Val α) :=
  match parseFloat s with
  | some x => some (.num (castX x))
  | none => (env s).map .num

end
end Lang
