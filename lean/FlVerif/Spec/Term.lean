import FlVerif.Base.X
import FlVerif.Op.Interp

/-! # Documented definitions of the linguistic shape terms (docstring equations of `fuzzylite/term.py`)

`Spec.Mu.<class>` is the "Note: Equation" block of the class, height included, written over an ordered field
(`Fn` for exp / sqrt / cos / pow).  `Spec.Term` bundles a class with its parameters, `Spec.Term.Valid` says which
parameterisations the documentation covers, `Spec.mu` dispatches, `Spec.tsukamoto` are the documented inverse
functions of the six monotonic classes.

Readings where a docstring is loose (each one is also exercised on the implementation by the correspondence):
* `Arc`: "clipped accordingly" = `0` before `start`, `h` beyond `end`; radius `r = end - start`, centre `c = end`.
* `SigmoidDifference`: the docstring writes `h (a - b)`, code (and fuzzylite C++) use `h |a - b|`; the absolute
  value is what keeps the value in `[0, h]`, so it is part of the definition here.
* `ZShape`: the docstring writes `1` for `x ≤ s`; every other piece (and the code) uses the height.
* `Bell`: `(|x - c| / w) ^ (2 s)` with the conventions `a ^ 0 = 1`, `0 ^ b = 0` for `b > 0` (those of `numpy.power`
  and of `Real.rpow`).
* `Rectangle`, `SemiEllipse`: the code orders `start`, `end` itself (`min` / `max`); so do the definitions here.
* Tsukamoto docstrings of `Concave` (`h (e - i) / y …`), `Sigmoid` (`i log …` for `i + log …`), `ZShape`
  (`e + …` for `e - …`) and `Arc` (`y r / h` for `(y r / h)²`) contain typos: the definitions below are the
  algebraic inverses of the documented membership equations. -/

namespace X
variable {α : Type} [Field α] [LinearOrder α] [IsStrictOrderedRing α]
/-- the number carried by `fin a` (`0` for the special values; only read under a guard that excludes them) -/
def val : X α → α | fin a => a | _ => 0
@[simp] theorem val_fin (a : α) : val (fin a) = a := rfl
end X

namespace Spec
variable {α : Type} [Field α] [LinearOrder α] [IsStrictOrderedRing α]

/-- `a ^ b` for `0 ≤ a`, `0 ≤ b` with the conventions of `numpy.power` / `Real.rpow` at the corners -/
def powNN (F : Fn α) (a b : α) : α := if b = 0 then 1 else if a = 0 then 0 else F.pow a b

namespace Mu

/-- `μ(x) = h √(r² − (x−c)²) / |r|`, `r = e − s`, `c = e`, clipped: `0` before the start, `h` beyond the end -/
def arc (F : Fn α) (s e h x : α) : α :=
  if (s ≤ x ∧ x ≤ e) ∨ (e ≤ x ∧ x ≤ s) then h * (F.sqrt ((e - s) ^ 2 - (x - e) ^ 2) / |e - s|)
  else if (s < e ∧ e < x) ∨ (e < s ∧ x < e) then h
  else 0

/-- `μ(x) = h / (1 + (|x−c| / w)^(2s))` -/
def bell (F : Fn α) (c w sl h x : α) : α := h / (1 + powNN F (|x - c| / w) (2 * sl))

/-- `μ(x) = h` if `(d = ∞ ∧ x ≥ s) ∨ (d = −∞ ∧ x ≤ s)`, `0` otherwise -/
def binary (s : α) (d : X α) (h x : α) : α :=
  if (d = .pinf ∧ s ≤ x) ∨ (d = .ninf ∧ x ≤ s) then h else 0

/-- `h (e−i)/(2e−i−x)` if `i ≤ e ∧ x < e`; `h (i−e)/(−2e+i+x)` if `i > e ∧ x > e`; `h` otherwise -/
def concave (i e h x : α) : α :=
  if i ≤ e ∧ x < e then h * ((e - i) / (2 * e - i - x))
  else if e < i ∧ e < x then h * ((i - e) / (-2 * e + i + x))
  else h

/-- `μ(x) = k` -/
def constant (k _x : α) : α := k

/-- `h/2 (1 + cos(2/w π (x−c)))` if `c − w/2 ≤ x ≤ c + w/2`, `0` otherwise -/
def cosine (F : Fn α) (c w h x : α) : α :=
  if c - w / 2 ≤ x ∧ x ≤ c + w / 2 then h / 2 * (1 + F.cos (2 / w * F.pi * (x - c))) else 0

/-- linear interpolation between the neighbouring points, clamped at both ends, times the height -/
def discrete (pts : List (α × α)) (h x : α) : α := h * Op.interp pts x

/-- `μ(x) = h exp(−(x−μ)² / (2σ²))` -/
def gaussian (F : Fn α) (m sd h x : α) : α := h * F.exp (-(x - m) ^ 2 / (2 * sd ^ 2))

/-- `a = Gaussian(μa,σa)(x)` if `x < μa` else `1`; `b = Gaussian(μb,σb)(x)` if `x > μb` else `1`; `μ(x) = h (a × b)` -/
def gaussianProduct (F : Fn α) (ma sa mb sb h x : α) : α :=
  h * ((if x < ma then gaussian F ma sa 1 x else 1) * (if mb < x then gaussian F mb sb 1 x else 1))

/-- `h (x−s)/(e−s)` if `s < x < e`; `h (s−x)/(s−e)` if `e < x < s`; `h` if `s < e ∧ x ≥ e` or `s > e ∧ x ≤ e`; else `0` -/
def ramp (s e h x : α) : α :=
  if s < x ∧ x < e then h * ((x - s) / (e - s))
  else if e < x ∧ x < s then h * ((s - x) / (s - e))
  else if s < e ∧ e ≤ x then h
  else if e < s ∧ x ≤ e then h
  else 0

/-- `h` if `s ≤ x ≤ e` (the two parameters in either order), `0` otherwise -/
def rectangle (s e h x : α) : α := if min s e ≤ x ∧ x ≤ max s e then h else 0

/-- `μ(x) = h √(r² − (x−c)²) / r` on `[s, e]` (either order), `r` the half width, `c` the midpoint; `0` outside -/
def semiEllipse (F : Fn α) (s e h x : α) : α :=
  if min s e ≤ x ∧ x ≤ max s e then
    h * (F.sqrt (((max s e - min s e) / 2) ^ 2 - (x - (min s e + max s e) / 2) ^ 2) / ((max s e - min s e) / 2))
  else 0

/-- `μ(x) = h / (1 + exp(−s (x−i)))` -/
def sigmoid (F : Fn α) (i sl h x : α) : α := h / (1 + F.exp (-sl * (x - i)))

/-- `a = Sigmoid(left, rising)`, `b = Sigmoid(right, falling)`, `μ(x) = h |a − b|` -/
def sigmoidDifference (F : Fn α) (l r f rt h x : α) : α := h * |sigmoid F l r 1 x - sigmoid F rt f 1 x|

/-- `μ(x) = h (a × b)` -/
def sigmoidProduct (F : Fn α) (l r f rt h x : α) : α := h * (sigmoid F l r 1 x * sigmoid F rt f 1 x)

/-- `μ(x) = h exp(−|10/w (x−c)|)` -/
def spike (F : Fn α) (c w h x : α) : α := h * F.exp (-|10 / w * (x - c)|)

/-- `0` if `x ≤ s`; `2h((x−s)/(e−s))²` if `s < x ≤ (s+e)/2`; `h − 2h((x−e)/(e−s))²` if `(s+e)/2 < x < e`; `h` otherwise -/
def sShape (s e h x : α) : α :=
  if x ≤ s then 0
  else if x ≤ (s + e) / 2 then 2 * h * ((x - s) / (e - s)) ^ 2
  else if x < e then h - 2 * h * ((x - e) / (e - s)) ^ 2
  else h

/-- `h` if `x ≤ s`; `h − 2h((x−s)/(e−s))²` if `s < x < (s+e)/2`; `2h((x−e)/(e−s))²` if `(s+e)/2 ≤ x < e`; `0` otherwise -/
def zShape (s e h x : α) : α :=
  if x ≤ s then h
  else if x < (s + e) / 2 then h - 2 * h * ((x - s) / (e - s)) ^ 2
  else if x < e then 2 * h * ((x - e) / (e - s)) ^ 2
  else 0

/-- `μ(x) = h (SShape(a,b)(x) × ZShape(c,d)(x))` -/
def piShape (a b c d h x : α) : α := h * (sShape a b 1 x * zShape c d 1 x)

/-- `0` if `x < a ∨ x > d`; `h` if `b ≤ x ≤ c ∨ (a = −∞ ∧ x < b) ∨ (d = ∞ ∧ x > c)`; `h (x−a)/(b−a)` if `a ≤ x < b`;
    `h (d−x)/(d−c)` if `c < x ≤ d` -/
def trapezoid (a : X α) (b c : α) (d : X α) (h x : α) : α :=
  if X.lt (.fin x) a || X.lt d (.fin x) then 0
  else if (b ≤ x ∧ x ≤ c) ∨ (a = .ninf ∧ x < b) ∨ (d = .pinf ∧ c < x) then h
  else if x < b then h * ((x - a.val) / (b - a.val))
  else h * ((d.val - x) / (d.val - c))

/-- `0` if `x < a ∨ x > c`; `h` if `x = b ∨ (a = −∞ ∧ x < b) ∨ (c = ∞ ∧ x > b)`; `h (x−a)/(b−a)` if `a ≤ x < b`;
    `h (c−x)/(c−b)` if `b < x ≤ c` -/
def triangle (a : X α) (b : α) (c : X α) (h x : α) : α :=
  if X.lt (.fin x) a || X.lt c (.fin x) then 0
  else if x = b ∨ (a = .ninf ∧ x < b) ∨ (c = .pinf ∧ b < x) then h
  else if x < b then h * ((x - a.val) / (b - a.val))
  else h * ((c.val - x) / (c.val - b))

end Mu

/-! ## documented Tsukamoto inverses -/
namespace Tsu
/-- `x = c ± √(r² − (y r / h)²)`, `−` for the increasing arc -/
def arc (F : Fn α) (s e h y : α) : α :=
  e + (if s < e then -1 else 1) * F.sqrt ((e - s) ^ 2 - (y * (e - s) / h) ^ 2)
/-- `x = h (i − e) / y + 2e − i` -/
def concave (i e h y : α) : α := h * (i - e) / y + 2 * e - i
/-- `x = s + (e − s) y / h` -/
def ramp (s e h y : α) : α := s + (e - s) * y / h
/-- `x = i + log(h/y − 1) / (−s)` -/
def sigmoid (F : Fn α) (i sl h y : α) : α := i + F.log (h / y - 1) / (-sl)
/-- `s + (e−s) √(y/2h)` if `y ≤ h/2`, `e − (e−s) √((h−y)/2h)` otherwise -/
def sShape (F : Fn α) (s e h y : α) : α :=
  if y ≤ h / 2 then s + (e - s) * F.sqrt (y / (2 * h)) else e - (e - s) * F.sqrt ((h - y) / (2 * h))
/-- `e − (e−s) √(y/2h)` if `y ≤ h/2`, `s + (e−s) √((h−y)/2h)` otherwise -/
def zShape (F : Fn α) (s e h y : α) : α :=
  if y ≤ h / 2 then e - (e - s) * F.sqrt (y / (2 * h)) else s + (e - s) * F.sqrt ((h - y) / (2 * h))
end Tsu

/-! ## terms as values -/

inductive Term (α : Type) where
  | arc (s e h : α)
  | bell (c w sl h : α)
  | binary (s : α) (d : X α) (h : α)
  | concave (i e h : α)
  | constant (k : α)
  | cosine (c w h : α)
  | discrete (pts : List (α × α)) (h : α)
  | gaussian (m sd h : α)
  | gaussianProduct (ma sa mb sb h : α)
  | piShape (a b c d h : α)
  | ramp (s e h : α)
  | rectangle (s e h : α)
  | semiEllipse (s e h : α)
  | sigmoid (i sl h : α)
  | sigmoidDifference (l r f rt h : α)
  | sigmoidProduct (l r f rt h : α)
  | spike (c w h : α)
  | sShape (s e h : α)
  | trapezoid (a : X α) (b c : α) (d : X α) (h : α)
  | triangle (a : X α) (b : α) (c : X α) (h : α)
  | zShape (s e h : α)

/-- left end of a shoulder: a number or `−∞` -/
def LeftEnd (a : X α) (b : α) : Prop := a = .ninf ∨ ∃ a', a = .fin a' ∧ a' ≤ b
/-- right end of a shoulder: a number or `+∞` -/
def RightEnd (c : α) (d : X α) : Prop := d = .pinf ∨ ∃ d', d = .fin d' ∧ c ≤ d'

/-- strictly increasing abscissae, ordinates in `[0,1]` -/
def DiscreteOk : List (α × α) → Prop
  | [] => False
  | [p] => 0 ≤ p.2 ∧ p.2 ≤ 1
  | p :: q :: rest => 0 ≤ p.2 ∧ p.2 ≤ 1 ∧ p.1 < q.1 ∧ DiscreteOk (q :: rest)

/-- `0 < h ≤ 1` -/
def HeightOk (h : α) : Prop := 0 < h ∧ h ≤ 1

namespace Term

def height : Term α → α
  | arc _ _ h | bell _ _ _ h | binary _ _ h | concave _ _ h | cosine _ _ h | discrete _ h | gaussian _ _ h
  | gaussianProduct _ _ _ _ h | piShape _ _ _ _ h | ramp _ _ h | rectangle _ _ h | semiEllipse _ _ h | sigmoid _ _ h
  | sigmoidDifference _ _ _ _ h | sigmoidProduct _ _ _ _ h | spike _ _ h | sShape _ _ h | trapezoid _ _ _ _ h
  | triangle _ _ _ h | zShape _ _ h => h
  | constant _ => 1

/-- the parameterisations the documentation covers (shape part; the height is `HeightOk`) -/
def ValidShape : Term α → Prop
  | arc s e _ => s ≠ e
  | bell _ w sl _ => 0 < w ∧ 0 ≤ sl
  | binary _ d _ => d = .pinf ∨ d = .ninf
  | concave i e _ => i ≠ e
  | constant _ => True
  | cosine _ w _ => 0 < w
  | discrete pts _ => DiscreteOk pts
  | gaussian _ sd _ => sd ≠ 0
  | gaussianProduct _ sa _ sb _ => sa ≠ 0 ∧ sb ≠ 0
  | piShape a b c d _ => a < b ∧ c < d
  | ramp s e _ => s ≠ e
  | rectangle _ _ _ => True
  | semiEllipse s e _ => s ≠ e
  | sigmoid _ sl _ => sl ≠ 0
  | sigmoidDifference _ r f _ _ => r ≠ 0 ∧ f ≠ 0
  | sigmoidProduct _ r f _ _ => r ≠ 0 ∧ f ≠ 0
  | spike _ w _ => w ≠ 0
  | sShape s e _ => s < e
  | trapezoid a b c d _ => LeftEnd a b ∧ b ≤ c ∧ RightEnd c d
  | triangle a b c _ => LeftEnd a b ∧ RightEnd b c
  | zShape s e _ => s < e

def Valid (t : Term α) : Prop := ValidShape t ∧ (match t with | constant _ => True | _ => HeightOk t.height)

/-- class name, as registered in the term factory -/
def cls : Term α → String
  | arc .. => "Arc" | bell .. => "Bell" | binary .. => "Binary" | concave .. => "Concave" | constant .. => "Constant"
  | cosine .. => "Cosine" | discrete .. => "Discrete" | gaussian .. => "Gaussian"
  | gaussianProduct .. => "GaussianProduct" | piShape .. => "PiShape" | ramp .. => "Ramp" | rectangle .. => "Rectangle"
  | semiEllipse .. => "SemiEllipse" | sigmoid .. => "Sigmoid" | sigmoidDifference .. => "SigmoidDifference"
  | sigmoidProduct .. => "SigmoidProduct" | spike .. => "Spike" | sShape .. => "SShape" | trapezoid .. => "Trapezoid"
  | triangle .. => "Triangle" | zShape .. => "ZShape"

/-- constructor parameters in signature order (what the driver command `(term Cls (params…) h x)` receives) -/
def params : Term α → List (X α)
  | arc s e _ => [.fin s, .fin e]
  | bell c w sl _ => [.fin c, .fin w, .fin sl]
  | binary s d _ => [.fin s, d]
  | concave i e _ => [.fin i, .fin e]
  | constant k => [.fin k]
  | cosine c w _ => [.fin c, .fin w]
  | discrete pts _ => pts.flatMap (fun p => [.fin p.1, .fin p.2])
  | gaussian m sd _ => [.fin m, .fin sd]
  | gaussianProduct ma sa mb sb _ => [.fin ma, .fin sa, .fin mb, .fin sb]
  | piShape a b c d _ => [.fin a, .fin b, .fin c, .fin d]
  | ramp s e _ => [.fin s, .fin e]
  | rectangle s e _ => [.fin s, .fin e]
  | semiEllipse s e _ => [.fin s, .fin e]
  | sigmoid i sl _ => [.fin i, .fin sl]
  | sigmoidDifference l r f rt _ => [.fin l, .fin r, .fin f, .fin rt]
  | sigmoidProduct l r f rt _ => [.fin l, .fin r, .fin f, .fin rt]
  | spike c w _ => [.fin c, .fin w]
  | sShape s e _ => [.fin s, .fin e]
  | trapezoid a b c d _ => [a, .fin b, .fin c, d]
  | triangle a b c _ => [a, .fin b, c]
  | zShape s e _ => [.fin s, .fin e]

end Term

/-- the documented membership function of a term -/
def mu (F : Fn α) : Term α → α → α
  | .arc s e h => Mu.arc F s e h
  | .bell c w sl h => Mu.bell F c w sl h
  | .binary s d h => Mu.binary s d h
  | .concave i e h => Mu.concave i e h
  | .constant k => Mu.constant k
  | .cosine c w h => Mu.cosine F c w h
  | .discrete pts h => Mu.discrete pts h
  | .gaussian m sd h => Mu.gaussian F m sd h
  | .gaussianProduct ma sa mb sb h => Mu.gaussianProduct F ma sa mb sb h
  | .piShape a b c d h => Mu.piShape a b c d h
  | .ramp s e h => Mu.ramp s e h
  | .rectangle s e h => Mu.rectangle s e h
  | .semiEllipse s e h => Mu.semiEllipse F s e h
  | .sigmoid i sl h => Mu.sigmoid F i sl h
  | .sigmoidDifference l r f rt h => Mu.sigmoidDifference F l r f rt h
  | .sigmoidProduct l r f rt h => Mu.sigmoidProduct F l r f rt h
  | .spike c w h => Mu.spike F c w h
  | .sShape s e h => Mu.sShape s e h
  | .trapezoid a b c d h => Mu.trapezoid a b c d h
  | .triangle a b c h => Mu.triangle a b c h
  | .zShape s e h => Mu.zShape s e h

/-- limit of a unit sigmoid with slope `sl ≠ 0` at `+∞` (`1 -` this at `−∞`) -/
def sigLim (sl : α) : α := if 0 < sl then 1 else 0

/-- the value the documentation assigns at `x = +∞` (the limit of the closed form) -/
def atPinf : Term α → α
  | .arc s e h => if s < e then h else 0
  | .bell _ _ sl h => if sl = 0 then h / 2 else 0
  | .binary _ d h => if d = .pinf then h else 0
  | .concave i e h => if i < e then h else 0
  | .constant k => k
  | .cosine .. => 0
  | .discrete pts h => h * Op.lastY 0 pts
  | .gaussian .. => 0
  | .gaussianProduct .. => 0
  | .piShape .. => 0
  | .ramp s e h => if s < e then h else 0
  | .rectangle .. => 0
  | .semiEllipse .. => 0
  | .sigmoid _ sl h => h * sigLim sl
  | .sigmoidDifference _ r f _ h => h * |sigLim r - sigLim f|
  | .sigmoidProduct _ r f _ h => h * (sigLim r * sigLim f)
  | .spike .. => 0
  | .sShape _ _ h => h
  | .trapezoid _ _ _ d h => if d = .pinf then h else 0
  | .triangle _ _ c h => if c = .pinf then h else 0
  | .zShape .. => 0

/-- the value the documentation assigns at `x = −∞` -/
def atNinf : Term α → α
  | .arc s e h => if s < e then 0 else h
  | .bell _ _ sl h => if sl = 0 then h / 2 else 0
  | .binary _ d h => if d = .ninf then h else 0
  | .concave i e h => if i < e then 0 else h
  | .constant k => k
  | .cosine .. => 0
  | .discrete pts h => h * Op.firstY pts
  | .gaussian .. => 0
  | .gaussianProduct .. => 0
  | .piShape .. => 0
  | .ramp s e h => if s < e then 0 else h
  | .rectangle .. => 0
  | .semiEllipse .. => 0
  | .sigmoid _ sl h => h * (1 - sigLim sl)
  | .sigmoidDifference _ r f _ h => h * |(1 - sigLim r) - (1 - sigLim f)|
  | .sigmoidProduct _ r f _ h => h * ((1 - sigLim r) * (1 - sigLim f))
  | .spike .. => 0
  | .sShape .. => 0
  | .trapezoid a _ _ _ h => if a = .ninf then h else 0
  | .triangle a _ _ h => if a = .ninf then h else 0
  | .zShape _ _ h => h

/-- the documented membership function on extended arguments: NaN exactly at NaN (`Constant` ignores its
    argument), the limits at `±∞`, the closed form elsewhere -/
def muX (F : Fn α) (t : Term α) : X α → X α
  | .fin x => .fin (mu F t x)
  | .pinf => .fin (atPinf t)
  | .ninf => .fin (atNinf t)
  | .nan => match t with | .constant k => .fin k | _ => .nan

/-- the classes that declare themselves monotonic (`is_monotonic()`) -/
def isMonotonic : Term α → Bool
  | .arc .. | .concave .. | .ramp .. | .sigmoid .. | .sShape .. | .zShape .. => true
  | _ => false

/-- the documented table, by class name -/
def isMonotonicTable : List (String × Bool) :=
  [("Arc", true), ("Bell", false), ("Binary", false), ("Concave", true), ("Cosine", false), ("Gaussian", false),
   ("GaussianProduct", false), ("PiShape", false), ("Ramp", true), ("Rectangle", false), ("SemiEllipse", false),
   ("Sigmoid", true), ("SigmoidDifference", false), ("SigmoidProduct", false), ("Spike", false), ("SShape", true),
   ("Trapezoid", false), ("Triangle", false), ("ZShape", true)]

/-- direction of a monotonic term: `true` = non-decreasing -/
def increasing : Term α → Bool
  | .arc s e _ => decide (s < e)
  | .concave i e _ => decide (i < e)
  | .ramp s e _ => decide (s < e)
  | .sigmoid _ sl _ => decide (0 < sl)
  | .sShape .. => true
  | _ => false

/-- the documented Tsukamoto value; `none` for the classes that are not monotonic -/
def tsukamoto (F : Fn α) : Term α → α → Option α
  | .arc s e h, y => some (Tsu.arc F s e h y)
  | .concave i e h, y => some (Tsu.concave i e h y)
  | .ramp s e h, y => some (Tsu.ramp s e h y)
  | .sigmoid i sl h, y => some (Tsu.sigmoid F i sl h y)
  | .sShape s e h, y => some (Tsu.sShape F s e h y)
  | .zShape s e h, y => some (Tsu.zShape F s e h y)
  | _, _ => none

end Spec
