import Mathlib.Algebra.Order.Field.Basic
import Mathlib.Algebra.Order.Field.Rat

/-! # Documented definitions of the T-norms and S-norms (docstring equations of `fuzzylite/norm.py`) -/

namespace Spec
variable {α : Type} [Field α] [LinearOrder α] [IsStrictOrderedRing α]

inductive TNorm | algebraicProduct | boundedDifference | drasticProduct | einsteinProduct
  | hamacherProduct | minimum | nilpotentMinimum
deriving DecidableEq, Repr

inductive SNorm | algebraicSum | boundedSum | drasticSum | einsteinSum
  | hamacherSum | maximum | nilpotentMaximum | normalizedSum | unboundedSum
deriving DecidableEq, Repr

def drastic (a b : α) : α := if max a b = 1 then min a b else 0

def tnorm : TNorm → α → α → α
  | .algebraicProduct, a, b => a * b
  | .boundedDifference, a, b => max 0 (a + b - 1)
  | .drasticProduct, a, b => drastic a b
  | .einsteinProduct, a, b => (a * b) / (2 - (a + b - a * b))
  | .hamacherProduct, a, b => if a + b ≠ 0 then (a * b) / (a + b - a * b) else 0
  | .minimum, a, b => min a b
  | .nilpotentMinimum, a, b => if a + b > 1 then min a b else 0

def snorm : SNorm → α → α → α
  | .algebraicSum, a, b => a + b - a * b
  | .boundedSum, a, b => min 1 (a + b)
  | .drasticSum, a, b => if min a b = 0 then max a b else 1
  | .einsteinSum, a, b => (a + b) / (1 + a * b)
  | .hamacherSum, a, b => if a * b ≠ 1 then (a + b - 2 * a * b) / (1 - a * b) else 1
  | .maximum, a, b => max a b
  | .nilpotentMaximum, a, b => if a + b < 1 then max a b else 1
  | .normalizedSum, a, b => (a + b) / max 1 (a + b)
  | .unboundedSum, a, b => a + b

def I (a : α) : Prop := 0 ≤ a ∧ a ≤ 1

/-- same-family pairs `S(a,b) = 1 - T(1-a, 1-b)` -/
def dual : SNorm → Option TNorm
  | .algebraicSum => some .algebraicProduct
  | .boundedSum => some .boundedDifference
  | .drasticSum => some .drasticProduct
  | .einsteinSum => some .einsteinProduct
  | .hamacherSum => some .hamacherProduct
  | .maximum => some .minimum
  | .nilpotentMaximum => some .nilpotentMinimum
  | _ => none

/-- class names as registered in the factories -/
def TNorm.ofName : String → Option TNorm
  | "AlgebraicProduct" => some .algebraicProduct | "BoundedDifference" => some .boundedDifference
  | "DrasticProduct" => some .drasticProduct | "EinsteinProduct" => some .einsteinProduct
  | "HamacherProduct" => some .hamacherProduct | "Minimum" => some .minimum
  | "NilpotentMinimum" => some .nilpotentMinimum | _ => none
def SNorm.ofName : String → Option SNorm
  | "AlgebraicSum" => some .algebraicSum | "BoundedSum" => some .boundedSum
  | "DrasticSum" => some .drasticSum | "EinsteinSum" => some .einsteinSum
  | "HamacherSum" => some .hamacherSum | "Maximum" => some .maximum
  | "NilpotentMaximum" => some .nilpotentMaximum | "NormalizedSum" => some .normalizedSum
  | "UnboundedSum" => some .unboundedSum | _ => none
def TNorm.all : List TNorm := [.algebraicProduct, .boundedDifference, .drasticProduct, .einsteinProduct,
  .hamacherProduct, .minimum, .nilpotentMinimum]
def SNorm.all : List SNorm := [.algebraicSum, .boundedSum, .drasticSum, .einsteinSum, .hamacherSum, .maximum,
  .nilpotentMaximum, .normalizedSum, .unboundedSum]

end Spec
