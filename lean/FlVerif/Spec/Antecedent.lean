import FlVerif.Spec.Expr
import FlVerif.Base.X

/-! # Rule antecedents as the rule grammar describes them (C06)

`variable is [hedge]* term`, `variable is [hedge]* any`, connected by `and` / `or`.  The denotation is the documented
one: a proposition is the term's membership of the variable's value (for an output variable the aggregated
activation degree of the term), hedges apply from the one nearest the term outwards, `any` yields 1 (the hedge `any`
applied to NaN), a disabled variable yields 0, `and` / `or` are the rule block's conjunction / disjunction. -/

namespace Lang

inductive Ante where
  | prop (v : String) (hs : List String) (t : String)     -- `v is h₁ … hₙ t`
  | anyP (v : String) (hs : List String)                   -- `v is h₁ … hₙ any`
  | conj (l r : Ante)
  | disj (l r : Ante)
deriving DecidableEq, Repr

/-- the words of a proposition -/
def Ante.propWords (v : String) (hs : List String) (last : String) : List String := [v, "is"] ++ hs ++ [last]

/-- `Antecedent.postfix()` as a token list -/
def Ante.pfx : Ante → List String
  | .prop v hs t => propWords v hs t
  | .anyP v hs => propWords v hs "any"
  | .conj l r => l.pfx ++ r.pfx ++ ["and"]
  | .disj l r => l.pfx ++ r.pfx ++ ["or"]

/-- `Antecedent.infix()`: no parentheses (the printer of the library drops them) -/
def Ante.infixWords : Ante → List String
  | .prop v hs t => propWords v hs t
  | .anyP v hs => propWords v hs "any"
  | .conj l r => l.infixWords ++ ["and"] ++ r.infixWords
  | .disj l r => l.infixWords ++ ["or"] ++ r.infixWords

/-- the antecedent as an expression tree over the element table: propositions are runs of plain words, the
    connectives are the table's `and` / `or` -/
def Ante.toExpr (eAnd eOr : Elem) : Ante → Expr
  | .prop v hs t => .words (propWords v hs t)
  | .anyP v hs => .words (propWords v hs "any")
  | .conj l r => .app2 eAnd (l.toExpr eAnd eOr) (r.toExpr eAnd eOr)
  | .disj l r => .app2 eOr (l.toExpr eAnd eOr) (r.toExpr eAnd eOr)

/-- what an antecedent is evaluated against -/
structure DegCtx (α : Type) where
  hasTerms : String → Bool                      -- truth value of the variable object: `len(variable.terms) != 0`
  enabled : String → Bool                       -- `variable.enabled`
  isOutput : String → Bool                      -- `OutputVariable` (else `InputVariable`)
  membership : String → String → X α            -- input variable, term ↦ `term.membership(variable.value)`
  outDegree : String → String → X α             -- output variable, term ↦ `variable.fuzzy.activation_degree(term)`
  hedge : String → X α → X α                    -- `Hedge.hedge` by name
  conj : Option (X α → X α → X α)               -- the rule block's conjunction (`None` if not set)
  disj : Option (X α → X α → X α)

variable {α : Type} [Field α] [LinearOrder α] [IsStrictOrderedRing α]

/-- value of the term of a proposition before hedges -/
def DegCtx.base (c : DegCtx α) (v t : String) : X α :=
  if c.isOutput v then c.outDegree v t else c.membership v t

/-- hedges apply from the one nearest the term outwards: `h₁ (h₂ (… (hₙ μ)))` -/
def applyHedges (c : DegCtx α) (hs : List String) (x : X α) : X α := hs.foldr (fun h acc => c.hedge h acc) x

/-- the documented value of an antecedent (`none`: a connective whose operator is not set) -/
def Ante.den (c : DegCtx α) : Ante → Option (X α)
  | .prop v hs t => some (if c.enabled v then applyHedges c hs (c.base v t) else .fin 0)
  | .anyP v hs => some (if c.enabled v then applyHedges c hs (c.hedge "any" .nan) else .fin 0)
  | .conj l r => match c.conj, l.den c, r.den c with
    | some f, some a, some b => some (f a b)
    | _, _, _ => none
  | .disj l r => match c.disj, l.den c, r.den c with
    | some f, some a, some b => some (f a b)
    | _, _, _ => none

end Lang
