import FlVerif.Base.X

/-! # Documented definitions of the hedges (docstring equations of `fuzzylite/hedge.py`) -/

namespace Spec
variable {α : Type} [Field α] [LinearOrder α] [IsStrictOrderedRing α]

inductive Hedge | any | extremely | not | seldom | somewhat | very
deriving DecidableEq, Repr

def hedge (F : Fn α) : Hedge → α → α
  | .any, _ => 1
  | .extremely, x => if x ≤ 1/2 then 2 * x ^ 2 else 1 - 2 * (1 - x) ^ 2
  | .not, x => 1 - x
  | .seldom, x => if x ≤ 1/2 then F.sqrt (x / 2) else 1 - F.sqrt ((1 - x) / 2)
  | .somewhat, x => F.sqrt x
  | .very, x => x ^ 2

def Hedge.ofName : String → Option Hedge
  | "any" => some .any | "extremely" => some .extremely | "not" => some .not
  | "seldom" => some .seldom | "somewhat" => some .somewhat | "very" => some .very | _ => none
def Hedge.all : List Hedge := [.any, .extremely, .not, .seldom, .somewhat, .very]

/-- unit interval -/
def U (a : α) : Prop := 0 ≤ a ∧ a ≤ 1

end Spec
