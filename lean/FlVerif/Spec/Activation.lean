import FlVerif.Base.X

/-! # Activation methods: which rules a rule block triggers  (C08, specification)

A rule as the activation methods see it, the seven methods with their parameters, and – as a user reads the
documentation – the list of rules each method *selects*, in the order they are triggered.

Readings fixed here (the model follows the code, the property does not say otherwise):
* First / Last / Highest / Lowest / Proportional select on the degree alone, so a **disabled** rule with a
  positive degree counts towards `n` (and towards the sum of Proportional) although `Rule.trigger` adds nothing
  for it;
* General selects every loaded rule, so a loaded, enabled rule with degree 0 contributes a zero-degree activation;
* `Rule.triggered` is `degree > 0` of an enabled selected rule.

Degrees are `X α` (NaN and ±inf included: a NaN degree is never `> 0`, but it does satisfy `!=`). -/

namespace Spec.Activation
variable {α : Type} [Field α] [LinearOrder α] [IsStrictOrderedRing α]

/-- a rule of the block: what `activate` reads (`loaded … degree`) and the two fields it writes -/
structure Rule (α : Type) where
  loaded : Bool          -- `rule.is_loaded()`
  enabled : Bool         -- `rule.enabled`
  vector : Bool          -- `np.size(activation degree) > 1` (a batch of inputs)
  degree : X α           -- `weight × antecedent degree`: what `rule.activate_with` computes (scalar case)
  actDegree : X α        -- field `Rule.activation_degree` (state; whatever an earlier activation left there)
  triggered : Bool       -- field `Rule.triggered` (state)

/-- `Threshold.Comparator` -/
inductive Comparator | lt | le | eq | ne | ge | gt
deriving DecidableEq, Repr

/-- `comparator.operator(degree, threshold)` with NumPy semantics (every comparison with NaN is false, `!=` true) -/
def Comparator.eval (c : Comparator) (d t : X α) : Bool :=
  match c with
  | .lt => X.lt d t | .le => X.le d t | .eq => X.eq d t | .ne => X.ne d t | .ge => X.le t d | .gt => X.lt t d

def Comparator.ofSymbol : String → Option Comparator
  | "<" => some .lt | "<=" => some .le | "==" => some .eq | "!=" => some .ne | ">=" => some .ge | ">" => some .gt
  | _ => none

def Comparator.ofName : String → Option Comparator
  | "LessThan" => some .lt | "LessThanOrEqualTo" => some .le | "EqualTo" => some .eq | "NotEqualTo" => some .ne
  | "GreaterThanOrEqualTo" => some .ge | "GreaterThan" => some .gt
  | _ => none

/-- the activation methods; a negative `rules` parameter behaves as 0 (`activated < rules` is never true) -/
inductive Method (α : Type)
  | general
  | first (n : Nat) (t : X α)
  | last (n : Nat) (t : X α)
  | highest (n : Nat)
  | lowest (n : Nat)
  | proportional
  | threshold (c : Comparator) (t : X α)

/-- result of activating a block: the rules with their new state, and the calls `consequent.modify(degree)`
    as (rule index, degree) in the order they happen – the contributions to the fuzzy outputs (C07 says what
    each call adds) -/
structure Outcome (α : Type) where
  rules : List (Rule α)
  fires : List (Nat × X α)

def enum {β : Type} : Nat → List β → List (Nat × β)
  | _, [] => []
  | i, x :: xs => (i, x) :: enum (i + 1) xs

/-! ## selection -/

/-- loaded with a positive degree -/
def positive (p : Nat × Rule α) : Bool := p.2.loaded && X.lt (.fin 0) p.2.degree
/-- First / Last: loaded, degree `> 0` and `≥ threshold` -/
def eligible (t : X α) (p : Nat × Rule α) : Bool := p.2.loaded && X.lt (.fin 0) p.2.degree && X.le t p.2.degree

/-- Highest: larger degree first, ties by insertion order -/
def betterHigh (p q : Nat × Rule α) : Bool :=
  X.lt q.2.degree p.2.degree || (X.eq p.2.degree q.2.degree && decide (p.1 < q.1))
/-- Lowest: smaller degree first, ties by insertion order -/
def betterLow (p q : Nat × Rule α) : Bool :=
  X.lt p.2.degree q.2.degree || (X.eq p.2.degree q.2.degree && decide (p.1 < q.1))

/-- stable insertion sort: `x` goes before the first element it beats -/
def insertBy {β : Type} (lt : β → β → Bool) (x : β) : List β → List β
  | [] => [x]
  | y :: ys => if lt x y then x :: y :: ys else y :: insertBy lt x ys
def sortBy {β : Type} (lt : β → β → Bool) (l : List β) : List β := l.foldr (insertBy lt) []

/-- Proportional: the sum of the positive degrees, accumulated in insertion order from 0.0 -/
def degreeSum (l : List (Nat × Rule α)) : X α := l.foldl (fun s p => X.add s p.2.degree) (.fin 0)

/-- the rules a method selects (with their index), in the order it triggers them -/
def selected (m : Method α) (rs : List (Rule α)) : List (Nat × Rule α) :=
  match m with
  | .general => (enum 0 rs).filter (·.2.loaded)
  | .first n t => ((enum 0 rs).filter (eligible t)).take n
  | .last n t => ((enum 0 rs).reverse.filter (eligible t)).take n
  | .highest n => (sortBy betterHigh ((enum 0 rs).filter positive)).take n
  | .lowest n => (sortBy betterLow ((enum 0 rs).filter positive)).take n
  | .proportional => (enum 0 rs).filter positive
  | .threshold c t => (enum 0 rs).filter (fun p => p.2.loaded && c.eval p.2.degree t)

/-- the degree a selected rule is triggered with: its own, except for Proportional (divided by the sum) -/
def stored (m : Method α) (rs : List (Rule α)) (r : Rule α) : X α :=
  match m with
  | .proportional => X.div r.degree (degreeSum ((enum 0 rs).filter positive))
  | _ => r.degree

/-! ## outcome -/

/-- `Rule.deactivate` -/
def reset (r : Rule α) : Rule α := { r with actDegree := .fin 0, triggered := false }

/-- state of a rule after the activation: an unloaded rule is only deactivated; a loaded one holds its degree
    `d` and is marked triggered iff it was selected, is enabled and `d > 0` -/
def settle (sel : Bool) (d : X α) (r : Rule α) : Rule α :=
  if r.loaded then { r with actDegree := d, triggered := sel && r.enabled && X.lt (.fin 0) d } else reset r

def isSelected (sel : List (Nat × Rule α)) (i : Nat) : Bool := sel.any (fun q => q.1 == i)

/-- given the selection: new rule states, and one contribution per selected **enabled** rule -/
def outcome (sel : List (Nat × Rule α)) (st : Rule α → X α) (rs : List (Rule α)) : Outcome α :=
  { rules := (enum 0 rs).map (fun p =>
      if isSelected sel p.1 then settle true (st p.2) p.2 else settle false p.2.degree p.2),
    fires := (sel.filter (·.2.enabled)).map (fun p => (p.1, st p.2)) }

/-- **the specification**: what activating a block of scalar rules does -/
def activate (m : Method α) (rs : List (Rule α)) : Outcome α := outcome (selected m rs) (stored m rs) rs

/-- no loaded rule carries a batch degree -/
def Scalar (rs : List (Rule α)) : Prop := ∀ r ∈ rs, r.loaded = true → r.vector = false

end Spec.Activation
