import FlVerif.Base.X

/-! # Text of a number as accepted by CPython's `float(text)` (ASCII part)

`[sign] (digits ["." [digits]] | "." digits) [("e"|"E") [sign] digits]` with single underscores between digits, or
`[sign] ("inf" | "infinity" | "nan")` in any letter case; surrounding whitespace is ignored.  The value is the exact
rational of the text (CPython rounds it to the nearest double; the correspondence compares within tolerance). -/

namespace Lang

def isDigit (c : Char) : Bool := '0' ≤ c && c ≤ '9'

/-- `digit (["_"] digit)*` → (value, number of digits) -/
def digitPart (cs : List Char) : Option (Nat × Nat) :=
  let rec go : List Char → Bool → Nat → Nat → Option (Nat × Nat)
    | [], lastDigit, v, n => if lastDigit then some (v, n) else none
    | c :: rest, lastDigit, v, n =>
      if isDigit c then go rest true (10 * v + (c.toNat - '0'.toNat)) (n + 1)
      else if c = '_' && lastDigit && !rest.isEmpty then go rest false v n
      else none
  match cs with
  | [] => none
  | c :: _ => if isDigit c then go cs false 0 0 else none

def splitAt1 (sep : Char) (cs : List Char) : List Char × Option (List Char) :=
  match cs.span (· != sep) with
  | (a, []) => (a, none)
  | (a, _ :: b) => (a, some b)

def stripSign (cs : List Char) : Bool × List Char :=
  match cs with
  | '-' :: r => (true, r)
  | '+' :: r => (false, r)
  | r => (false, r)

def pow10 (e : Int) : Rat := if e ≥ 0 then (10 : Rat) ^ e.toNat else 1 / (10 : Rat) ^ (-e).toNat

/-- `str.isspace` of one character = what `str.split()`, `str.strip()`, `float()` and the `\s` of `re` treat as white space
    (CPython 3.12: 29 code points) -/
def isSpace (c : Char) : Bool :=
  c = ' ' || c = '\t' || c = '\n' || c = '\r' || c = '\x0b' || c = '\x0c' ||
  c = '\x1c' || c = '\x1d' || c = '\x1e' || c = '\x1f' || c = '\u0085' || c = '\u00a0' || c = '\u1680' ||
  (decide ('\u2000' ≤ c) && decide (c ≤ '\u200a')) || c = '\u2028' || c = '\u2029' || c = '\u202f' || c = '\u205f' || c = '\u3000'

def parseFloatChars (cs0 : List Char) : Option (X Rat) :=
  let cs := ((cs0.dropWhile isSpace).reverse.dropWhile isSpace).reverse.map Char.toLower
  let (negative, body) := stripSign cs
  let sgn : Rat := if negative then -1 else 1
  if body = "inf".toList || body = "infinity".toList then some (if negative then .ninf else .pinf)
  else if body = "nan".toList then some .nan
  else
    let (mant, ex) := splitAt1 'e' body
    let exVal : Option Int :=
      match ex with
      | none => some 0
      | some e =>
        let (eneg, ebody) := stripSign e
        (digitPart ebody).map (fun p => if eneg then -(p.1 : Int) else (p.1 : Int))
    let (ip, fp) := splitAt1 '.' mant
    let mantVal : Option Rat :=
      match fp with
      | none => (digitPart ip).map (fun p => (p.1 : Rat))
      | some f =>
        let iv : Option Nat := if ip.isEmpty then some 0 else (digitPart ip).map (·.1)
        let fv : Option (Nat × Nat) := if f.isEmpty then some (0, 0) else digitPart f
        if ip.isEmpty && f.isEmpty then none
        else match iv, fv with
          | some i, some (fr, n) => some ((i : Rat) + (fr : Rat) / (10 : Rat) ^ n)
          | _, _ => none
    match mantVal, exVal with
    | some m, some e => some (.fin (sgn * m * pow10 e))
    | _, _ => none

/-- `float(text)`: `none` = `ValueError` -/
def parseFloat (s : String) : Option (X Rat) := parseFloatChars s.toList

end Lang
