/-! # The documented inference pipeline as a wiring of state transformers

`S` is the state of the fuzzy outputs, `D` the type of activation degrees.  A rule evaluates its degree against the
current state (`weight × antecedent`; an antecedent over an output variable reads the contributions accumulated so
far) and, when enabled, adds its conclusions.  `none` = an exception.  Core Lean. -/

namespace Spec.Pipeline
variable {S D : Type}

structure ARule (S D : Type) where
  enabled : Bool
  loaded : Bool
  deg : S → Option D             -- `Rule.activate_with`
  concl : D → S → Option S       -- `Consequent.modify` for the enabled output variables

structure ABlock (S D : Type) where
  enabled : Bool
  rules : List (ARule S D)

/-- `General.activate`: every loaded rule in insertion order is evaluated against the state so far; every enabled one
    contributes -/
def rules : List (ARule S D) → S → Option S
  | [], s => some s
  | r :: rs, s =>
    if r.loaded then
      match r.deg s with
      | none => none
      | some d => if r.enabled then (match r.concl d s with | none => none | some s' => rules rs s') else rules rs s
    else rules rs s

/-- the sequential activation methods (General, First, Last, Threshold): rules are visited in order, each degree is
    evaluated against the state so far, `sel degree count` decides whether the rule is selected (`count` = number of
    rules selected before it; `none` = the comparison raises), a selected rule triggers (contributing only when enabled)
    and counts -/
def rulesSel (sel : D → Nat → Option Bool) : List (ARule S D) → Nat → S → Option S
  | [], _, s => some s
  | r :: rs, c, s =>
    if r.loaded then
      match r.deg s with
      | none => none
      | some d =>
        match sel d c with
        | none => none
        | some true =>
          if r.enabled then (match r.concl d s with | none => none | some s' => rulesSel sel rs (c + 1) s')
          else rulesSel sel rs (c + 1) s
        | some false => rulesSel sel rs c s
    else rulesSel sel rs c s

/-- enabled rule blocks in order -/
def blocks : List (ABlock S D) → S → Option S
  | [], s => some s
  | b :: bs, s => if b.enabled then (match rules b.rules s with | none => none | some s' => blocks bs s') else blocks bs s

/-- `Engine.process` up to defuzzification: the fuzzy outputs are cleared first (`clear`), whatever they held -/
def process (clear : S → S) (bs : List (ABlock S D)) (stale : S) : Option S := blocks bs (clear stale)

end Spec.Pipeline
