/-! # What a triggered rule contributes  (C07, specification)

A consequent is `variable is [hedge]* term [and variable is [hedge]* term]*`.  The property: every conclusion
whose output variable is enabled contributes exactly one activated term to that variable's fuzzy output – the
concluded term, the block's implication operator, and the rule's activation degree modified **only by that
conclusion's own hedges** (innermost = last written hedge first) and then sanitised by the `Activated.degree`
setter.  Conclusions are independent of each other.

Generic in the degree type `V` (the driver uses `X ℚ`, batches are element-wise), the hedge functions, the
sanitiser and the type `I` of implication operators.  Core Lean only. -/

namespace Spec.Consequent

/-- a loaded conclusion `variable is h₁ … hₖ term` -/
structure Concl (V : Type) where
  var : String
  enabled : Bool              -- `proposition.variable.enabled`
  hedges : List (V → V)       -- in text order h₁ … hₖ
  term : String

/-- one `Activated(term, degree, implication)` appended to `var.fuzzy.terms` -/
structure Act (V I : Type) where
  var : String
  term : String
  degree : V
  impl : I

/-- `h₁ (h₂ (… hₖ d))`: the hedge next to the term applies first -/
def applyHedges {V : Type} (hs : List (V → V)) (d : V) : V := hs.foldr (fun h acc => h acc) d

/-- the contribution of one conclusion, a function of the rule's degree and of this conclusion alone -/
def contribution {V I : Type} (san : V → V) (d : V) (impl : I) (c : Concl V) : Act V I :=
  { var := c.var, term := c.term, degree := san (applyHedges c.hedges d), impl := impl }

/-- the property: one contribution per conclusion on an enabled variable, in the order of the text -/
def contrib {V I : Type} (san : V → V) (d : V) (impl : I) (cs : List (Concl V)) : List (Act V I) :=
  (cs.filter (·.enabled)).map (contribution san d impl)

/-- `Rule.trigger`: a disabled rule contributes nothing and is not marked triggered; an enabled one contributes
    `contrib` and is marked triggered iff its degree is positive -/
def trigger {V I : Type} (san : V → V) (pos : V → Bool) (ruleEnabled : Bool) (d : V) (impl : I)
    (cs : List (Concl V)) : Bool × List (Act V I) :=
  if ruleEnabled then (pos d, contrib san d impl cs) else (false, [])

end Spec.Consequent
