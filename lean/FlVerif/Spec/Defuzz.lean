import FlVerif.Base.X

/-! # Documented definitions of the defuzzifiers (C09 integral, C10 weighted)

A *sampled fuzzy set* is a list of pairs `(x, μ x)`: sample point and membership value.  Results are `X α`
values: `nan` is the documented "no result" (all memberships zero / no activation / zero total weight). -/

namespace Spec
variable {α : Type} [Field α] [LinearOrder α] [IsStrictOrderedRing α]

/-! ## C09 — integral defuzzifiers -/

/-- the `r` midpoints of `r` equal cells of `[lo, hi]` -/
def midpoints (lo hi : α) (r : Nat) : List α :=
  (List.range r).map (fun (i : Nat) => lo + ((i : α) + 1 / 2) * ((hi - lo) / r))

/-- the fuzzy set `μ` over `[lo, hi]` sampled at the `r` midpoints -/
def sample (μ : α → α) (lo hi : α) (r : Nat) : List (α × α) :=
  (midpoints lo hi r).map (fun x => (x, μ x))

def sumY (ps : List (α × α)) : α := (ps.map Prod.snd).sum
def sumXY (ps : List (α × α)) : α := (ps.map (fun p => p.1 * p.2)).sum

/-- mean of a list of points; `nan` for no point -/
def mean (l : List α) : X α := if l.length = 0 then .nan else .fin (l.sum / (l.length : α))
/-- smallest / largest of a list of points; `nan` for no point -/
def smallest : List α → X α
  | [] => .nan
  | x :: xs => .fin (xs.foldl min x)
def largest : List α → X α
  | [] => .nan
  | x :: xs => .fin (xs.foldl max x)

/-- Centroid: `Σ x·μ(x) / Σ μ(x)` -/
def centroid (ps : List (α × α)) : X α :=
  if sumY ps = 0 then .nan else .fin (sumXY ps / sumY ps)

/-- the sample points where the membership attains its positive maximum -/
def maxPoints (ps : List (α × α)) : List α :=
  (ps.filter (fun p => decide (0 < p.2) && ps.all (fun q => decide (q.2 ≤ p.2)))).map Prod.fst

def som (ps : List (α × α)) : X α := smallest (maxPoints ps)
def mom (ps : List (α × α)) : X α := mean (maxPoints ps)
def lom (ps : List (α × α)) : X α := largest (maxPoints ps)

/-- cumulative membership up to and including each sample point -/
def cums : List α → List α
  | [] => []
  | y :: ys => y :: (cums ys).map (y + ·)

/-- how far the cumulative membership at each sample point is from one half of the total -/
def scores (ps : List (α × α)) : List α :=
  (cums (ps.map Prod.snd)).map (fun c => |c / sumY ps - 1 / 2|)

/-- the sample points that best halve the cumulative membership (all tied points) -/
def bisectorPoints (ps : List (α × α)) : List α :=
  (((ps.map Prod.fst).zip (scores ps)).filter
      (fun xs => (scores ps).all (fun s => decide (xs.2 ≤ s)))).map Prod.fst

/-- Bisector: the mean of the tied best-halving points; `nan` when the total membership is zero -/
def bisector (ps : List (α × α)) : X α :=
  if sumY ps = 0 then .nan else mean (bisectorPoints ps)

/-! ## C10 — weighted defuzzifiers -/

/-- Activations `(payload, degree)` grouped by a key of the payload: keys in first-occurrence order; a group keeps
    the first payload with that key and combines, in order, the degrees of all activations with that key
    (`init d₀`, then `c · dᵢ` for every later one). -/
def grouped {τ κ δ : Type} [DecidableEq κ] (key : τ → κ) (init : δ → δ) (c : δ → δ → δ) :
    List (τ × δ) → List (τ × δ)
  | [] => []
  | a :: rest =>
      (a.1, ((rest.filter (fun b => key b.1 = key a.1)).map Prod.snd).foldl c (init a.2))
        :: grouped key init c (rest.filter (fun b => key b.1 ≠ key a.1))
termination_by l => l.length
decreasing_by
  simp only [List.length_cons]
  simp
  exact Nat.lt_succ_of_le (le_trans (List.length_filter_le _ _) (by simp))

/-! A *weighted value* is a pair `(w, z)`: aggregated activation degree of a group and the value of its term at `w`. -/

def sumW (gs : List (α × α)) : α := (gs.map Prod.fst).sum
def sumWZ (gs : List (α × α)) : α := (gs.map (fun g => g.1 * g.2)).sum

/-- `Σ w·z / Σ w`; `nan` when there is no group or the weights sum to zero -/
def weightedAverage (gs : List (α × α)) : X α :=
  if gs.length = 0 ∨ sumW gs = 0 then .nan else .fin (sumWZ gs / sumW gs)

/-- `Σ w·z`, and `nan` in the same cases as the average -/
def weightedSum (gs : List (α × α)) : X α :=
  if gs.length = 0 ∨ sumW gs = 0 then .nan else .fin (sumWZ gs)

end Spec
