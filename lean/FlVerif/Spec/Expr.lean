/-! # Expression trees of the formula language (C17, shared by C06 / C16)

`Function.parse` reads a formula with the element table of `FunctionFactory` (regenerated as
`Gen.Tables.elements`): every element has a name, a kind (operator / function), an arity, a precedence and an
associativity (`-1` left, `+1` right).  This file is the documented side: trees, their postfix form, and the
relation `Prints e ts` = "`ts` is a way to write `e` in infix notation with at least the parentheses that
precedence and associativity require, and any number of redundant ones".  Core Lean only. -/

namespace Lang

/-- error classes of the Python side (`SyntaxError`, `ValueError`, `KeyError`/`LookupError`, `RuntimeError`) -/
inductive ErrKind where
  | syntax | value | lookup | runtime
deriving DecidableEq, Repr

def ErrKind.str : ErrKind → String
  | .syntax => "syntax" | .value => "value" | .lookup => "lookup" | .runtime => "runtime"

/-- one row of `FunctionFactory.objects` -/
structure Elem where
  name : String
  isOp : Bool
  arity : Nat
  prec : Nat
  assoc : Int
deriving DecidableEq, Repr

/-- the shape of `Gen.Tables.elements` -/
abbrev Table := List (String × Bool × Nat × Nat × Int)

def Elem.ofRow (r : String × Bool × Nat × Nat × Int) : Elem := ⟨r.1, r.2.1, r.2.2.1, r.2.2.2.1, r.2.2.2.2⟩

/-- `factory.objects.get(token)` -/
def Table.lookup (tbl : Table) (s : String) : Option Elem :=
  match tbl with
  | [] => none
  | r :: rest => if r.1 = s then some (Elem.ofRow r) else Table.lookup rest s

/-- tokens after classification by the table -/
inductive Tok where
  | operand (s : String)
  | el (e : Elem)
  | comma | lp | rp
deriving DecidableEq, Repr

def Tok.str : Tok → String
  | .operand s => s
  | .el e => e.name
  | .comma => ","
  | .lp => "("
  | .rp => ")"

/-- `element = factory.objects.get(token); is_operand = not element and token not in {"(", ")", ","}` -/
def classify (tbl : Table) (s : String) : Tok :=
  match tbl.lookup s with
  | some e => .el e
  | none => if s = "(" then .lp else if s = ")" then .rp else if s = "," then .comma else .operand s

/-- expression trees: a leaf is a number or a variable name (decided by `float(token)` when it is evaluated),
    `app1`/`app2` are prefix / infix operators when `f.isOp` and calls `f(x)`, `f(l, r)` otherwise, `app0` is a
    constant such as `pi`.  `words` does not occur in formulas (`Expr.Over` excludes it); it stands for the
    propositions of rule antecedents, which go through the same infix-to-postfix loop. -/
inductive Expr where
  | leaf (s : String)
  | words (ws : List String)     -- a run of plain words (a proposition `v is h* t` of a rule antecedent, C06)
  | app0 (f : Elem)
  | app1 (f : Elem) (x : Expr)
  | app2 (f : Elem) (l r : Expr)
deriving DecidableEq, Repr

/-- `Function.Node.postfix()` as a token list -/
def Expr.pfx : Expr → List Tok
  | .leaf s => [.operand s]
  | .words ws => ws.map .operand
  | .app0 f => [.el f]
  | .app1 f x => x.pfx ++ [.el f]
  | .app2 f l r => l.pfx ++ r.pfx ++ [.el f]

/-- level of an operator when it is the incoming token: `2·precedence (+1 when right-associative)` -/
def Elem.L (o : Elem) : Nat := 2 * o.prec + (if o.assoc > 0 then 1 else 0)
/-- level of an element that is waiting on the stack -/
def Elem.R (o : Elem) : Nat := 2 * o.prec

/-- the node kinds are used consistently: constants are functions, operators have an associativity -/
def Expr.Shape : Expr → Prop
  | .leaf _ => True
  | .words _ => True
  | .app0 f => f.isOp = false
  | .app1 f x => (f.isOp = true → f.assoc ≠ 0) ∧ x.Shape
  | .app2 f l r => (f.isOp = true → f.assoc ≠ 0) ∧ l.Shape ∧ r.Shape

/-- `Pr a b e ts`: `ts` is a writing of `e` in a context where
    * an operator read at the top level of `e` must have level `L ≥ a` (otherwise it would take over what is waiting
      to its left), and
    * an operator that `e` leaves waiting at its right end must have level `R ≥ b` (otherwise the operator that
      follows `e` would not apply to all of `e`);
    a sub-expression that does not satisfy its context has to be parenthesised (`paren` resets the context), and any
    sub-expression may be parenthesised. -/
inductive Pr : Nat → Nat → Expr → List Tok → Prop where
  | leaf (a b : Nat) (s : String) : Pr a b (.leaf s) [.operand s]
  | words (a b : Nat) (ws : List String) : Pr a b (.words ws) (ws.map .operand)
  | const (a b : Nat) (f : Elem) : f.isOp = false → b ≤ f.R → Pr a b (.app0 f) [.el f]
  | un (a b : Nat) (u : Elem) (x : Expr) (ts : List Tok) : u.isOp = true → a ≤ u.L → b ≤ u.R →
      Pr (u.R + 1) b x ts → Pr a b (.app1 u x) (.el u :: ts)
  | bin (a b : Nat) (o : Elem) (l r : Expr) (tl tr : List Tok) : o.isOp = true → a ≤ o.L → b ≤ o.R →
      Pr a o.L l tl → Pr (o.R + 1) b r tr → Pr a b (.app2 o l r) (tl ++ .el o :: tr)
  | call1 (a b : Nat) (f : Elem) (x : Expr) (ts : List Tok) : f.isOp = false →
      Pr 0 0 x ts → Pr a b (.app1 f x) (.el f :: .lp :: ts ++ [.rp])
  | call2 (a b : Nat) (f : Elem) (l r : Expr) (tl tr : List Tok) : f.isOp = false →
      Pr 0 0 l tl → Pr 0 0 r tr → Pr a b (.app2 f l r) (.el f :: .lp :: tl ++ .comma :: tr ++ [.rp])
  | paren (a b : Nat) (e : Expr) (ts : List Tok) : Pr 0 0 e ts → Pr a b e (.lp :: ts ++ [.rp])

/-- the writings of a whole formula -/
def Prints (e : Expr) (ts : List Tok) : Prop := Pr 0 0 e ts

/-- the printer with exactly the parentheses that are needed -/
def Expr.prMin (a b : Nat) : Expr → List Tok
  | .leaf s => [.operand s]
  | .words ws => ws.map .operand
  | .app0 f => if f.R < b then [.lp, .el f, .rp] else [.el f]
  | .app1 f x =>
    if f.isOp then
      if f.L < a ∨ f.R < b then .lp :: .el f :: x.prMin (f.R + 1) 0 ++ [.rp]
      else .el f :: x.prMin (f.R + 1) b
    else .el f :: .lp :: x.prMin 0 0 ++ [.rp]
  | .app2 f l r =>
    if f.isOp then
      if f.L < a ∨ f.R < b then .lp :: (l.prMin 0 f.L ++ .el f :: r.prMin (f.R + 1) 0) ++ [.rp]
      else l.prMin a f.L ++ .el f :: r.prMin (f.R + 1) b
    else .el f :: .lp :: l.prMin 0 0 ++ .comma :: r.prMin 0 0 ++ [.rp]

/-- the printer that parenthesises every operator application -/
def Expr.prFull : Expr → List Tok
  | .leaf s => [.operand s]
  | .words ws => ws.map .operand
  | .app0 f => [.lp, .el f, .rp]
  | .app1 f x =>
    if f.isOp then .lp :: .el f :: x.prFull ++ [.rp]
    else .el f :: .lp :: x.prFull ++ [.rp]
  | .app2 f l r =>
    if f.isOp then .lp :: (l.prFull ++ .el f :: r.prFull) ++ [.rp]
    else .el f :: .lp :: l.prFull ++ .comma :: r.prFull ++ [.rp]

/-- every element of the tree is the table's element of that name with the arity of its node, and leaves are
    plain words (not element names, not punctuation); formula trees: no `words` -/
def Expr.Over (tbl : Table) : Expr → Prop
  | .leaf s => classify tbl s = .operand s
  | .words _ => False
  | .app0 f => tbl.lookup f.name = some f ∧ f.arity = 0
  | .app1 f x => tbl.lookup f.name = some f ∧ f.arity = 1 ∧ x.Over tbl
  | .app2 f l r => tbl.lookup f.name = some f ∧ f.arity = 2 ∧ l.Over tbl ∧ r.Over tbl

/-- the same, with runs of plain words allowed (rule antecedents) -/
def Expr.OverW (tbl : Table) : Expr → Prop
  | .leaf s => classify tbl s = .operand s
  | .words ws => ∀ w ∈ ws, classify tbl w = .operand w
  | .app0 f => tbl.lookup f.name = some f ∧ f.arity = 0
  | .app1 f x => tbl.lookup f.name = some f ∧ f.arity = 1 ∧ x.OverW tbl
  | .app2 f l r => tbl.lookup f.name = some f ∧ f.arity = 2 ∧ l.OverW tbl ∧ r.OverW tbl

theorem Expr.Over.toW {tbl : Table} : ∀ {e : Expr}, e.Over tbl → e.OverW tbl
  | .leaf _, h => h
  | .words _, h => h.elim
  | .app0 _, h => h
  | .app1 _ _, h => ⟨h.1, h.2.1, Expr.Over.toW h.2.2⟩
  | .app2 _ _ _, h => ⟨h.1, h.2.1, Expr.Over.toW h.2.2.1, Expr.Over.toW h.2.2.2⟩

instance Expr.decOver (tbl : Table) : (e : Expr) → Decidable (e.Over tbl)
  | .leaf s => by unfold Expr.Over; infer_instance
  | .words _ => by unfold Expr.Over; infer_instance
  | .app0 f => by unfold Expr.Over; infer_instance
  | .app1 f x => by
    unfold Expr.Over
    have := Expr.decOver tbl x
    infer_instance
  | .app2 f l r => by
    unfold Expr.Over
    have := Expr.decOver tbl l
    have := Expr.decOver tbl r
    infer_instance

/-- what the theorems need of a table: operators are left- or right-associative, arity-0 elements are functions,
    the punctuation is not an element name, and no element takes more than two operands -/
def Table.WellFormed (tbl : Table) : Prop :=
  (∀ r ∈ tbl, r.2.1 = true → r.2.2.2.2 ≠ 0) ∧ (∀ r ∈ tbl, r.2.2.1 = 0 → r.2.1 = false) ∧
  tbl.lookup "(" = none ∧ tbl.lookup ")" = none ∧ tbl.lookup "," = none ∧ (∀ r ∈ tbl, r.2.2.1 ≤ 2)

instance (tbl : Table) : Decidable tbl.WellFormed := by unfold Table.WellFormed; infer_instance

end Lang

namespace Lang
/-- precedence / associativity / arity / kind of a named element (0 when the name is not registered) -/
def Table.prec (tbl : Table) (s : String) : Nat := ((tbl.lookup s).map (·.prec)).getD 0
def Table.assoc (tbl : Table) (s : String) : Int := ((tbl.lookup s).map (·.assoc)).getD 0
def Table.arity (tbl : Table) (s : String) : Nat := ((tbl.lookup s).map (·.arity)).getD 0
def Table.isOperator (tbl : Table) (s : String) : Bool := ((tbl.lookup s).map (·.isOp)).getD false
def Table.operators (tbl : Table) : List String := (tbl.filter (·.2.1)).map (·.1)
def Table.functions (tbl : Table) : List String := (tbl.filter (!·.2.1)).map (·.1)
end Lang

namespace Lang
/-- the registered element of that name (a dummy function when the name is not registered) -/
def Table.get (tbl : Table) (s : String) : Elem := (tbl.lookup s).getD ⟨s, false, 0, 0, 0⟩
end Lang
