#!/bin/bash
# Build the framework offline from files on disk: regenerate the Gen modules from /repo, compile the Lean library.
set -e
cd "$(dirname "$0")"
mkdir -p work evidence replays
export PYTHONPATH="${FV_REPO:-/repo}${PYTHONPATH:+:$PYTHONPATH}"
/venv/bin/python fv/tracer.py lean/FlVerif/Gen work/tracer_status.json
cd lean
lake build FlVerif 2>&1 | grep -v "^warning\|^  \|^$\|^Note\|^Hint\|linter" | tail -40
lake build FlVerif > /dev/null 2>&1
echo "setup ok"
