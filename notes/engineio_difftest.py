"""Differential run of the models of Op/EngineIO.lean and the NumPy externals of Op/PyExtEngineIO.lean against the real
Python (run: PYTHONPATH=/repo /venv/bin/python notes/engineio_difftest.py in a scratch directory, then
`cd lean && lake env lean <scratch>/Diff.lean > out.txt` and compare out.txt line by line with expected.json).
3684 evaluations, 0 mismatches on 2026-09-30."""
import random, itertools, math, subprocess, sys, json
import numpy as np
import fuzzylite as fl
rng = random.Random(7)

def lx(x):
    if isinstance(x, float) and math.isnan(x): return "X.nan"
    return f"(X.fin ({int(x)} : Rat))"
def lval(v):
    if isinstance(v, float): return f"(VarValue.scalar {lx(v)})"
    return "(VarValue.vector [" + ", ".join(lx(float(x)) for x in v) + "])"
def pyshow(a):
    def sx(x): return "nan" if math.isnan(x) else str(int(x))
    a = np.asarray(a)
    if a.ndim == 0: return "s:" + sx(float(a))
    if a.ndim == 1: return "v:[" + ", ".join(sx(x) for x in a) + "]"
    if a.ndim == 2: return f"m:{a.shape[1]}:[" + ", ".join("[" + ", ".join(sx(x) for x in r) + "]" for r in a) + "]"
    return "h:" + str(list(a.shape))
def run(f):
    try:
        return pyshow(f())
    except Exception as ex:
        return "E:" + {"ValueError": "value", "IndexError": "lookup", "RuntimeError": "runtime"}.get(type(ex).__name__, type(ex).__name__)
def genval():
    r = rng.random()
    if r < 0.35: return rng.choice([float("nan"), 1.0, 2.0])
    n = rng.choice([0, 1, 1, 2, 2, 3])
    return np.array([rng.choice([float("nan"), 1.0, 2.0, 3.0]) for _ in range(n)])
cases, expected = [], []
for _ in range(400):
    ni, no = rng.choice([0, 1, 2, 3]), rng.choice([0, 1, 2, 3])
    iv, ov = [genval() for _ in range(ni)], [genval() for _ in range(no)]
    if rng.random() < 0.5 and (iv + ov):
        # a consistent batch: n rows or single row
        n = rng.choice([1, 2, 3])
        def fit(v):
            if isinstance(v, float) or rng.random() < 0.3: return v
            return np.array([rng.choice([1.0, 2.0, float("nan")]) for _ in range(n)])
        iv, ov = [fit(v) for v in iv], [fit(v) for v in ov]
    e = fl.Engine("e", input_variables=[fl.InputVariable(f"i{k}") for k in range(ni)], output_variables=[fl.OutputVariable(f"o{k}") for k in range(no)])
    for var, v in zip(e.input_variables + e.output_variables, iv + ov):
        var.value = v
    LI = "[" + ", ".join(lval(v) for v in iv) + "]"
    LO = "[" + ", ".join(lval(v) for v in ov) + "]"
    cases.append(f"#eval IO.println (showR (inputValues (α := Rat) {LI}))"); expected.append(run(lambda: e.input_values))
    cases.append(f"#eval IO.println (showR (outputValues (α := Rat) {LI} {LO}))"); expected.append(run(lambda: e.output_values))
    cases.append(f"#eval IO.println (showR (allValues (α := Rat) {LI} {LO}))"); expected.append(run(lambda: e.values))
    # externals directly
    tup = tuple(iv)
    cases.append(f"#eval IO.println (showM (Py.EIO.npArray {LI}))"); expected.append(run(lambda: np.array(tup, dtype=float) if False else np.array(tup)))
    cases.append(f"#eval IO.println (showM (Py.EIO.columnStack {LI}))"); expected.append(run(lambda: np.column_stack(tup)))
    cases.append(f"#eval IO.println (showML (Py.EIO.broadcastArrays {LO}))")
    try:
        r = np.broadcast_arrays(*ov); expected.append("[" + ", ".join(pyshow(x) for x in r) + "]")
    except ValueError: expected.append("E:value")
# look-ups
names = ["a", "b", "c"]
def lk(k): return f"(Key.index ({k}))" if isinstance(k, int) else f'(Key.name "{k}")'
for _ in range(300):
    ins = [rng.choice(names) for _ in range(rng.choice([0, 1, 2, 3]))]
    outs = [rng.choice(names) for _ in range(rng.choice([0, 1, 2, 3]))]
    bls = [rng.choice(names) for _ in range(rng.choice([0, 1, 2]))]
    e = fl.Engine("e", input_variables=[fl.InputVariable(n, minimum=float(j)) for j, n in enumerate(ins)],
                  output_variables=[fl.OutputVariable(n, minimum=float(10 + j)) for j, n in enumerate(outs)],
                  rule_blocks=[fl.RuleBlock(n, description=str(20 + j)) for j, n in enumerate(bls)])
    k = rng.choice(list(range(-4, 5)) + names + ["z"])
    L = lambda l, off: "[" + ", ".join(f'("{n}", {off + j})' for j, n in enumerate(l)) + "]"
    def tag(f):
        try:
            c = f()
            if isinstance(c, fl.RuleBlock): return f"({c.name}, {c.description})"
            return f"({c.name}, {int(c.minimum)})"
        except Exception as ex:
            return "E:" + {"ValueError": "value", "IndexError": "lookup"}.get(type(ex).__name__, type(ex).__name__)
    P = "(fun (p : String × Nat) => p.1)"
    cases.append(f"#eval IO.println (showL (lookup {P} {L(ins, 0)} {lk(k)}))"); expected.append(tag(lambda: e.input_variable(k)))
    cases.append(f"#eval IO.println (showL (lookup {P} {L(outs, 10)} {lk(k)}))"); expected.append(tag(lambda: e.output_variable(k)))
    cases.append(f"#eval IO.println (showL (lookup {P} {L(bls, 20)} {lk(k)}))"); expected.append(tag(lambda: e.rule_block(k)))
    if isinstance(k, str):
        cases.append(f"#eval IO.println (showL (lookupVariable {P} {L(ins, 0)} {L(outs, 10)} \"{k}\"))"); expected.append(tag(lambda: e.variable(k)))
    # getItem on the same name lists: first success of the three
    cases.append(f"#eval IO.println (showL (get3 {L(ins, 0)} {L(outs, 10)} {L(bls, 20)} {lk(k)}))"); expected.append(tag(lambda: e[k]))
hdr = '''import FlVerif.Op.PyExtEngineIO
open Op.Engine
def showX : X Rat → String | .nan => "nan" | .pinf => "inf" | .ninf => "-inf" | .fin q => toString q
def showNd : NdArr Rat → String
  | .scalar x => "s:" ++ showX x | .vector v => "v:" ++ toString (v.map showX)
  | .matrix c rows => "m:" ++ toString c ++ ":" ++ toString (rows.map (·.map showX)) | .higher s _ => "h:" ++ toString s
def showV : VarValue Rat → String | .scalar x => "s:" ++ showX x | .vector v => "v:" ++ toString (v.map showX)
def showR : Except Lang.ErrKind (NdArr Rat) → String | .ok a => showNd a | .error e => "E:" ++ e.str
def showE : Py.Err → String | .value => "value" | .lookup => "lookup" | .runtime => "runtime" | _ => "other"
def showM : Py.M (NdArr Rat) → String | .ok a => showNd a | .error e => "E:" ++ showE e
def showML : Py.M (List (VarValue Rat)) → String | .ok a => toString (a.map showV) | .error e => "E:" ++ showE e
def showL : Except Lang.ErrKind (String × Nat) → String | .ok a => "(" ++ a.1 ++ ", " ++ toString a.2 ++ ")" | .error e => "E:" ++ e.str
/-- `getItem` on plain (name, tag) components: the same cascade as `Op.Engine.getItem` -/
def get3 (i o b : List (String × Nat)) (k : Key) : Except Lang.ErrKind (String × Nat) :=
  match lookup (·.1) i k with
  | .ok v => .ok v
  | .error _ => match lookup (·.1) o k with
    | .ok v => .ok v
    | .error _ => match lookup (·.1) b k with
      | .ok v => .ok v
      | .error _ => .error .value
'''
open("Diff.lean", "w").write(hdr + "\n".join(cases) + "\n")
json.dump(expected, open("expected.json", "w"))
print(len(cases))
