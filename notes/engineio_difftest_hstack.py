"""Shapes of `Py.EIO.hstack` against `np.hstack` for arrays of 0 to 4 dimensions (same procedure as
engineio_difftest.py; 300 cases, 0 mismatches on 2026-09-30)."""
import random, json, numpy as np
rng = random.Random(3)
def gen():
    nd = rng.choice([0,1,2,3,3,4])
    shape = tuple(rng.choice([0,1,2,3]) for _ in range(nd))
    return np.ones(shape)
def lean(a):
    if a.ndim==0: return "(NdArr.scalar (X.fin 1))"
    if a.ndim==1: return "(NdArr.vector (List.replicate %d (X.fin 1)))"%a.shape[0]
    if a.ndim==2: return "(NdArr.matrix %d (List.replicate %d (List.replicate %d (X.fin 1))))"%(a.shape[1],a.shape[0],a.shape[1])
    return "(NdArr.higher %s (by decide))"%list(a.shape)
cases=[];exp=[]
for _ in range(300):
    a,b=gen(),gen()
    if rng.random()<0.5 and a.ndim>=2:
        s=list(a.shape); s[1]=rng.choice([0,1,2]); b=np.ones(tuple(s))
    cases.append(f"#eval IO.println (shp (Py.EIO.hstack {lean(a)} {lean(b)}))")
    try: exp.append(str(list(np.hstack((a,b)).shape)))
    except ValueError: exp.append("E")
hdr='''import FlVerif.Op.PyExtEngineIO
open Op.Engine
def shp : Py.M (NdArr Rat) → String
  | .ok (.scalar _) => "[]" | .ok (.vector v) => toString [v.length] | .ok (.matrix c r) => toString [r.length, c]
  | .ok (.higher s _) => toString s | .error _ => "E"
'''
open("Diff2.lean","w").write(hdr+"\n".join(cases)+"\n"); json.dump(exp,open("exp2.json","w"))
