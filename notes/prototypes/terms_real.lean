import Mathlib.Analysis.SpecialFunctions.Log.Basic
import Mathlib.Analysis.SpecialFunctions.Pow.Real
import Mathlib.Analysis.SpecialFunctions.Trigonometric.Basic
import Mathlib.Analysis.SpecialFunctions.Sqrt
import Mathlib.Analysis.SpecialFunctions.Exp

/-! Feasibility prototype for C03 (analytic terms over ℝ): ranges and monotonicity. -/

noncomputable section
open Real

def bell (c w s h x : ℝ) : ℝ := h * (1 / (1 + |(x - c) / w| ^ (2 * s)))
def cosine (c w h x : ℝ) : ℝ := if c - w / 2 ≤ x ∧ x ≤ c + w / 2 then h * (0.5 * (1 + Real.cos (2 / w * π * (x - c)))) else 0
def gaussian (m sd h x : ℝ) : ℝ := h * Real.exp (-(x - m) ^ 2 / (2 * sd ^ 2))
def spike (c w h x : ℝ) : ℝ := h * Real.exp (-|10 / w * (x - c)|)
def semiEllipse (s e h x : ℝ) : ℝ :=
  if s ≤ x ∧ x ≤ e then h * (√(((e - s) / 2) ^ 2 - (x - (s + (e - s) / 2)) ^ 2) / ((e - s) / 2)) else 0
/-- increasing arc (s < e): quarter circle centred at e -/
def arcInc (s e h x : ℝ) : ℝ := if x < s then 0 else if x ≤ e then h * (√((e - s) ^ 2 - (x - e) ^ 2) / |e - s|) else h

theorem bell_range (c w s h x : ℝ) (hh : 0 ≤ h) : 0 ≤ bell c w s h x ∧ bell c w s h x ≤ h := by
  unfold bell
  have hp : 0 ≤ |(x - c) / w| ^ (2 * s) := Real.rpow_nonneg (abs_nonneg _) _
  have hd : 0 < 1 + |(x - c) / w| ^ (2 * s) := by linarith
  constructor
  · positivity
  · have : 1 / (1 + |(x - c) / w| ^ (2 * s)) ≤ 1 := by
      rw [div_le_one hd]; linarith
    nlinarith

theorem bell_center (c w s h : ℝ) (hw : w ≠ 0) (hs : 0 < s) : bell c w s h c = h := by
  unfold bell
  have : |(c - c) / w| ^ (2 * s) = 0 := by
    rw [sub_self, zero_div, abs_zero, Real.zero_rpow (by positivity)]
  rw [this]; ring

theorem cosine_range (c w h x : ℝ) (hh : 0 ≤ h) : 0 ≤ cosine c w h x ∧ cosine c w h x ≤ h := by
  unfold cosine
  split_ifs
  · have h1 := Real.neg_one_le_cos (2 / w * π * (x - c))
    have h2 := Real.cos_le_one (2 / w * π * (x - c))
    constructor
    · have : 0 ≤ 0.5 * (1 + Real.cos (2 / w * π * (x - c))) := by nlinarith
      positivity
    · nlinarith
  · exact ⟨le_refl _, hh⟩

theorem gaussian_range (m sd h x : ℝ) (hh : 0 ≤ h) : 0 ≤ gaussian m sd h x ∧ gaussian m sd h x ≤ h := by
  unfold gaussian
  have hpos := Real.exp_pos (-(x - m) ^ 2 / (2 * sd ^ 2))
  have hle : Real.exp (-(x - m) ^ 2 / (2 * sd ^ 2)) ≤ 1 := by
    rw [Real.exp_le_one_iff]
    apply div_nonpos_of_nonpos_of_nonneg
    · nlinarith [sq_nonneg (x - m)]
    · positivity
  constructor
  · positivity
  · nlinarith

theorem gaussian_mean (m sd h : ℝ) : gaussian m sd h m = h := by
  unfold gaussian; simp

theorem spike_range (c w h x : ℝ) (hh : 0 ≤ h) : 0 ≤ spike c w h x ∧ spike c w h x ≤ h := by
  unfold spike
  have hpos := Real.exp_pos (-|10 / w * (x - c)|)
  have hle : Real.exp (-|10 / w * (x - c)|) ≤ 1 := by
    rw [Real.exp_le_one_iff]; linarith [abs_nonneg (10 / w * (x - c))]
  constructor
  · positivity
  · nlinarith

theorem semiEllipse_range (s e h x : ℝ) (hse : s < e) (hh : 0 ≤ h) :
    0 ≤ semiEllipse s e h x ∧ semiEllipse s e h x ≤ h := by
  unfold semiEllipse
  split_ifs with hx
  · have hr : 0 < (e - s) / 2 := by linarith
    have hsq : √(((e - s) / 2) ^ 2 - (x - (s + (e - s) / 2)) ^ 2) ≤ (e - s) / 2 := by
      rw [Real.sqrt_le_left hr.le]
      nlinarith [sq_nonneg (x - (s + (e - s) / 2))]
    have hnn := Real.sqrt_nonneg (((e - s) / 2) ^ 2 - (x - (s + (e - s) / 2)) ^ 2)
    have hdiv : √(((e - s) / 2) ^ 2 - (x - (s + (e - s) / 2)) ^ 2) / ((e - s) / 2) ≤ 1 := by
      rw [div_le_one hr]; exact hsq
    constructor
    · positivity
    · nlinarith [div_nonneg hnn hr.le]
  · exact ⟨le_refl _, hh⟩

/-- the arc is monotone (the term declares itself monotonic) -/
theorem arcInc_mono (s e h : ℝ) (hse : s < e) (hh : 0 ≤ h) : Monotone (arcInc s e h) := by
  intro x y hxy
  unfold arcInc
  have hr : 0 < |e - s| := abs_pos.2 (by linarith)
  have key : ∀ u, s ≤ u → u ≤ e → 0 ≤ h * (√((e - s) ^ 2 - (u - e) ^ 2) / |e - s|) ∧
      h * (√((e - s) ^ 2 - (u - e) ^ 2) / |e - s|) ≤ h := by
    intro u hu1 hu2
    have hnn := Real.sqrt_nonneg ((e - s) ^ 2 - (u - e) ^ 2)
    have hle : √((e - s) ^ 2 - (u - e) ^ 2) ≤ |e - s| := by
      rw [Real.sqrt_le_left hr.le, sq_abs]; nlinarith [sq_nonneg (u - e)]
    have : √((e - s) ^ 2 - (u - e) ^ 2) / |e - s| ≤ 1 := by rw [div_le_one hr]; exact hle
    exact ⟨by positivity, by nlinarith [div_nonneg hnn hr.le]⟩
  by_cases hx1 : x < s
  · simp only [hx1, if_true]
    by_cases hy1 : y < s
    · simp [hy1]
    · simp only [hy1, if_false]
      split_ifs with hy2
      · exact (key y (not_lt.1 hy1) hy2).1
      · exact hh
  · have hy1 : ¬ y < s := by intro h'; exact hx1 (lt_of_le_of_lt hxy h')
    simp only [hx1, hy1, if_false]
    by_cases hy2 : y ≤ e
    · have hx2 : x ≤ e := le_trans hxy hy2
      simp only [hx2, hy2, if_true]
      apply mul_le_mul_of_nonneg_left _ hh
      apply div_le_div_of_nonneg_right _ hr.le
      apply Real.sqrt_le_sqrt
      have : (y - e) ^ 2 ≤ (x - e) ^ 2 := by nlinarith
      linarith
    · simp only [hy2, if_false]
      split_ifs with hx2
      · exact (key x (not_lt.1 hx1) hx2).2
      · exact le_refl _

#print axioms bell_range
#print axioms arcInc_mono
#print axioms semiEllipse_range
end
