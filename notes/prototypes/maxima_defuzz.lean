import Mathlib.Algebra.Order.Field.Basic
import Mathlib.Algebra.Order.Field.Rat
import Mathlib.Tactic.Ring
import Mathlib.Tactic.Linarith
import Mathlib.Tactic.Positivity

/-! Feasibility prototype for C09: smallest / mean / largest of maximum on the sampled set. -/

variable {α : Type} [Field α] [LinearOrder α] [IsStrictOrderedRing α]

/-- sample points where the membership attains its positive maximum (`(y > 0) & (y == y.max())`) -/
def maxPoints (ps : List (α × α)) : List α :=
  match (ps.map Prod.snd).max? with
  | none => []
  | some m => if 0 < m then (ps.filter (fun p => p.2 = m)).map Prod.fst else []

def lmin : List α → Option α
  | [] => none
  | x :: xs => some (xs.foldl min x)
def lmax : List α → Option α
  | [] => none
  | x :: xs => some (xs.foldl max x)
def lsum : List α → α
  | [] => 0
  | x :: xs => x + lsum xs
def lmean : List α → Option α
  | [] => none
  | xs => some (lsum xs / xs.length)

def som (ps : List (α × α)) := lmin (maxPoints ps)
def mom (ps : List (α × α)) := lmean (maxPoints ps)
def lom (ps : List (α × α)) := lmax (maxPoints ps)

theorem foldl_min_le (xs : List α) (a : α) : xs.foldl min a ≤ a ∧ ∀ x ∈ xs, xs.foldl min a ≤ x := by
  induction xs generalizing a with
  | nil => simp
  | cons y ys ih =>
    simp only [List.foldl]
    obtain ⟨h1, h2⟩ := ih (min a y)
    refine ⟨le_trans h1 (min_le_left _ _), ?_⟩
    intro x hx
    rcases List.mem_cons.1 hx with rfl | hx
    · exact le_trans h1 (min_le_right _ _)
    · exact h2 x hx

theorem le_foldl_max (xs : List α) (a : α) : a ≤ xs.foldl max a ∧ ∀ x ∈ xs, x ≤ xs.foldl max a := by
  induction xs generalizing a with
  | nil => simp
  | cons y ys ih =>
    simp only [List.foldl]
    obtain ⟨h1, h2⟩ := ih (max a y)
    refine ⟨le_trans (le_max_left _ _) h1, ?_⟩
    intro x hx
    rcases List.mem_cons.1 hx with rfl | hx
    · exact le_trans (le_max_right _ _) h1
    · exact h2 x hx

theorem lsum_bounds (xs : List α) (lo hi : α) (h : ∀ x ∈ xs, lo ≤ x ∧ x ≤ hi) :
    lo * xs.length ≤ lsum xs ∧ lsum xs ≤ hi * xs.length := by
  induction xs with
  | nil => simp [lsum]
  | cons x xs ih =>
    have hx := h x (by simp)
    have ih' := ih (fun y hy => h y (by simp [hy]))
    simp only [lsum, List.length_cons, Nat.cast_add, Nat.cast_one]
    constructor <;> nlinarith

/-- C09 `som_le_mom_le_lom`, for any number of sample points -/
theorem som_le_mom_le_lom (ps : List (α × α)) (s m l : α)
    (hs : som ps = some s) (hm : mom ps = some m) (hl : lom ps = some l) : s ≤ m ∧ m ≤ l := by
  unfold som mom lom at *
  cases hpts : maxPoints ps with
  | nil => rw [hpts] at hs; cases hs
  | cons x xs =>
    rw [hpts] at hs hm hl
    simp only [lmin, lmax, lmean, Option.some.injEq] at hs hm hl
    subst hs hm hl
    have hmin := foldl_min_le xs x
    have hmax := le_foldl_max xs x
    have hb := lsum_bounds (x :: xs) (xs.foldl min x) (xs.foldl max x) (by
      intro y hy
      rcases List.mem_cons.1 hy with rfl | hy
      · exact ⟨hmin.1, hmax.1⟩
      · exact ⟨hmin.2 y hy, hmax.2 y hy⟩)
    have hpos : (0 : α) < ((x :: xs).length : α) := by simp only [List.length_cons]; positivity
    constructor
    · rw [le_div_iff₀ hpos]; exact hb.1
    · rw [div_le_iff₀ hpos]; exact hb.2

#print axioms som_le_mom_le_lom
#eval (som [((1:ℚ), (1:ℚ)/2), (2, 1), (3, 1), (4, 1/4)], mom [((1:ℚ), (1:ℚ)/2), (2, 1), (3, 1), (4, 1/4)], lom [((1:ℚ), (1:ℚ)/2), (2, 1), (3, 1), (4, 1/4)])
