import Mathlib.Analysis.SpecialFunctions.Sqrt
import Mathlib.Analysis.SpecialFunctions.Pow.Real
import Mathlib.Tactic.Ring
import Mathlib.Tactic.Linarith
import Mathlib.Tactic.FieldSimp
import Mathlib.Tactic.Positivity

/-! Feasibility prototype for C11: `membership (tsukamoto y) = y` for Ramp, Concave, SShape, ZShape, Arc
    (documented closed forms, increasing direction; ℝ). -/

noncomputable section
open Real

/-! Ramp (s < e) -/
def ramp (s e h x : ℝ) : ℝ := if x ≤ s then 0 else if x < e then h * ((x - s) / (e - s)) else h
def rampInv (s e h y : ℝ) : ℝ := s + (e - s) * y / h

theorem ramp_inv (s e h y : ℝ) (hse : s < e) (hy : 0 < y) (hyh : y < h) : ramp s e h (rampInv s e h y) = y := by
  have hh : 0 < h := lt_trans hy hyh
  have hd : 0 < e - s := sub_pos.2 hse
  have hq : 0 < y / h := div_pos hy hh
  have hq1 : y / h < 1 := (div_lt_one hh).2 hyh
  have hx : rampInv s e h y = s + (e - s) * (y / h) := by unfold rampInv; ring
  have h1 : ¬ rampInv s e h y ≤ s := by rw [hx]; nlinarith
  have h2 : rampInv s e h y < e := by rw [hx]; nlinarith
  unfold ramp; rw [if_neg h1, if_pos h2, hx]; field_simp; ring

/-! Concave, increasing (i < e) -/
def concave (i e h x : ℝ) : ℝ := if x < e then h * ((e - i) / (2 * e - i - x)) else h
def concaveInv (i e h y : ℝ) : ℝ := h * (i - e) / y + 2 * e - i

theorem concave_inv (i e h y : ℝ) (hie : i < e) (hy : 0 < y) (hyh : y < h) :
    concave i e h (concaveInv i e h y) = y := by
  have hh : 0 < h := lt_trans hy hyh
  have hd : 0 < e - i := sub_pos.2 hie
  have hlt : concaveInv i e h y < e := by
    unfold concaveInv
    have : h * (i - e) / y < i - e := by
      rw [div_lt_iff₀ hy]; nlinarith
    linarith
  unfold concave; rw [if_pos hlt]; unfold concaveInv
  have : 2 * e - i - (h * (i - e) / y + 2 * e - i) = h * (e - i) / y := by field_simp; ring
  rw [this]; field_simp

/-! SShape (s < e) -/
def sshape (s e h x : ℝ) : ℝ :=
  if x ≤ s then 0 else if x ≤ (s + e) / 2 then 2 * h * ((x - s) / (e - s)) ^ 2
  else if x < e then h - 2 * h * ((x - e) / (e - s)) ^ 2 else h
def sshapeInv (s e h y : ℝ) : ℝ := if y ≤ h / 2 then s + (e - s) * √(y / (2 * h)) else e - (e - s) * √((h - y) / (2 * h))

theorem sqrt_quarter : √((1:ℝ) / 4) = 1 / 2 := by
  rw [show (1:ℝ) / 4 = (1 / 2) ^ 2 by norm_num]; exact Real.sqrt_sq (by norm_num)

theorem sshape_inv (s e h y : ℝ) (hse : s < e) (hy : 0 < y) (hyh : y < h) :
    sshape s e h (sshapeInv s e h y) = y := by
  have hh : 0 < h := lt_trans hy hyh
  have hd : 0 < e - s := sub_pos.2 hse
  unfold sshapeInv
  by_cases hb : y ≤ h / 2
  · rw [if_pos hb]
    set r := √(y / (2 * h)) with hr
    have hr0 : 0 < r := Real.sqrt_pos.2 (by positivity)
    have hr2 : r ^ 2 = y / (2 * h) := Real.sq_sqrt (by positivity)
    have hrle : r ≤ 1 / 2 := by
      rw [← sqrt_quarter]; apply Real.sqrt_le_sqrt
      rw [div_le_iff₀ (by positivity)]; linarith
    have h1 : ¬ s + (e - s) * r ≤ s := by nlinarith
    have h2 : s + (e - s) * r ≤ (s + e) / 2 := by nlinarith
    unfold sshape; rw [if_neg h1, if_pos h2]
    have : (s + (e - s) * r - s) / (e - s) = r := by field_simp; ring
    rw [this, hr2]; field_simp
  · rw [if_neg hb]
    have hb' : h / 2 < y := not_le.1 hb
    set r := √((h - y) / (2 * h)) with hr
    have hr0 : 0 < r := Real.sqrt_pos.2 (by apply div_pos <;> linarith)
    have hr2 : r ^ 2 = (h - y) / (2 * h) := Real.sq_sqrt (by apply div_nonneg <;> linarith)
    have hrlt : r < 1 / 2 := by
      rw [← sqrt_quarter]; apply Real.sqrt_lt_sqrt (by apply div_nonneg <;> linarith)
      rw [div_lt_iff₀ (by positivity)]; linarith
    have h1 : ¬ e - (e - s) * r ≤ s := by nlinarith
    have h2 : ¬ e - (e - s) * r ≤ (s + e) / 2 := by nlinarith
    have h3 : e - (e - s) * r < e := by nlinarith
    unfold sshape; rw [if_neg h1, if_neg h2, if_pos h3]
    have : (e - (e - s) * r - e) / (e - s) = -r := by field_simp; ring
    rw [this, neg_sq, hr2]; field_simp; ring

/-! Arc, increasing (s < e): quarter circle centred at e -/
def arc (s e h x : ℝ) : ℝ := if x < s then 0 else if x ≤ e then h * (√((e - s) ^ 2 - (x - e) ^ 2) / |e - s|) else h
def arcInv (s e h y : ℝ) : ℝ := e - √((e - s) ^ 2 - (y * (e - s) / h) ^ 2)

theorem arc_inv (s e h y : ℝ) (hse : s < e) (hy : 0 < y) (hyh : y < h) : arc s e h (arcInv s e h y) = y := by
  have hh : 0 < h := lt_trans hy hyh
  have hd : 0 < e - s := sub_pos.2 hse
  have hq : 0 < y / h := div_pos hy hh
  have hq1 : y / h < 1 := (div_lt_one hh).2 hyh
  have hrad : (e - s) ^ 2 - (y * (e - s) / h) ^ 2 = (e - s) ^ 2 * (1 - (y / h) ^ 2) := by field_simp
  have hnn : 0 ≤ (e - s) ^ 2 - (y * (e - s) / h) ^ 2 := by
    rw [hrad]; apply mul_nonneg (sq_nonneg _); nlinarith
  set r := √((e - s) ^ 2 - (y * (e - s) / h) ^ 2) with hr
  have hr0 : 0 ≤ r := Real.sqrt_nonneg _
  have hr2 : r ^ 2 = (e - s) ^ 2 - (y * (e - s) / h) ^ 2 := Real.sq_sqrt hnn
  have hrle : r ≤ e - s := by
    rw [hr, Real.sqrt_le_left hd.le]; nlinarith [sq_nonneg (y * (e - s) / h)]
  have h1 : ¬ e - r < s := by linarith
  have h2 : e - r ≤ e := by linarith
  unfold arc arcInv; rw [← hr, if_neg h1, if_pos h2]
  have e1 : (e - s) ^ 2 - (e - r - e) ^ 2 = (y * (e - s) / h) ^ 2 := by
    have : (e - r - e) ^ 2 = r ^ 2 := by ring
    rw [this, hr2]; ring
  rw [e1, Real.sqrt_sq (by positivity), abs_of_pos hd]; field_simp

#print axioms ramp_inv
#print axioms concave_inv
#print axioms sshape_inv
#print axioms arc_inv
end
