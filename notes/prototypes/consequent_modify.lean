/-! Feasibility prototype for C07: `Consequent.modify`.
    `modifyPinned` threads the hedged degree through the loop exactly as the pinned code does;
    `modifyFixed` uses a per-conclusion local; `Spec.contrib` is the property.  Core Lean. -/

variable {V : Type}

structure Concl (V : Type) where
  var : Nat
  enabled : Bool
  hedges : List (V → V)      -- in text order; applied from the last to the first
  term : Nat

/-- one activated term appended to the fuzzy output of `var` -/
structure Act (V : Type) where
  var : Nat
  term : Nat
  degree : V

def applyHedges (hs : List (V → V)) (d : V) : V := hs.foldr (fun h acc => h acc) d

/-- the property: each enabled conclusion contributes its own activation, computed from the rule's degree -/
def Spec.contrib (sanitise : V → V) (d : V) (cs : List (Concl V)) : List (Act V) :=
  (cs.filter (·.enabled)).map (fun c => ⟨c.var, c.term, sanitise (applyHedges c.hedges d)⟩)

/-- pinned code: `activation_degree = hedge.hedge(activation_degree)` rebinds the loop-carried variable -/
def modifyPinned (sanitise : V → V) : V → List (Concl V) → List (Act V)
  | _, [] => []
  | d, c :: cs =>
    if c.enabled then
      let d' := applyHedges c.hedges d
      ⟨c.var, c.term, sanitise d'⟩ :: modifyPinned sanitise d' cs
    else modifyPinned sanitise d cs

/-- repaired code: a local per conclusion -/
def modifyFixed (sanitise : V → V) : V → List (Concl V) → List (Act V)
  | _, [] => []
  | d, c :: cs =>
    if c.enabled then ⟨c.var, c.term, sanitise (applyHedges c.hedges d)⟩ :: modifyFixed sanitise d cs
    else modifyFixed sanitise d cs

theorem modifyFixed_eq_spec (sanitise : V → V) (d : V) (cs : List (Concl V)) :
    modifyFixed sanitise d cs = Spec.contrib sanitise d cs := by
  induction cs with
  | nil => rfl
  | cons c cs ih =>
    simp only [modifyFixed, Spec.contrib, List.filter]
    cases h : c.enabled <;> simp [ih, Spec.contrib]

/-- a conclusion without hedges does not disturb the threaded degree -/
theorem modifyPinned_nohedge (sanitise : V → V) (d : V) (pre rest : List (Concl V))
    (h : ∀ c ∈ pre, c.hedges = []) :
    modifyPinned sanitise d (pre ++ rest) = Spec.contrib sanitise d pre ++ modifyPinned sanitise d rest := by
  induction pre with
  | nil => simp [Spec.contrib]
  | cons c pre ih =>
    have hc : c.hedges = [] := h c (by simp)
    have ih' := ih (fun x hx => h x (by simp [hx]))
    simp only [List.cons_append, modifyPinned, Spec.contrib, List.filter]
    cases he : c.enabled <;> simp [hc, applyHedges, ih', Spec.contrib]

/-- the pinned loop agrees with the property as long as only the last conclusion carries hedges -/
theorem modifyPinned_partial (sanitise : V → V) (d : V) (pre : List (Concl V)) (last : Concl V)
    (h : ∀ c ∈ pre, c.hedges = []) :
    modifyPinned sanitise d (pre ++ [last]) = Spec.contrib sanitise d (pre ++ [last]) := by
  rw [modifyPinned_nohedge sanitise d pre [last] h]
  simp only [Spec.contrib, List.filter_append, List.map_append]
  congr 1
  simp only [modifyPinned, List.filter]
  cases he : last.enabled <;> simp

/-- independence: reordering the conclusions permutes the contributions and changes none of them -/
theorem spec_perm (sanitise : V → V) (d : V) (cs cs' : List (Concl V)) (h : cs.Perm cs') :
    (Spec.contrib sanitise d cs).Perm (Spec.contrib sanitise d cs') :=
  (h.filter _).map _

/-- the finding: with `very` on the first of two conclusions the pinned loop differs from the property -/
example : modifyPinned (V := Nat) id 3 [⟨0, true, [fun x => x * x], 0⟩, ⟨1, true, [], 0⟩]
        ≠ Spec.contrib id 3 [⟨0, true, [fun x => x * x], 0⟩, ⟨1, true, [], 0⟩] := by
  simp [modifyPinned, Spec.contrib, applyHedges]

#print axioms modifyFixed_eq_spec
#print axioms modifyPinned_partial
#print axioms spec_perm
