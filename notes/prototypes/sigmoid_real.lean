import Mathlib.Analysis.SpecialFunctions.Log.Basic
import Mathlib.Analysis.SpecialFunctions.Pow.Real
import Mathlib.Analysis.SpecialFunctions.Trigonometric.Basic
import Mathlib.Analysis.SpecialFunctions.Sqrt

structure Fn (α : Type) where
  exp : α → α
  log : α → α
  sqrt : α → α
  cos : α → α
  pow : α → α → α
  pi : α

noncomputable def Fn.real : Fn ℝ := ⟨Real.exp, Real.log, Real.sqrt, Real.cos, fun a b => a ^ b, Real.pi⟩

variable {α : Type} [Field α] [LinearOrder α] [IsStrictOrderedRing α]

def sigmoid (F : Fn α) (i s h x : α) : α := h / (1 + F.exp (-s * (x - i)))
def sigmoidTsu (F : Fn α) (i s h y : α) : α := i + F.log (h / y - 1) / (-s)

theorem sigmoid_inv (i s h y : ℝ) (hs : s ≠ 0) (hy : 0 < y) (hyh : y < h) :
    sigmoid Fn.real i s h (sigmoidTsu Fn.real i s h y) = y := by
  unfold sigmoid sigmoidTsu Fn.real
  simp only
  have h1 : 0 < h / y - 1 := by
    rw [sub_pos, lt_div_iff₀ hy]; linarith
  have : -s * (i + Real.log (h / y - 1) / (-s) - i) = Real.log (h / y - 1) := by
    field_simp
    ring
  rw [this, Real.exp_log h1]
  field_simp

theorem sigmoid_range (i s h x : ℝ) (hh : 0 < h) : 0 < sigmoid Fn.real i s h x ∧ sigmoid Fn.real i s h x < h := by
  unfold sigmoid Fn.real
  simp only
  have := Real.exp_pos (-s * (x - i))
  constructor
  · positivity
  · rw [div_lt_iff₀ (by positivity)]; nlinarith

#print axioms sigmoid_inv
