import numpy as np, fuzzylite as fl, sys
class Fork(Exception): pass
class Ctx:
    decisions=[]; pos=0
class Sym:
    __array_priority__ = 1000
    def __init__(s, op, *args): s.op=op; s.args=args
    def __repr__(s):
        if s.op=='var': return s.args[0]
        if s.op=='const': return repr(s.args[0])
        return f"({s.op} {' '.join(map(repr,s.args))})"
    @staticmethod
    def lift(x):
        if isinstance(x, Sym): return x
        if isinstance(x,(bool,np.bool_)): return Sym('constb', bool(x))
        if isinstance(x,(int,float,np.floating,np.integer)): return Sym('const', float(x))
        if isinstance(x,np.ndarray) and x.ndim==0: return Sym.lift(x.item())
        raise TypeError(f"cannot lift {type(x)} {x!r}")
    def _b(op):
        def f(s,o): return Sym(op,s,Sym.lift(o))
        def r(s,o): return Sym(op,Sym.lift(o),s)
        return f,r
    __add__,__radd__=_b('add'); __sub__,__rsub__=_b('sub'); __mul__,__rmul__=_b('mul')
    __truediv__,__rtruediv__=_b('div'); __pow__,__rpow__=_b('pow')
    __and__,__rand__=_b('and'); __or__,__ror__=_b('or')
    def __lt__(s,o): return Sym('lt',s,Sym.lift(o))
    def __le__(s,o): return Sym('le',s,Sym.lift(o))
    def __gt__(s,o): return Sym('lt',Sym.lift(o),s)
    def __ge__(s,o): return Sym('le',Sym.lift(o),s)
    def __eq__(s,o): return Sym('eq',s,Sym.lift(o))
    def __ne__(s,o): return Sym('ne',s,Sym.lift(o))
    __hash__=object.__hash__
    def __neg__(s): return Sym('neg',s)
    def __abs__(s): return Sym('abs',s)
    def __invert__(s): return Sym('not',s)
    def __bool__(s):
        if Ctx.pos < len(Ctx.decisions): d=Ctx.decisions[Ctx.pos][1]
        else: Ctx.decisions.append([s,True]); d=True
        Ctx.decisions[Ctx.pos][0]=s
        Ctx.pos+=1
        return d
    def __array_ufunc__(s, ufunc, method, *inputs, **kw):
        if method!='__call__': return NotImplemented
        name=ufunc.__name__
        m={'add':'add','subtract':'sub','multiply':'mul','true_divide':'div','divide':'div','maximum':'npmax','minimum':'npmin','sqrt':'sqrt','exp':'exp','log':'log','cos':'cos','square':'square','absolute':'abs','fabs':'abs','isnan':'isnan','isfinite':'isfinite','power':'pow','float_power':'pow','negative':'neg','less':'lt','less_equal':'le','greater':'gt','greater_equal':'ge','equal':'eq','not_equal':'ne','logical_and':'and','logical_or':'or','bitwise_and':'and','bitwise_or':'or','logical_not':'not'}
        if name not in m: raise TypeError("unsupported ufunc "+name)
        return Sym(m[name], *[Sym.lift(i) for i in inputs])
    def __array_function__(s, func, types, args, kwargs):
        name=func.__name__
        if name=='where': return Sym('ite',*[Sym.lift(a) for a in args])
        if name=='full_like': return Sym.lift(args[1] if len(args)>1 else kwargs['fill_value'])
        raise TypeError("unsupported array function "+name)
def sym_scalar(x, **kw):
    if isinstance(x, Sym): return x
    return np.asarray(x, dtype=np.float64, **kw)
import fuzzylite.norm, fuzzylite.hedge, fuzzylite.term
for m in (fuzzylite.norm, fuzzylite.hedge, fuzzylite.term): m.scalar=sym_scalar
def paths(f):
    Ctx.decisions=[]
    out=[]
    while True:
        Ctx.pos=0
        r=f()
        out.append(([(repr(c),d) for c,d in Ctx.decisions[:Ctx.pos]], r))
        # next path
        Ctx.decisions=Ctx.decisions[:Ctx.pos]
        while Ctx.decisions and Ctx.decisions[-1][1]==False: Ctx.decisions.pop()
        if not Ctx.decisions: break
        Ctx.decisions[-1][1]=False
    return out
V=lambda n: Sym('var',n)
for n in ["EinsteinProduct","DrasticSum","NilpotentMaximum","HamacherSum","NormalizedSum"]:
    print(n, paths(lambda: getattr(fl,n)().compute(V('a'),V('b'))))
for n in ["Extremely","Seldom","Any","Very"]:
    print(n, paths(lambda: getattr(fl,n)().hedge(V('x'))))
for T,ps in [("Triangle",["a","b","c"]),("Rectangle",["s","e"]),("Arc",["s","e"]),("Ramp",["s","e"]),("GaussianProduct",["ma","sa","mb","sb"]),("PiShape",list("abcd")),("SigmoidDifference",list("lrfg")),("Bell",list("cws")),("Cosine",list("cw"))]:
    try:
        def mk():
            t=getattr(fl,T)("t",*[V(p) for p in ps]); t.height=V('h'); return t.membership(V('x'))
        for p in paths(mk): print(T,p)
    except Exception as ex:
        print(T,"FAILED",type(ex).__name__,ex)
t=fl.Arc("t",V('s'),V('e')); t.height=V('h')
for p in paths(lambda: t.tsukamoto(V('y'))): print("Arc.tsukamoto",p)
