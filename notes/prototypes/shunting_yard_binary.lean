/-! Feasibility prototype: shunting-yard correctness for binary left-associative operators + parentheses. Core Lean only. -/

inductive Tok where
  | atom (n : Nat) | op (name prec : Nat) | lp | rp
deriving DecidableEq, Repr

inductive E where
  | atom (n : Nat) | bin (name prec : Nat) (l r : E)
deriving Repr

open Tok

def pfx : E → List Tok
  | .atom n => [atom n]
  | .bin o p l r => pfx l ++ pfx r ++ [op o p]

def E.prec : E → Option Nat
  | .atom _ => none
  | .bin _ p _ _ => some p

/-- minimal-parenthesis printer: `c` is the least precedence allowed without parentheses -/
def pr (c : Nat) : E → List Tok
  | .atom n => [atom n]
  | .bin o p l r =>
    if p < c then [lp] ++ (pr p l ++ [op o p] ++ pr (p+1) r) ++ [rp]
    else pr p l ++ [op o p] ++ pr (p+1) r

def popWhile (p : Nat) : List Tok → List Tok × List Tok
  | op n q :: st => if p ≤ q then ((op n q) :: (popWhile p st).1, (popWhile p st).2) else ([], op n q :: st)
  | st => ([], st)

def popToParen : List Tok → Option (List Tok × List Tok)
  | [] => none
  | lp :: st => some ([], st)
  | t :: st => (popToParen st).map (fun ar => (t :: ar.1, ar.2))

def isOp : Tok → Bool | op _ _ => true | _ => false

def sy : List Tok → List Tok → List Tok → Option (List Tok)
  | [], q, st => if st.all isOp then some (q ++ st) else none
  | atom n :: ts, q, st => sy ts (q ++ [atom n]) st
  | op n p :: ts, q, st => sy ts (q ++ (popWhile p st).1) (op n p :: (popWhile p st).2)
  | lp :: ts, q, st => sy ts q (lp :: st)
  | rp :: ts, q, st => match popToParen st with
      | none => none
      | some (a, r) => sy ts (q ++ a) r

/-- all tokens of `pend` are operators with precedence ≥ c -/
def Pend (c : Nat) (pend : List Tok) : Prop := ∀ t ∈ pend, ∃ n q, t = op n q ∧ c ≤ q
/-- the top of `st` is not an operator of precedence ≥ c (operators above the innermost paren are < c):
    we only need the head, because popWhile stops at the first failure, but the invariant must survive pops,
    so state it for the whole top segment via popWhile itself. -/
def Adm (c : Nat) (st : List Tok) : Prop := ∀ c', c ≤ c' → popWhile c' st = ([], st)

theorem popWhile_pend (p : Nat) (pend st : List Tok) (h : Pend p pend) (ha : Adm p st) :
    popWhile p (pend ++ st) = (pend, st) := by
  induction pend with
  | nil => simpa using ha p (Nat.le_refl _)
  | cons t pend ih =>
    obtain ⟨n, q, rfl, hq⟩ := h t (by simp)
    have ih' := ih (fun t ht => h t (by simp [ht]))
    simp [popWhile, hq, ih']

theorem popToParen_pend (c : Nat) (pend st : List Tok) (h : Pend c pend) :
    popToParen (pend ++ lp :: st) = some (pend, st) := by
  induction pend with
  | nil => simp [popToParen]
  | cons t pend ih =>
    obtain ⟨n, q, rfl, _⟩ := h t (by simp)
    have ih' := ih (fun t ht => h t (by simp [ht]))
    simp [popToParen, ih']

theorem adm_mono {c c' : Nat} {st} (h : Adm c st) (hc : c ≤ c') : Adm c' st :=
  fun c'' h' => h c'' (Nat.le_trans hc h')

theorem adm_lp (c : Nat) (st : List Tok) : Adm c (lp :: st) := fun _ _ => by simp [popWhile]

theorem adm_push {c p n : Nat} {st} (h : Adm c st) (hp : c ≤ p) : Adm (p+1) (op n p :: st) := by
  intro c' hc'
  have : ¬ c' ≤ p := by omega
  simp [popWhile, this]

theorem main (e : E) : ∀ (c : Nat) (q st ts : List Tok), Adm c st →
    ∃ q' pend, Pend c pend ∧ sy (pr c e ++ ts) q st = sy ts q' (pend ++ st) ∧ q' ++ pend = q ++ pfx e := by
  induction e with
  | atom n =>
    intro c q st ts _
    exact ⟨q ++ [atom n], [], by simp [Pend], by simp [pr, sy], by simp [pfx]⟩
  | bin o p l r ihl ihr =>
    intro c q st ts hadm
    -- core: the unparenthesised body, for any stack admissible at level p' ≤ p
    have body : ∀ (q st ts : List Tok), Adm p st →
        ∃ q' pend, Pend p pend ∧
          sy ((pr p l ++ [op o p] ++ pr (p+1) r) ++ ts) q st = sy ts q' (pend ++ st) ∧
          q' ++ pend = q ++ pfx (.bin o p l r) := by
      intro q st ts hadm
      obtain ⟨q1, pl, hpl, hrun1, hq1⟩ := ihl p q st ([op o p] ++ pr (p+1) r ++ ts) hadm
      obtain ⟨q3, prr, hpr, hrun3, hq3⟩ :=
        ihr (p+1) (q1 ++ pl) (op o p :: st) ts (adm_push hadm (Nat.le_refl _))
      refine ⟨q3, prr ++ [op o p], ?_, ?_, ?_⟩
      · intro t ht
        rcases List.mem_append.1 ht with h | h
        · obtain ⟨n, k, rfl, hk⟩ := hpr t h; exact ⟨n, k, rfl, by omega⟩
        · simp at h; exact ⟨o, p, h, Nat.le_refl _⟩
      · have e1 : (pr p l ++ [op o p] ++ pr (p+1) r) ++ ts = pr p l ++ ([op o p] ++ pr (p+1) r ++ ts) := by
          simp [List.append_assoc]
        rw [e1, hrun1]
        have e2 : [op o p] ++ pr (p+1) r ++ ts = op o p :: (pr (p+1) r ++ ts) := by simp
        rw [e2]
        simp only [sy, popWhile_pend p pl st hpl hadm]
        rw [hrun3]
        simp [List.append_assoc]
      · simp only [pfx, ← List.append_assoc]; rw [hq3, hq1]
    by_cases hpc : p < c
    · -- parenthesised
      obtain ⟨q', pend, hp, hrun, hq⟩ := body q (lp :: st) ([rp] ++ ts) (adm_lp p st)
      refine ⟨q' ++ pend, [], by simp [Pend], ?_, by simpa using hq⟩
      simp only [pr, hpc, if_true]
      have e1 : [lp] ++ (pr p l ++ [op o p] ++ pr (p + 1) r) ++ [rp] ++ ts
          = lp :: ((pr p l ++ [op o p] ++ pr (p + 1) r) ++ ([rp] ++ ts)) := by simp [List.append_assoc]
      rw [e1]
      simp only [sy]
      rw [hrun]
      have e2 : [rp] ++ ts = rp :: ts := rfl
      rw [e2]
      simp only [sy, popToParen_pend p pend st hp]
      simp
    · have hcp : c ≤ p := Nat.le_of_not_lt hpc
      obtain ⟨q', pend, hp, hrun, hq⟩ := body q st ts (adm_mono hadm hcp)
      refine ⟨q', pend, ?_, ?_, hq⟩
      · intro t ht; obtain ⟨n, k, rfl, hk⟩ := hp t ht; exact ⟨n, k, rfl, by omega⟩
      · simp only [pr, hpc, if_false]; exact hrun

theorem sy_correct (e : E) : sy (pr 0 e) [] [] = some (pfx e) := by
  obtain ⟨q', pend, hp, hrun, hq⟩ := main e 0 [] [] [] (fun _ _ => by simp [popWhile])
  have : pr 0 e = pr 0 e ++ [] := by simp
  rw [this, hrun]
  have hall : (pend ++ []).all isOp = true := by
    simp only [List.append_nil, List.all_eq_true]
    intro t ht; obtain ⟨n, k, rfl, _⟩ := hp t ht; rfl
  simp only [sy, hall, if_true]
  simpa using hq

#print axioms sy_correct
-- and/or example:  p or q and r  ==>  p q r and or
#eval sy (pr 0 (.bin 1 50 (.atom 0) (.bin 0 60 (.atom 1) (.atom 2)))) [] []
#eval pr 0 (.bin 0 60 (.bin 1 50 (.atom 0) (.atom 1)) (.atom 2))
