/-! Feasibility prototype: the lock-previous / default / lock-range cascade of `OutputVariable.defuzzify`
    and its invariance under splitting a batch into successive calls.  Core Lean, abstract value type. -/

structure Cfg (V : Type) where
  isNan : V → Bool
  clip : V → V
  dflt : V            -- default value (NaN = not set)
  lockPrev : Bool
  lockRange : Bool
  clip_idem : ∀ v, clip (clip v) = clip v
  clip_nan : ∀ v, isNan (clip v) = isNan v

variable {V : Type}

/-- the `np.nditer` loop: NaN rows take the carried value, other rows become the carried value -/
def fill (c : Cfg V) (p : V) : List V → List V
  | [] => []
  | v :: vs => if c.isNan v then p :: fill c p vs else v :: fill c v vs

/-- the value carried after the loop -/
def carry (c : Cfg V) (p : V) : List V → V
  | [] => p
  | v :: vs => if c.isNan v then carry c p vs else carry c v vs

/-- default substitution then the clipping setter, on one row -/
def post (c : Cfg V) (v : V) : V :=
  let v := if !c.isNan c.dflt && c.isNan v then c.dflt else v
  if c.lockRange then c.clip v else v

/-- `np.take(value, -1)` with the previous last as fallback for an empty batch -/
def lastOr (d : V) : List V → V
  | [] => d
  | x :: xs => lastOr x xs

structure St (V : Type) where
  last : V          -- np.take(value, -1)
  previous : V

/-- one call of defuzzify with the batch `raw` of defuzzified values; returns the committed batch and the new state -/
def commit (c : Cfg V) (raw : List V) (s : St V) : List V × St V :=
  let filled := if c.lockPrev then fill c s.last raw else raw
  let value := filled.map (post c)
  (value, { last := lastOr s.last value, previous := s.last })

theorem fill_append (c : Cfg V) (p : V) (xs ys : List V) :
    fill c p (xs ++ ys) = fill c p xs ++ fill c (carry c p xs) ys := by
  induction xs generalizing p with
  | nil => rfl
  | cons x xs ih => simp only [List.cons_append, fill, carry]; split <;> simp [ih]

theorem lastOr_fill (c : Cfg V) (p d : V) (xs : List V) (h : xs ≠ []) :
    lastOr d (fill c p xs) = carry c p xs := by
  induction xs generalizing p d with
  | nil => exact absurd rfl h
  | cons x xs ih =>
    cases xs with
    | nil => simp only [fill, carry]; split <;> rfl
    | cons y ys =>
      simp only [fill, carry] at ih ⊢
      split
      · exact ih p p (by simp)
      · exact ih x x (by simp)

theorem lastOr_map (f : V → V) (d : V) (xs : List V) : lastOr (f d) (xs.map f) = f (lastOr d xs) := by
  induction xs generalizing d with
  | nil => rfl
  | cons x xs ih => exact ih x

theorem post_idem (c : Cfg V) (v : V) : post c (post c v) = post c v := by
  unfold post
  cases hr : c.lockRange <;> cases hd : c.isNan c.dflt <;> cases hv : c.isNan v <;>
    simp [hd, hv, c.clip_idem, c.clip_nan]

theorem map_post_fill_post (c : Cfg V) (p : V) (ys : List V) :
    (fill c (post c p) ys).map (post c) = (fill c p ys).map (post c) := by
  induction ys with
  | nil => rfl
  | cons y ys ih =>
    simp only [fill]
    split
    · simp [List.map, post_idem, ih]
    · simp

/-- C12 `split_invariant`: one call on `xs ++ ys` commits the same rows as a call on `xs` followed by a call on `ys` -/
theorem split_invariant (c : Cfg V) (s : St V) (xs ys : List V) (hx : xs ≠ []) :
    (commit c (xs ++ ys) s).1 = (commit c xs s).1 ++ (commit c ys (commit c xs s).2).1 := by
  unfold commit
  cases hl : c.lockPrev
  · simp
  · simp only [if_true, fill_append, List.map_append]
    congr 1
    have hlast : lastOr s.last ((fill c s.last xs).map (post c)) = post c (carry c s.last xs) := by
      cases h : fill c s.last xs with
      | nil =>
        cases xs with
        | nil => exact absurd rfl hx
        | cons x xs => simp only [fill] at h; split at h <;> cases h
      | cons a as =>
        have h1 := lastOr_fill c s.last s.last xs hx
        rw [h] at h1
        show lastOr (post c a) (as.map (post c)) = _
        rw [lastOr_map]
        exact congrArg (post c) h1
    rw [hlast, map_post_fill_post]

/-- closed form of one committed row: post-processing of the last non-NaN raw value up to that row, else of the value held before -/
theorem fill_getElem (c : Cfg V) (p : V) (xs : List V) (i : Nat) (h : i < xs.length) :
    (fill c p xs)[i]? = some (carry c p (xs.take (i+1))) := by
  induction xs generalizing p i with
  | nil => cases h
  | cons x xs ih =>
    cases i with
    | zero => simp only [fill, carry, List.take]; split <;> simp [carry, *]
    | succ i =>
      have h' : i < xs.length := by simpa using h
      simp only [fill, carry, List.take]
      split <;> simp [ih _ i h', carry, *]

#print axioms split_invariant
#print axioms fill_getElem

/-! C02 corollary: committing a batch equals committing its rows one after another -/

/-- row-by-row processing: one `defuzzify` call per row, threading the state -/
def commitRows (c : Cfg V) : List V → St V → List V × St V
  | [], s => ([], s)
  | x :: xs, s =>
    let r := commit c [x] s
    let rest := commitRows c xs r.2
    (r.1 ++ rest.1, rest.2)

theorem commit_nil (c : Cfg V) (s : St V) : (commit c [] s).1 = [] := by
  unfold commit; cases c.lockPrev <;> simp [fill]

theorem batch_eq_rows (c : Cfg V) (xs : List V) (s : St V) :
    (commit c xs s).1 = (commitRows c xs s).1 := by
  induction xs generalizing s with
  | nil => simp [commitRows, commit_nil]
  | cons x xs ih =>
    have h := split_invariant c s [x] xs (by simp)
    simp only [List.singleton_append] at h
    rw [h, ih]
    simp [commitRows]

#print axioms batch_eq_rows
