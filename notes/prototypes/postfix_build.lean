/-! Feasibility prototype for C17 (second half of `Function.parse`): the stack machine that turns the postfix
    token list into the tree rebuilds every well-formed tree; evaluating the tree = running the postfix program.
    Core Lean. -/

inductive Tok where
  | operand (n : Nat)
  | op (id arity : Nat)       -- arity 1 or 2 (from the regenerated table)
  | fn (id arity : Nat)       -- arity 0, 1 or 2
deriving DecidableEq, Repr

inductive E where
  | operand (n : Nat)
  | un (id : Nat) (e : E)
  | bin (id : Nat) (l r : E)
  | call0 (f : Nat) | call1 (f : Nat) (e : E) | call2 (f : Nat) (l r : E)
deriving DecidableEq, Repr

open Tok

def pfx : E → List Tok
  | .operand n => [operand n]
  | .un u e => pfx e ++ [op u 1]
  | .bin o l r => pfx l ++ pfx r ++ [op o 2]
  | .call0 f => [fn f 0]
  | .call1 f e => pfx e ++ [fn f 1]
  | .call2 f l r => pfx l ++ pfx r ++ [fn f 2]

/-- `Function.parse` after `infix_to_postfix`: arity check against the stack size, right operand popped first -/
def build : List Tok → List E → Option (List E)
  | [], stk => some stk
  | operand n :: ts, stk => build ts (.operand n :: stk)
  | op u 1 :: ts, e :: stk => build ts (.un u e :: stk)
  | op o 2 :: ts, r :: l :: stk => build ts (.bin o l r :: stk)
  | fn f 0 :: ts, stk => build ts (.call0 f :: stk)
  | fn f 1 :: ts, e :: stk => build ts (.call1 f e :: stk)
  | fn f 2 :: ts, r :: l :: stk => build ts (.call2 f l r :: stk)
  | _, _ => none                -- arity larger than the stack: SyntaxError

def parse (ts : List Tok) : Option E :=
  match build ts [] with
  | some [e] => some e          -- `len(stack) != 1` is a SyntaxError
  | _ => none

theorem build_pfx (e : E) : ∀ (rest : List Tok) (stk : List E), build (pfx e ++ rest) stk = build rest (e :: stk) := by
  induction e with
  | operand n => intro rest stk; simp [pfx, build]
  | un u e ih => intro rest stk; simp only [pfx, List.append_assoc, ih]; simp [build]
  | bin o l r ihl ihr => intro rest stk; simp only [pfx, List.append_assoc, ihl, ihr]; simp [build]
  | call0 f => intro rest stk; simp [pfx, build]
  | call1 f e ih => intro rest stk; simp only [pfx, List.append_assoc, ih]; simp [build]
  | call2 f l r ihl ihr => intro rest stk; simp only [pfx, List.append_assoc, ihl, ihr]; simp [build]

theorem parse_pfx (e : E) : parse (pfx e) = some e := by
  have := build_pfx e [] []
  simp only [List.append_nil] at this
  simp [parse, this, build]

/-- evaluation: tree semantics = reverse-Polish semantics, for any interpretation of the elements -/
structure Sem (V : Type) where
  operand : Nat → V
  un : Nat → V → V
  bin : Nat → V → V → V
  c0 : Nat → V
  c1 : Nat → V → V
  c2 : Nat → V → V → V

def eval {V} (S : Sem V) : E → V
  | .operand n => S.operand n
  | .un u e => S.un u (eval S e)
  | .bin o l r => S.bin o (eval S l) (eval S r)
  | .call0 f => S.c0 f
  | .call1 f e => S.c1 f (eval S e)
  | .call2 f l r => S.c2 f (eval S l) (eval S r)

def rpn {V} (S : Sem V) : List Tok → List V → Option (List V)
  | [], stk => some stk
  | operand n :: ts, stk => rpn S ts (S.operand n :: stk)
  | op u 1 :: ts, a :: stk => rpn S ts (S.un u a :: stk)
  | op o 2 :: ts, b :: a :: stk => rpn S ts (S.bin o a b :: stk)
  | fn f 0 :: ts, stk => rpn S ts (S.c0 f :: stk)
  | fn f 1 :: ts, a :: stk => rpn S ts (S.c1 f a :: stk)
  | fn f 2 :: ts, b :: a :: stk => rpn S ts (S.c2 f a b :: stk)
  | _, _ => none

theorem rpn_pfx {V} (S : Sem V) (e : E) : ∀ (rest : List Tok) (stk : List V),
    rpn S (pfx e ++ rest) stk = rpn S rest (eval S e :: stk) := by
  induction e with
  | operand n => intro rest stk; simp [pfx, rpn, eval]
  | un u e ih => intro rest stk; simp only [pfx, List.append_assoc, ih]; simp [rpn, eval]
  | bin o l r ihl ihr => intro rest stk; simp only [pfx, List.append_assoc, ihl, ihr]; simp [rpn, eval]
  | call0 f => intro rest stk; simp [pfx, rpn, eval]
  | call1 f e ih => intro rest stk; simp only [pfx, List.append_assoc, ih]; simp [rpn, eval]
  | call2 f l r ihl ihr => intro rest stk; simp only [pfx, List.append_assoc, ihl, ihr]; simp [rpn, eval]

/-- C17 `postfix_roundtrip`: the tree built from a postfix program prints back to it and has its value -/
theorem postfix_roundtrip {V} (S : Sem V) (e : E) :
    parse (pfx e) = some e ∧ rpn S (pfx e) [] = some [eval S e] := by
  refine ⟨parse_pfx e, ?_⟩
  have := rpn_pfx S e [] []
  simp only [List.append_nil] at this
  simp [this, rpn]

/-- ill-formed programs are rejected: an operator without enough operands, or leftovers -/
example : parse [operand 1, op 0 2] = none := by decide
example : parse [operand 1, operand 2] = none := by decide
example : parse [fn 3 1] = none := by decide

#print axioms postfix_roundtrip
