import Mathlib.Algebra.Order.Field.Basic
import Mathlib.Algebra.Order.Field.Rat
import Mathlib.Tactic.Ring
import Mathlib.Tactic.Linarith
import Mathlib.Tactic.FieldSimp
import Mathlib.Tactic.Positivity

/-! Feasibility prototype for C09: centroid of a sampled fuzzy set, any number of samples. -/

variable {α : Type} [Field α] [LinearOrder α] [IsStrictOrderedRing α]

def sumXY : List (α × α) → α
  | [] => 0
  | (x, y) :: ps => x * y + sumXY ps
def sumY : List (α × α) → α
  | [] => 0
  | (_, y) :: ps => y + sumY ps

/-- `(x*y).sum() / y.sum()`; `none` models NaN (0/0) -/
def centroid (ps : List (α × α)) : Option α :=
  if sumY ps = 0 then none else some (sumXY ps / sumY ps)

def midpoints (lo hi : α) (r : Nat) : List α :=
  (List.range r).map (fun i => lo + ((i : α) + 1/2) * ((hi - lo) / r))

theorem sumY_nonneg (ps : List (α × α)) (h : ∀ p ∈ ps, 0 ≤ p.2) : 0 ≤ sumY ps := by
  induction ps with
  | nil => simp [sumY]
  | cons p ps ih =>
    obtain ⟨x, y⟩ := p
    simp only [sumY]
    have := h (x, y) (by simp)
    have := ih (fun q hq => h q (by simp [hq]))
    linarith

theorem sumXY_bounds (lo hi : α) (ps : List (α × α)) (hy : ∀ p ∈ ps, 0 ≤ p.2) (hx : ∀ p ∈ ps, lo ≤ p.1 ∧ p.1 ≤ hi) :
    lo * sumY ps ≤ sumXY ps ∧ sumXY ps ≤ hi * sumY ps := by
  induction ps with
  | nil => simp [sumY, sumXY]
  | cons p ps ih =>
    obtain ⟨x, y⟩ := p
    have h1 := hy (x, y) (by simp)
    have h2 := hx (x, y) (by simp)
    have ih' := ih (fun q hq => hy q (by simp [hq])) (fun q hq => hx q (by simp [hq]))
    simp only [sumY, sumXY] at *
    constructor
    · nlinarith [mul_nonneg (sub_nonneg.2 h2.1) h1]
    · nlinarith [mul_nonneg (sub_nonneg.2 h2.2) h1]

/-- C09 `result_in_range` for the centroid: any number of samples -/
theorem centroid_in_range (lo hi : α) (ps : List (α × α)) (hy : ∀ p ∈ ps, 0 ≤ p.2)
    (hx : ∀ p ∈ ps, lo ≤ p.1 ∧ p.1 ≤ hi) (z : α) (hz : centroid ps = some z) : lo ≤ z ∧ z ≤ hi := by
  unfold centroid at hz
  split_ifs at hz with h0
  have hpos : 0 < sumY ps := lt_of_le_of_ne (sumY_nonneg ps hy) (Ne.symm h0)
  obtain ⟨b1, b2⟩ := sumXY_bounds lo hi ps hy hx
  cases hz
  constructor
  · rw [le_div_iff₀ hpos]; exact b1
  · rw [div_le_iff₀ hpos]; exact b2

/-- NaN exactly when the membership is zero at every sample point -/
theorem centroid_none_iff (ps : List (α × α)) (hy : ∀ p ∈ ps, 0 ≤ p.2) :
    centroid ps = none ↔ ∀ p ∈ ps, p.2 = 0 := by
  unfold centroid
  constructor
  · intro h
    split_ifs at h with h0
    clear h
    induction ps with
    | nil => simp
    | cons p ps ih =>
      obtain ⟨x, y⟩ := p
      have h1 := hy (x, y) (by simp)
      have h2 := sumY_nonneg ps (fun q hq => hy q (by simp [hq]))
      simp only [sumY] at h0
      have hy0 : y = 0 := by linarith
      have hs0 : sumY ps = 0 := by linarith
      intro q hq
      rcases List.mem_cons.1 hq with rfl | hq
      · exact hy0
      · exact ih (fun q hq => hy q (by simp [hq])) hs0 q hq
  · intro h
    have : sumY ps = 0 := by
      induction ps with
      | nil => rfl
      | cons p ps ih =>
        obtain ⟨x, y⟩ := p
        simp only [sumY]
        have e1 : y = 0 := h (x, y) (by simp)
        have e2 := ih (fun q hq => hy q (by simp [hq])) (fun q hq => h q (by simp [hq]))
        rw [e1, e2]; simp
    simp [this]

/-- translating the sample points by c translates the centroid by c -/
theorem centroid_translate (c : α) (ps : List (α × α)) :
    centroid (ps.map (fun p => (p.1 + c, p.2))) = (centroid ps).map (· + c) := by
  have hY : sumY (ps.map (fun p => (p.1 + c, p.2))) = sumY ps := by
    induction ps with
    | nil => rfl
    | cons p ps ih => obtain ⟨x, y⟩ := p; simp only [List.map, sumY, ih]
  have hXY : sumXY (ps.map (fun p => (p.1 + c, p.2))) = sumXY ps + c * sumY ps := by
    clear hY
    induction ps with
    | nil => simp [sumXY, sumY]
    | cons p ps ih => obtain ⟨x, y⟩ := p; simp only [List.map, sumXY, sumY, ih]; ring
  unfold centroid
  rw [hY, hXY]
  split_ifs with h0
  · rfl
  · simp only [Option.map]; congr 1; field_simp

#print axioms centroid_in_range
#print axioms centroid_none_iff
#print axioms centroid_translate
#eval centroid [((1:ℚ)/2, (1:ℚ)/4), (3/2, 3/4)]
