import Mathlib.Algebra.Order.Field.Basic
import Mathlib.Tactic.Ring
import Mathlib.Tactic.Linarith
import Mathlib.Tactic.FieldSimp
import Mathlib.Tactic.Positivity

variable {α : Type} [Field α] [LinearOrder α] [IsStrictOrderedRing α]

def einsteinProduct (a b : α) : α := (a * b) / (2 - (a + b - a * b))
def einsteinSum (a b : α) : α := (a + b) / (1 + a * b)
def hamacherProduct (a b : α) : α := if a + b ≠ 0 then (a * b) / (a + b - a * b) else 0

theorem einstein_den_pos {a b : α} (ha1 : a ≤ 1) (hb1 : b ≤ 1) :
    0 < 2 - (a + b - a * b) := by nlinarith [mul_nonneg (sub_nonneg.2 ha1) (sub_nonneg.2 hb1)]

theorem einstein_nonneg {a b : α} (ha : 0 ≤ a) (ha1 : a ≤ 1) (hb : 0 ≤ b) (hb1 : b ≤ 1) :
    0 ≤ einsteinProduct a b := div_nonneg (mul_nonneg ha hb) (einstein_den_pos ha1 hb1).le

theorem einstein_le_left {a b : α} (ha : 0 ≤ a) (ha1 : a ≤ 1) (hb : 0 ≤ b) (hb1 : b ≤ 1) :
    einsteinProduct a b ≤ a := by
  unfold einsteinProduct
  rw [div_le_iff₀ (einstein_den_pos ha1 hb1)]
  nlinarith [mul_nonneg ha (sub_nonneg.2 hb1), mul_nonneg (mul_nonneg ha (sub_nonneg.2 ha1)) (sub_nonneg.2 hb1)]

theorem einstein_assoc {a b c : α} (ha : 0 ≤ a) (ha1 : a ≤ 1) (hb : 0 ≤ b) (hb1 : b ≤ 1) (hc : 0 ≤ c) (hc1 : c ≤ 1) :
    einsteinProduct (einsteinProduct a b) c = einsteinProduct a (einsteinProduct b c) := by
  have h1 := einstein_den_pos ha1 hb1
  have h2 := einstein_den_pos hb1 hc1
  have e1 := einstein_le_left ha ha1 hb hb1
  have e2 := einstein_le_left hb hb1 hc hc1
  have h3 := einstein_den_pos (le_trans e1 ha1) hc1
  have h4 := einstein_den_pos ha1 (le_trans e2 hb1)
  unfold einsteinProduct at *
  rw [div_eq_div_iff h3.ne' h4.ne']
  field_simp
  ring

#eval einsteinProduct (1/2 : ℚ) (3/4)
#print axioms einstein_assoc
