import Mathlib.Analysis.SpecialFunctions.Sqrt
import Mathlib.Analysis.SpecialFunctions.Pow.Real
import Mathlib.Tactic.Ring
import Mathlib.Tactic.Linarith
import Mathlib.Tactic.Positivity

/-! Feasibility prototype for C05: the six registered hedges over ℝ. -/

noncomputable section
open Real

def very (x : ℝ) : ℝ := x ^ 2
def somewhat (x : ℝ) : ℝ := √x
def hneg (x : ℝ) : ℝ := 1 - x
def hany (_ : ℝ) : ℝ := 1
def extremely (x : ℝ) : ℝ := if x ≤ 0.5 then 2 * x ^ 2 else 1 - 2 * (1 - x) ^ 2
def seldom (x : ℝ) : ℝ := if x ≤ 0.5 then √(0.5 * x) else 1 - √(0.5 * (1 - x))

def I (x : ℝ) : Prop := 0 ≤ x ∧ x ≤ 1

theorem very_range {x} (h : I x) : I (very x) := ⟨by unfold very; positivity, by unfold very; nlinarith [h.1, h.2]⟩
theorem very_le {x} (h : I x) : very x ≤ x := by unfold very; nlinarith [h.1, h.2]
theorem le_somewhat {x} (h : I x) : x ≤ somewhat x := by
  unfold somewhat
  have h1 : √x * √x = x := Real.mul_self_sqrt h.1
  have h2 : 0 ≤ √x := Real.sqrt_nonneg x
  have h3 : √x ≤ 1 := by have := Real.sqrt_le_sqrt h.2; simpa using this
  nlinarith
theorem somewhat_very {x} (h : I x) : somewhat (very x) = x := by
  unfold somewhat very; exact Real.sqrt_sq h.1
theorem very_somewhat {x} (h : I x) : very (somewhat x) = x := by
  unfold somewhat very; exact Real.sq_sqrt h.1
theorem not_not (x : ℝ) : hneg (hneg x) = x := by unfold hneg; ring
theorem not_swaps : hneg 0 = 1 ∧ hneg 1 = 0 := by unfold hneg; constructor <;> ring

theorem extremely_range {x} (h : I x) : I (extremely x) := by
  unfold extremely
  split_ifs with hx
  · exact ⟨by positivity, by nlinarith [h.1]⟩
  · simp only [not_le] at hx
    exact ⟨by nlinarith [h.2], by nlinarith [sq_nonneg (1 - x)]⟩

theorem seldom_extremely {x} (h : I x) : seldom (extremely x) = x := by
  unfold seldom extremely
  by_cases hx : x ≤ 0.5
  · have h1 : 2 * x ^ 2 ≤ 0.5 := by nlinarith [h.1]
    rw [if_pos hx, if_pos h1]
    have : 0.5 * (2 * x ^ 2) = x ^ 2 := by ring
    rw [this, Real.sqrt_sq h.1]
  · have hx' : 0.5 < x := not_le.mp hx
    have h1 : ¬ (1 - 2 * (1 - x) ^ 2 ≤ 0.5) := by
      intro hh; nlinarith [h.2]
    rw [if_neg hx, if_neg h1]
    have : 0.5 * (1 - (1 - 2 * (1 - x) ^ 2)) = (1 - x) ^ 2 := by ring
    rw [this, Real.sqrt_sq (by linarith [h.2])]; ring

theorem extremely_seldom {x} (h : I x) : extremely (seldom x) = x := by
  unfold seldom extremely
  by_cases hx : x ≤ 0.5
  · have hnn : (0:ℝ) ≤ 0.5 * x := by nlinarith [h.1]
    have h1 : √(0.5 * x) ≤ 0.5 := by
      have : √(0.5 * x) ≤ √(0.25) := Real.sqrt_le_sqrt (by nlinarith)
      have e : √(0.25 : ℝ) = 0.5 := by
        rw [show (0.25 : ℝ) = 0.5 ^ 2 by norm_num]; exact Real.sqrt_sq (by norm_num)
      linarith
    rw [if_pos hx, if_pos h1, Real.sq_sqrt hnn]; ring
  · have hx' : 0.5 < x := not_le.mp hx
    have hnn : (0:ℝ) ≤ 0.5 * (1 - x) := by nlinarith [h.2]
    have hlt : √(0.5 * (1 - x)) < 0.5 := by
      have : √(0.5 * (1 - x)) < √(0.25) := Real.sqrt_lt_sqrt hnn (by nlinarith)
      have e : √(0.25 : ℝ) = 0.5 := by
        rw [show (0.25 : ℝ) = 0.5 ^ 2 by norm_num]; exact Real.sqrt_sq (by norm_num)
      linarith
    have h1 : ¬ (1 - √(0.5 * (1 - x)) ≤ 0.5) := by intro hh; linarith
    rw [if_neg hx, if_neg h1]
    have : (1 - (1 - √(0.5 * (1 - x)))) ^ 2 = 0.5 * (1 - x) := by
      have : 1 - (1 - √(0.5 * (1 - x))) = √(0.5 * (1 - x)) := by ring
      rw [this, Real.sq_sqrt hnn]
    rw [this]; ring

#print axioms extremely_seldom
#print axioms seldom_extremely
end
