import Mathlib.Data.List.Sort
import Mathlib.Algebra.Order.Field.Rat

/-! Feasibility prototype for C08: `Highest(n)` – push `(-degree, index)` of every rule with positive degree on a
    heap, pop n times.  The heap is modelled by its contract (pops come out in increasing key order) as an
    insertion sort; the theorem says the popped rules are the n best in the order (degree descending, index
    ascending). -/

variable {α : Type} [LinearOrder α]

/-- key of a rule on the heap; `d` is already the negated degree -/


def keyLE (a b : α × Nat) : Prop := a.1 < b.1 ∨ (a.1 = b.1 ∧ a.2 ≤ b.2)

instance : DecidableRel (keyLE (α := α)) := fun a b => by unfold keyLE; infer_instance

instance : IsTotal (α × Nat) keyLE := ⟨fun a b => by
  unfold keyLE
  rcases lt_trichotomy a.1 b.1 with h | h | h
  · exact Or.inl (Or.inl h)
  · rcases le_total a.2 b.2 with h2 | h2
    · exact Or.inl (Or.inr ⟨h, h2⟩)
    · exact Or.inr (Or.inr ⟨h.symm, h2⟩)
  · exact Or.inr (Or.inl h)⟩

instance : IsTrans (α × Nat) keyLE := ⟨fun a b c hab hbc => by
  unfold keyLE at *
  rcases hab with h1 | ⟨h1, h1'⟩ <;> rcases hbc with h2 | ⟨h2, h2'⟩
  · exact Or.inl (lt_trans h1 h2)
  · exact Or.inl (h2 ▸ h1)
  · exact Or.inl (h1 ▸ h2)
  · exact Or.inr ⟨h1.trans h2, le_trans h1' h2'⟩⟩

/-- the n pops -/
def popN (n : Nat) (pushed : List (α × Nat)) : List (α × Nat) := ((pushed.insertionSort keyLE).take n)
def left (n : Nat) (pushed : List (α × Nat)) : List (α × Nat) := ((pushed.insertionSort keyLE).drop n)

/-- every popped rule is at least as good as every rule left on the heap -/
theorem popped_best (n : Nat) (pushed : List (α × Nat)) :
    ∀ a ∈ popN n pushed, ∀ b ∈ left n pushed, keyLE a b := by
  have hs : (pushed.insertionSort keyLE).Pairwise keyLE := List.pairwise_insertionSort keyLE pushed
  rw [← List.take_append_drop n (pushed.insertionSort keyLE), List.pairwise_append] at hs
  exact hs.2.2

/-- nothing is lost or invented: popped ++ left is a permutation of what was pushed, and at most n are popped -/
theorem popped_perm (n : Nat) (pushed : List (α × Nat)) : (popN n pushed ++ left n pushed).Perm pushed := by
  unfold popN left
  rw [List.take_append_drop]
  exact List.perm_insertionSort keyLE pushed

theorem popped_length (n : Nat) (pushed : List (α × Nat)) : (popN n pushed).length = min n pushed.length := by
  unfold popN
  rw [List.length_take, List.length_insertionSort]

#print axioms popped_best
#print axioms popped_perm
-- degrees 0.5, 0.9, 0.5, 0.7 (negated), n = 2: rules 1 and 3
#eval popN 2 [((-1/2 : ℚ), 0), (-9/10, 1), (-1/2, 2), (-7/10, 3)]
-- tie at the cut: rules 0 and 2 both have 0.5, n = 3 takes the earlier one
#eval popN 3 [((-1/2 : ℚ), 0), (-9/10, 1), (-1/2, 2), (-7/10, 3)]
