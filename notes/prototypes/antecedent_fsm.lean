/-! Feasibility prototype for C06: the state machine of `Antecedent.load` over the postfix token stream
    rebuilds every antecedent tree from its postfix form.  Tokens are pre-classified (names assumed disjoint).  Core Lean. -/

inductive Tk where
  | var (v : Nat) | is | hedge (h : Nat) | any | term (t : Nat) | and_ | or_
deriving DecidableEq, Repr

inductive A where
  | prop (v : Nat) (hs : List Nat) (t : Nat)
  | anyp (v : Nat) (hs : List Nat)          -- `v is h* any`
  | and_ (l r : A)
  | or_ (l r : A)
deriving DecidableEq, Repr

def pfx : A → List Tk
  | .prop v hs t => [.var v, .is] ++ hs.map .hedge ++ [.term t]
  | .anyp v hs => [.var v, .is] ++ hs.map .hedge ++ [.any]
  | .and_ l r => pfx l ++ pfx r ++ [.and_]
  | .or_ l r => pfx l ++ pfx r ++ [.or_]

/-- the reachable flag sets of the loop: {variable}, {is}, {hedge,term}, {variable,and_or} -/
inductive St where
  | start | expectIs (v : Nat) | expectHT (v : Nat) (hs : List Nat) | afterProp
deriving Repr

def step : St → List A → Tk → Option (St × List A)
  | .start, stk, .var v => some (.expectIs v, stk)
  | .afterProp, stk, .var v => some (.expectIs v, stk)
  | .expectIs v, stk, .is => some (.expectHT v [], stk)
  | .expectHT v hs, stk, .hedge h => some (.expectHT v (hs ++ [h]), stk)
  | .expectHT v hs, stk, .any => some (.afterProp, .anyp v hs :: stk)
  | .expectHT v hs, stk, .term t => some (.afterProp, .prop v hs t :: stk)
  | .afterProp, r :: l :: stk, .and_ => some (.afterProp, .and_ l r :: stk)
  | .afterProp, r :: l :: stk, .or_ => some (.afterProp, .or_ l r :: stk)
  | _, _, _ => none         -- every other combination raises SyntaxError

def run : List Tk → St → List A → Option (St × List A)
  | [], s, stk => some (s, stk)
  | t :: ts, s, stk => match step s stk t with
    | none => none
    | some (s', stk') => run ts s' stk'

def load (ts : List Tk) : Option A :=
  match run ts .start [] with
  | some (.afterProp, [a]) => some a
  | _ => none

def Ready : St → Prop
  | .start => True | .afterProp => True | _ => False

theorem run_hedges (v : Nat) (hs0 hs : List Nat) (rest : List Tk) (stk : List A) :
    run (hs.map .hedge ++ rest) (.expectHT v hs0) stk = run rest (.expectHT v (hs0 ++ hs)) stk := by
  induction hs generalizing hs0 with
  | nil => simp
  | cons h hs ih => simp only [List.map, List.cons_append, run, step]; rw [ih]; simp [List.append_assoc]

theorem run_pfx (a : A) : ∀ (s : St) (stk : List A) (rest : List Tk), Ready s →
    run (pfx a ++ rest) s stk = run rest .afterProp (a :: stk) := by
  induction a with
  | prop v hs t =>
    intro s stk rest hs'
    cases s <;> simp only [Ready] at hs' <;>
      simp only [pfx, List.cons_append, List.append_assoc, List.nil_append, run, step, run_hedges, List.nil_append]
  | anyp v hs =>
    intro s stk rest hs'
    cases s <;> simp only [Ready] at hs' <;>
      simp only [pfx, List.cons_append, List.append_assoc, List.nil_append, run, step, run_hedges, List.nil_append]
  | and_ l r ihl ihr =>
    intro s stk rest hs'
    simp only [pfx, List.append_assoc]
    rw [ihl s stk _ hs', ihr .afterProp _ _ trivial]
    simp [run, step]
  | or_ l r ihl ihr =>
    intro s stk rest hs'
    simp only [pfx, List.append_assoc]
    rw [ihl s stk _ hs', ihr .afterProp _ _ trivial]
    simp [run, step]

/-- C06 `load_print` (postfix half): every antecedent tree is rebuilt from its postfix form -/
theorem load_pfx (a : A) : load (pfx a) = some a := by
  have := run_pfx a .start [] [] trivial
  simp only [List.append_nil] at this
  simp [load, this, run]

#print axioms load_pfx
#eval load (pfx (.or_ (.prop 0 [] 1) (.and_ (.anyp 2 [5]) (.prop 3 [7, 8] 4))))
