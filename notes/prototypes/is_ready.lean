/-! Feasibility prototype for C19: `Engine.is_ready` (pinned and repaired nesting) against the configuration
    errors `process()` can raise.  Core Lean. -/

structure RuleInfo where
  loaded : Bool
  usesAnd : Bool
  usesOr : Bool
  mamdani : Bool        -- has a conclusion on an output variable with an integral defuzzifier
deriving Repr, DecidableEq

structure Block where
  conj : Bool
  disj : Bool
  impl : Bool
  rules : List RuleInfo
deriving Repr, DecidableEq

inductive Err | conj | disj | impl
deriving Repr, DecidableEq

/-- pinned `is_ready`: the disjunction test sits inside the `if conjunction_needed and not conjunction` branch -/
def readyPinned (b : Block) : List Err :=
  let cn := b.rules.any (·.usesAnd)
  let dn := b.rules.any (·.usesOr)
  let im := b.rules.any (fun r => r.loaded && r.mamdani)
  (if cn && !b.conj then [Err.conj] ++ (if dn && !b.disj then [Err.disj] else []) else [])
  ++ (if im && !b.impl then [Err.impl] else [])

/-- repaired: three independent tests -/
def readyFixed (b : Block) : List Err :=
  let cn := b.rules.any (·.usesAnd)
  let dn := b.rules.any (·.usesOr)
  let im := b.rules.any (fun r => r.loaded && r.mamdani)
  (if cn && !b.conj then [Err.conj] else []) ++ (if dn && !b.disj then [Err.disj] else [])
  ++ (if im && !b.impl then [Err.impl] else [])

/-- does processing this block (General activation, then defuzzification of its integral outputs) raise a
    missing-operator error? loaded rules evaluate their antecedent; activated integral terms need the implication -/
def processRaises (b : Block) : Bool :=
  b.rules.any (fun r => r.loaded && ((r.usesAnd && !b.conj) || (r.usesOr && !b.disj) || (r.mamdani && !b.impl)))

theorem any_imp {α} (l : List α) (p q : α → Bool) (h : ∀ x, p x = true → q x = true) :
    l.any p = true → l.any q = true := by
  simp only [List.any_eq_true]; rintro ⟨x, hx, hp⟩; exact ⟨x, hx, h x hp⟩

/-- C19 `ready_sound` for the repaired check -/
theorem ready_sound (b : Block) (h : readyFixed b = []) : processRaises b = false := by
  rw [Bool.eq_false_iff]
  intro hany
  unfold processRaises at hany
  simp only [List.any_eq_true, Bool.and_eq_true, Bool.or_eq_true, Bool.not_eq_true'] at hany
  obtain ⟨r, hr, hl, hcase⟩ := hany
  unfold readyFixed at h
  simp only [List.append_eq_nil_iff] at h
  obtain ⟨⟨h1, h2⟩, h3⟩ := h
  rcases hcase with (⟨ha, hc⟩ | ⟨ho, hd⟩) | ⟨hm, hi⟩
  · have : b.rules.any (·.usesAnd) = true := List.any_eq_true.2 ⟨r, hr, ha⟩
    simp [this, hc] at h1
  · have : b.rules.any (·.usesOr) = true := List.any_eq_true.2 ⟨r, hr, ho⟩
    simp [this, hd] at h2
  · have : b.rules.any (fun r => r.loaded && r.mamdani) = true := List.any_eq_true.2 ⟨r, hr, by simp [hl, hm]⟩
    simp [this, hi] at h3

/-- C19 `ready_complete`: every operator a loaded rule needs and the block lacks is reported -/
theorem ready_complete (b : Block) (r : RuleInfo) (hr : r ∈ b.rules) :
    (r.usesAnd = true → b.conj = false → Err.conj ∈ readyFixed b) ∧
    (r.usesOr = true → b.disj = false → Err.disj ∈ readyFixed b) ∧
    (r.loaded = true → r.mamdani = true → b.impl = false → Err.impl ∈ readyFixed b) := by
  unfold readyFixed
  refine ⟨fun ha hc => ?_, fun ho hd => ?_, fun hl hm hi => ?_⟩
  · have : b.rules.any (·.usesAnd) = true := List.any_eq_true.2 ⟨r, hr, ha⟩
    simp [this, hc]
  · have : b.rules.any (·.usesOr) = true := List.any_eq_true.2 ⟨r, hr, ho⟩
    simp [this, hd]
  · have : b.rules.any (fun r => r.loaded && r.mamdani) = true := List.any_eq_true.2 ⟨r, hr, by simp [hl, hm]⟩
    simp [this, hi]

/-- the pinned check is unsound: an `or` rule, conjunction present, disjunction missing -/
def witness : Block := { conj := true, disj := false, impl := true, rules := [⟨true, false, true, true⟩] }
example : readyPinned witness = [] ∧ processRaises witness = true := by decide

#print axioms ready_sound
#print axioms ready_complete
