import Mathlib.Algebra.Order.Field.Rat
import Mathlib.Algebra.Order.Floor.Ring
import Mathlib.Algebra.Order.Round
import Mathlib.Data.Rat.Floor
import Mathlib.Tactic.Ring
import Mathlib.Tactic.Linarith
import Mathlib.Tactic.NormNum

/-! Feasibility prototype for C14: `Term._parameters` / `Term._parse` with numbers printed at `d` decimals.
    A printed number is represented by the integer k of the decimal k / 10^d. -/

/-- `format(x, f".{d}f")`: round half to even of the exact value -/
def roundHE (x : ℚ) : ℤ :=
  let f := ⌊x⌋
  let r := x - f
  if r < 1/2 then f else if 1/2 < r then f + 1 else if f % 2 = 0 then f else f + 1

theorem roundHE_int (k : ℤ) : roundHE (k : ℚ) = k := by
  unfold roundHE
  simp only [Int.floor_intCast, sub_self]
  norm_num

def scale (d : ℕ) : ℚ := 10 ^ d
def fmt (d : ℕ) (x : ℚ) : ℤ := roundHE (x * scale d)
def value (d : ℕ) (k : ℤ) : ℚ := k / scale d

theorem scale_pos (d : ℕ) : 0 < scale d := by unfold scale; positivity

/-- printing what was read back prints the same text -/
theorem fmt_value (d : ℕ) (k : ℤ) : fmt d (value d k) = k := by
  unfold fmt value
  rw [div_mul_cancel₀ _ (scale_pos d).ne']
  exact roundHE_int k

structure Cfg where
  d : ℕ
  atol : ℚ

def isClose (c : Cfg) (h : ℚ) : Bool := decide (|h - 1| ≤ c.atol)

/-- `Term._parameters(*args)`: the arguments, then the height unless it is close to 1 -/
def params (c : Cfg) (ps : List ℚ) (h : ℚ) : List ℤ :=
  ps.map (fmt c.d) ++ (if isClose c h then [] else [fmt c.d h])

/-- `Term._parse(required, text)` -/
def parse (c : Cfg) (required : ℕ) (toks : List ℤ) : Option (List ℚ × ℚ) :=
  let vs := toks.map (value c.d)
  if vs.length = required then some (vs, 1)
  else if vs.length = required + 1 then some (vs.dropLast, vs.getLast?.getD 1)
  else none

def rnd (c : Cfg) (x : ℚ) : ℚ := value c.d (fmt c.d x)

theorem parse_params (c : Cfg) (ps : List ℚ) (h : ℚ) :
    parse c ps.length (params c ps h) = some (ps.map (rnd c), if isClose c h then 1 else rnd c h) := by
  unfold parse params
  by_cases hc : isClose c h = true
  · simp [hc, rnd, Function.comp_def]
  · simp only [hc, Bool.false_eq_true, if_false]
    simp [rnd, Function.comp_def, List.dropLast_concat]

/-- the hypothesis the round trip needs: a height that is printed must still be "not close to 1" after rounding -/
def Stable (c : Cfg) (h : ℚ) : Prop := isClose c h = false → isClose c (rnd c h) = false

theorem isClose_one (c : Cfg) (hat : 0 ≤ c.atol) : isClose c 1 = true := by
  simp [isClose, hat]

/-- export → import → export reproduces the text of the parameters -/
theorem export_import_export (c : Cfg) (hat : 0 ≤ c.atol) (ps : List ℚ) (h : ℚ) (hs : Stable c h) :
    ∃ ps' h', parse c ps.length (params c ps h) = some (ps', h') ∧ params c ps' h' = params c ps h := by
  refine ⟨_, _, parse_params c ps h, ?_⟩
  unfold params
  have hmap : (ps.map (rnd c)).map (fmt c.d) = ps.map (fmt c.d) := by
    simp [rnd, fmt_value, Function.comp_def]
  rw [hmap]
  cases hc : isClose c h
  · have h1 := hs hc
    have h2 : fmt c.d (rnd c h) = fmt c.d h := by unfold rnd; exact fmt_value _ _
    simp only [hc, h1, h2, Bool.false_eq_true, if_false]
  · simp [isClose_one c hat]

/-- F11 in the model: two decimals, tolerance 1e-3: the height 0.9986 is not close to 1, is printed as 1.00,
    and what is read back is close to 1 – so it is dropped by the second export -/
def c2 : Cfg := ⟨2, 1/1000⟩
example : isClose c2 (9986/10000) = false := by decide +kernel
example : fmt c2.d (9986/10000) = 100 := by decide +kernel
example : isClose c2 (rnd c2 (9986/10000)) = true := by decide +kernel
example : ¬ Stable c2 (9986/10000) := by
  intro h
  have h1 : isClose c2 (9986/10000) = false := by decide +kernel
  have h2 : isClose c2 (rnd c2 (9986/10000)) = true := by decide +kernel
  rw [h h1] at h2; cases h2

#print axioms export_import_export
#print axioms fmt_value
