/-! Feasibility prototype for C15: `Representation.construction_arguments` against Python's call binding.
    Emitted argument lists have the shape  positional* keyword*  ; binding them against the signature gives,
    for every parameter, the field if it was emitted and the constructor default otherwise.  Core Lean. -/

abbrev Name := Nat
abbrev Val := Nat

structure Param where
  name : Name
  dflt : Option Val      -- `none` = no default (`parameter.empty`)
deriving Repr

inductive Arg where
  | pos (v : Val) | kw (n : Name) (v : Val)
deriving Repr

/-- the loop of `construction_arguments`: emit present fields; after the first skipped (defaulted) parameter
    everything is emitted by keyword; a missing parameter without default is an error -/
def emit (fields : Name → Option Val) : Bool → List Param → Option (List Arg)
  | _, [] => some []
  | positional, p :: ps =>
    match fields p.name with
    | some v => (emit fields positional ps).map (fun as => (if positional then Arg.pos v else Arg.kw p.name v) :: as)
    | none =>
      match p.dflt with
      | some _ => emit fields false ps
      | none => none

def lookupKw (n : Name) : List Arg → Option Val
  | [] => none
  | .kw m v :: as => if m = n then some v else lookupKw n as
  | .pos _ :: as => lookupKw n as

/-- keyword phase of Python's binding: by name, else the default, else `TypeError` -/
def bindKw (as : List Arg) : List Param → Option (List (Name × Val))
  | [] => some []
  | p :: ps =>
    match lookupKw p.name as, p.dflt with
    | some v, _ => (bindKw as ps).map (fun env => (p.name, v) :: env)
    | none, some d => (bindKw as ps).map (fun env => (p.name, d) :: env)
    | none, none => none

/-- positional phase, then the keyword phase -/
def bindArgs : List Param → List Arg → Option (List (Name × Val))
  | p :: ps, .pos v :: as => (bindArgs ps as).map (fun env => (p.name, v) :: env)
  | [], .pos _ :: _ => none
  | ps, as => bindKw as ps

/-- what the reconstructed object must hold -/
def expected (fields : Name → Option Val) : List Param → Option (List (Name × Val))
  | [] => some []
  | p :: ps =>
    match fields p.name, p.dflt with
    | some v, _ => (expected fields ps).map (fun env => (p.name, v) :: env)
    | none, some d => (expected fields ps).map (fun env => (p.name, d) :: env)
    | none, none => none

def Distinct : List Param → Prop
  | [] => True
  | p :: ps => (∀ q ∈ ps, q.name ≠ p.name) ∧ Distinct ps

def KwOf (ps : List Param) (a : Arg) : Prop := ∃ n v, a = .kw n v ∧ ∃ p ∈ ps, p.name = n

theorem emit_false_kw (fields : Name → Option Val) (ps : List Param) (as : List Arg)
    (h : emit fields false ps = some as) : ∀ a ∈ as, KwOf ps a := by
  induction ps generalizing as with
  | nil => simp [emit] at h; subst h; simp
  | cons p ps ih =>
    simp only [emit] at h
    cases hf : fields p.name with
    | some v =>
      simp only [hf, Option.map_eq_some_iff] at h
      obtain ⟨as', has', rfl⟩ := h
      intro a ha
      rcases List.mem_cons.1 ha with rfl | ha
      · exact ⟨p.name, v, by simp, p, by simp, rfl⟩
      · obtain ⟨n, v', e, q, hq, hn⟩ := ih as' has' a ha
        exact ⟨n, v', e, q, by simp [hq], hn⟩
    | none =>
      simp only [hf] at h
      cases hd : p.dflt with
      | some d =>
        simp only [hd] at h
        intro a ha
        obtain ⟨n, v', e, q, hq, hn⟩ := ih as h a ha
        exact ⟨n, v', e, q, by simp [hq], hn⟩
      | none => simp [hd] at h

theorem lookupKw_append (n : Name) (pre as : List Arg) (h : ∀ a ∈ pre, ∃ m v, a = .kw m v ∧ m ≠ n) :
    lookupKw n (pre ++ as) = lookupKw n as := by
  induction pre with
  | nil => rfl
  | cons a pre ih =>
    obtain ⟨m, v, rfl, hm⟩ := h a (by simp)
    simp [lookupKw, hm, ih (fun b hb => h b (by simp [hb]))]

theorem lookupKw_none (n : Name) (as : List Arg) (h : ∀ a ∈ as, ∃ m v, a = .kw m v ∧ m ≠ n) : lookupKw n as = none := by
  have := lookupKw_append n as [] h
  simpa [lookupKw] using this

/-- keyword phase on a keyword-only list produced by `emit … false`, possibly after keywords of earlier parameters -/
theorem bindKw_emit_false (fields : Name → Option Val) (ps : List Param) (hd : Distinct ps) (as pre : List Arg)
    (h : emit fields false ps = some as)
    (hpre : ∀ a ∈ pre, ∃ m v, a = .kw m v ∧ ∀ p ∈ ps, p.name ≠ m) :
    bindKw (pre ++ as) ps = expected fields ps := by
  induction ps generalizing as pre with
  | nil => rfl
  | cons p ps ih =>
    obtain ⟨hne, hd'⟩ := hd
    have hpre_p : ∀ a ∈ pre, ∃ m v, a = .kw m v ∧ m ≠ p.name := by
      intro a ha; obtain ⟨m, v, e, hm⟩ := hpre a ha
      exact ⟨m, v, e, fun e' => hm p (by simp) e'.symm⟩
    simp only [emit] at h
    cases hf : fields p.name with
    | some v =>
      simp only [hf, Option.map_eq_some_iff, Bool.false_eq_true, if_false] at h
      obtain ⟨as', has', rfl⟩ := h
      have hl : lookupKw p.name (pre ++ Arg.kw p.name v :: as') = some v := by
        rw [lookupKw_append _ _ _ hpre_p]; simp [lookupKw]
      have ih' := ih hd' as' (pre ++ [Arg.kw p.name v]) has' (by
        intro a ha
        rcases List.mem_append.1 ha with ha | ha
        · obtain ⟨m, v', e, hm⟩ := hpre a ha
          exact ⟨m, v', e, fun q hq => hm q (by simp [hq])⟩
        · simp at ha; exact ⟨p.name, v, ha, fun q hq => hne q hq⟩)
      simp only [List.append_assoc, List.singleton_append] at ih'
      simp only [bindKw, expected, hl, hf, ih']
    | none =>
      simp only [hf] at h
      cases hdf : p.dflt with
      | none => simp [hdf] at h
      | some d =>
        simp only [hdf] at h
        have hkw := emit_false_kw fields ps as h
        have hl : lookupKw p.name (pre ++ as) = none := by
          rw [lookupKw_append _ _ _ hpre_p]
          apply lookupKw_none
          intro a ha
          obtain ⟨n, v, e, q, hq, hn⟩ := hkw a ha
          exact ⟨n, v, e, fun e' => hne q hq (hn.trans e')⟩
        have ih' := ih hd' as pre h (fun a ha => by
          obtain ⟨m, v', e, hm⟩ := hpre a ha
          exact ⟨m, v', e, fun q hq => hm q (by simp [hq])⟩)
        simp only [bindKw, expected, hl, hf, hdf, ih']

theorem bind_kw_only (ps : List Param) (as : List Arg) (h : ∀ a ∈ as, ∃ n v, a = Arg.kw n v) :
    bindArgs ps as = bindKw as ps := by
  cases as with
  | nil => cases ps <;> rfl
  | cons a as =>
    obtain ⟨n, v, rfl⟩ := h a (by simp)
    cases ps <;> rfl

/-- C15 `eval_repr`: binding the emitted arguments rebuilds exactly the expected fields -/
theorem bind_emit (fields : Name → Option Val) (ps : List Param) (hd : Distinct ps) (as : List Arg)
    (h : emit fields true ps = some as) : bindArgs ps as = expected fields ps := by
  induction ps generalizing as with
  | nil => simp [emit] at h; subst h; rfl
  | cons p ps ih =>
    obtain ⟨hne, hd'⟩ := hd
    simp only [emit] at h
    cases hf : fields p.name with
    | some v =>
      simp only [hf, Option.map_eq_some_iff, if_true] at h
      obtain ⟨as', has', rfl⟩ := h
      simp only [bindArgs, expected, hf, ih hd' as' has']
    | none =>
      simp only [hf] at h
      cases hdf : p.dflt with
      | none => simp [hdf] at h
      | some d =>
        simp only [hdf] at h
        have hkw := emit_false_kw fields ps as h
        rw [bind_kw_only _ _ (fun a ha => by obtain ⟨n, v, e, _⟩ := hkw a ha; exact ⟨n, v, e⟩)]
        have hl : lookupKw p.name as = none := by
          apply lookupKw_none
          intro a ha
          obtain ⟨n, v, e, q, hq, hn⟩ := hkw a ha
          exact ⟨n, v, e, fun e' => hne q hq (hn.trans e')⟩
        have := bindKw_emit_false fields ps hd' as [] h (by simp)
        simp only [List.nil_append] at this
        simp only [bindKw, expected, hl, hf, hdf, this]

/-- `emit` fails exactly when a required parameter is missing from the fields -/
theorem emit_none_iff (fields : Name → Option Val) (b : Bool) (ps : List Param) :
    emit fields b ps = none ↔ ∃ p ∈ ps, fields p.name = none ∧ p.dflt = none := by
  induction ps generalizing b with
  | nil => simp [emit]
  | cons p ps ih =>
    simp only [emit]
    cases hf : fields p.name with
    | some v => simp [ih, hf]
    | none =>
      cases hdf : p.dflt with
      | none => simp [hf, hdf]
      | some d => simp [ih, hf, hdf]

#print axioms bind_emit
#print axioms emit_none_iff
-- Triangle('t', 0, 0.5, 1) with height dropped; RuleBlock(name=…, conjunction=…) with description/enabled dropped
#eval emit (fun n => if n < 4 then some (n + 10) else none) true [⟨0, none⟩, ⟨1, some 0⟩, ⟨2, some 0⟩, ⟨3, some 0⟩, ⟨4, some 1⟩]
#eval emit (fun n => if n = 0 ∨ n = 3 then some (n + 10) else none) true [⟨0, some 0⟩, ⟨1, some 0⟩, ⟨2, some 1⟩, ⟨3, some 0⟩]
