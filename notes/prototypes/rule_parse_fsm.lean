/-! Feasibility prototype for C16: the five-state machine of `Rule.parse` accepts exactly
    `if A… then C… [with w]` with non-empty A (no `then` inside) and C (no `with` inside), numeric w, nothing after.
    Core Lean. -/

inductive Tok where
  | kif | kthen | kwith | num (w : Nat) | word (n : Nat)
deriving DecidableEq, Repr

inductive Err | syntax | value
deriving DecidableEq, Repr

structure Parsed where
  ante : List Tok
  cons : List Tok
  weight : Option Nat      -- none = default 1.0
deriving DecidableEq, Repr

inductive St | begin | inIf | inThen | inWith | done
deriving DecidableEq, Repr

/-- the loop of `Rule.parse` -/
def go : St → List Tok → List Tok → Option Nat → List Tok → Except Err (St × List Tok × List Tok × Option Nat)
  | s, a, c, w, [] => .ok (s, a, c, w)
  | .begin, a, c, w, t :: ts => if t = .kif then go .inIf a c w ts else .error .syntax
  | .inIf, a, c, w, t :: ts => if t = .kthen then go .inThen a c w ts else go .inIf (a ++ [t]) c w ts
  | .inThen, a, c, w, t :: ts => if t = .kwith then go .inWith a c w ts else go .inThen a (c ++ [t]) w ts
  | .inWith, a, c, _, t :: ts => match t with
      | .num v => go .done a c (some v) ts
      | _ => .error .value                      -- float(token) raises ValueError
  | .done, _, _, _, _ :: _ => .error .syntax

def parse (ts : List Tok) : Except Err Parsed :=
  match go .begin [] [] none ts with
  | .error e => .error e
  | .ok (s, a, c, w) =>
    if s = .begin ∨ s = .inIf ∨ s = .inWith then .error .syntax
    else if a = [] ∨ c = [] then .error .syntax
    else .ok ⟨a, c, w⟩

/-- printer (`Rule.text`) -/
def wtail : Option Nat → List Tok
  | none => []
  | some w => [.kwith, .num w]
def text (p : Parsed) : List Tok := .kif :: (p.ante ++ .kthen :: (p.cons ++ wtail p.weight))

def WF (p : Parsed) : Prop := p.ante ≠ [] ∧ p.cons ≠ [] ∧ Tok.kthen ∉ p.ante ∧ Tok.kwith ∉ p.cons

theorem go_inIf (a0 a c : List Tok) (w : Option Nat) (rest : List Tok) (h : Tok.kthen ∉ a) :
    go .inIf a0 c w (a ++ .kthen :: rest) = go .inThen (a0 ++ a) c w rest := by
  induction a generalizing a0 with
  | nil => simp [go]
  | cons t a ih =>
    have ht : t ≠ .kthen := fun e => h (by simp [e])
    simp only [List.cons_append, go, ht, if_false]
    rw [ih _ (fun hm => h (by simp [hm]))]; simp

theorem go_inThen (a c0 c : List Tok) (w : Option Nat) (rest : List Tok) (h : Tok.kwith ∉ c) :
    go .inThen a c0 w (c ++ rest) = go .inThen a (c0 ++ c) w rest := by
  induction c generalizing c0 with
  | nil => simp
  | cons t c ih =>
    have ht : t ≠ .kwith := fun e => h (by simp [e])
    simp only [List.cons_append, go, ht, if_false]
    rw [ih _ (fun hm => h (by simp [hm]))]; simp

/-- every well-formed rule is accepted and parsed back to itself -/
theorem parse_text (p : Parsed) (h : WF p) : parse (text p) = .ok p := by
  obtain ⟨ha, hc, hat, hcw⟩ := h
  obtain ⟨a, c, w⟩ := p
  simp only at ha hc hat hcw
  unfold parse text
  simp only [go, if_true]
  rw [go_inIf [] a [] none _ hat, go_inThen _ [] c none _ hcw]
  cases w with
  | none => simp [wtail, go, ha, hc]
  | some v => simp [wtail, go, ha, hc]

/-- single injected errors are rejected, for every rule -/
theorem reject_missing_if (ts : List Tok) (t : Tok) (h : t ≠ .kif) : parse (t :: ts) = .error .syntax := by
  simp [parse, go, h]

theorem reject_missing_then (a : List Tok) (h : Tok.kthen ∉ a) : parse (.kif :: a) = .error .syntax := by
  have : ∀ a0, go .inIf a0 [] none a = .ok (.inIf, a0 ++ a, [], none) := by
    induction a with
    | nil => intro a0; simp [go]
    | cons t a ih =>
      intro a0
      have ht : t ≠ .kthen := fun e => h (by simp [e])
      simp only [go, ht, if_false]; rw [ih (fun hm => h (by simp [hm]))]; simp
  simp [parse, go, this]

theorem reject_trailing (p : Parsed) (h : WF p) (v : Nat) (hw : p.weight = some v) (t : Tok) :
    parse (text p ++ [t]) = .error .syntax := by
  obtain ⟨ha, hc, hat, hcw⟩ := h
  obtain ⟨a, c, w⟩ := p
  simp only at ha hc hat hcw hw; subst hw
  unfold parse text
  simp only [List.cons_append, List.append_assoc, go, if_true]
  rw [go_inIf [] a [] none _ hat, go_inThen _ [] c none _ hcw]
  simp [wtail, go]

theorem reject_bad_weight (p : Parsed) (h : WF p) (n : Nat) :
    parse (.kif :: (p.ante ++ .kthen :: (p.cons ++ [.kwith, .word n]))) = .error .value := by
  obtain ⟨ha, hc, hat, hcw⟩ := h
  unfold parse
  simp only [go, if_true]
  rw [go_inIf [] p.ante [] none _ hat, go_inThen _ [] p.cons none _ hcw]
  simp [go]

theorem reject_missing_weight (p : Parsed) (h : WF p) :
    parse (.kif :: (p.ante ++ .kthen :: (p.cons ++ [.kwith]))) = .error .syntax := by
  obtain ⟨ha, hc, hat, hcw⟩ := h
  unfold parse
  simp only [go, if_true]
  rw [go_inIf [] p.ante [] none _ hat, go_inThen _ [] p.cons none _ hcw]
  simp [go]

#print axioms parse_text
#print axioms reject_trailing
#print axioms reject_bad_weight
