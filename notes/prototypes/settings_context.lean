/-! Feasibility prototype for C20: `Settings.context` as snapshot / set / try-finally restore of the named keys;
    arbitrary nesting, exceptions at any point, direct assignments inside.  Core Lean. -/

abbrev Key := Nat
abbrev Val := Nat
abbrev Settings := Key → Val

def upd (s : Settings) (k : Key) (v : Val) : Settings := fun k' => if k' = k then v else s k'
def setAll (s : Settings) : List (Key × Val) → Settings
  | [] => s
  | (k, v) :: kvs => setAll (upd s k v) kvs
/-- `for key in context_settings: setattr(self, key, rollback[key])` -/
def restore (s snapshot : Settings) : List (Key × Val) → Settings
  | [] => s
  | (k, _) :: kvs => restore (upd s k (snapshot k)) snapshot kvs

inductive Prog where
  | assign (k : Key) (v : Val)
  | raise
  | ctx (named : List (Key × Val)) (body : List Prog)

mutual
/-- returns the settings afterwards and whether an exception is propagating -/
def run : Prog → Settings → Settings × Bool
  | .assign k v, s => (upd s k v, false)
  | .raise, s => (s, true)
  | .ctx named body, s =>
    let r := runList body (setAll s named)      -- try: yield
    (restore r.1 s named, r.2)                  -- finally: rollback of the named keys
def runList : List Prog → Settings → Settings × Bool
  | [], s => (s, false)
  | p :: ps, s =>
    let r := run p s
    if r.2 then r else runList ps r.1
end

def named (kvs : List (Key × Val)) (k : Key) : Prop := ∃ v, (k, v) ∈ kvs

theorem restore_frame (s snap : Settings) (kvs : List (Key × Val)) (k : Key) (h : ¬ named kvs k) :
    restore s snap kvs k = s k := by
  induction kvs generalizing s with
  | nil => rfl
  | cons kv kvs ih =>
    obtain ⟨k', v'⟩ := kv
    have hne : k ≠ k' := by intro e; exact h ⟨v', by simp [e]⟩
    simp only [restore]
    rw [ih _ (fun ⟨v, hv⟩ => h ⟨v, by simp [hv]⟩)]
    simp [upd, hne]

theorem restore_named (s snap : Settings) (kvs : List (Key × Val)) (k : Key) (h : named kvs k) :
    restore s snap kvs k = snap k := by
  induction kvs generalizing s with
  | nil => obtain ⟨v, hv⟩ := h; cases hv
  | cons kv kvs ih =>
    obtain ⟨k', v'⟩ := kv
    simp only [restore]
    by_cases hk : named kvs k
    · exact ih _ hk
    · obtain ⟨v, hv⟩ := h
      rcases List.mem_cons.1 hv with heq | hmem
      · cases heq
        rw [restore_frame _ snap kvs k hk]; simp [upd]
      · exact absurd ⟨v, hmem⟩ hk

/-- C20: a named setting has its previous value again when the context is left – normally or by an exception,
    whatever the body does (nested contexts, direct assignments) -/
theorem ctx_restores_named (kvs : List (Key × Val)) (body : List Prog) (s : Settings) (k : Key) (h : named kvs k) :
    (run (.ctx kvs body) s).1 k = s k := by
  simp only [run]; exact restore_named _ s kvs k h

/-- a setting that is not named is exactly what the body left in it -/
theorem ctx_frame (kvs : List (Key × Val)) (body : List Prog) (s : Settings) (k : Key) (h : ¬ named kvs k) :
    (run (.ctx kvs body) s).1 k = (runList body (setAll s kvs)).1 k := by
  simp only [run]; exact restore_frame _ s kvs k h

/-- the exception keeps propagating -/
theorem ctx_propagates (kvs : List (Key × Val)) (body : List Prog) (s : Settings) :
    (run (.ctx kvs body) s).2 = (runList body (setAll s kvs)).2 := by simp only [run]

#print axioms ctx_restores_named
#print axioms ctx_frame
