/-! Feasibility prototype for C01 / C13: the wiring of `Engine.process` with General activation.
    Numeric content (antecedent evaluation, hedges, defuzzification) is abstract; the theorems are about the loops.
    Core Lean. -/

variable {I D : Type}

/-- one activated term: (output variable, term, degree) -/
abbrev Fz (D : Type) := List (Nat × Nat × D)

structure Rule (I D : Type) where
  enabled : Bool
  loaded : Bool
  deg : I → Fz D → D          -- weight × antecedent; may read the fuzzy outputs accumulated so far
  concl : D → Fz D            -- activations for the enabled output variables of its conclusions

structure Block (I D : Type) where
  enabled : Bool
  rules : List (Rule I D)

/-- `General.activate`: the loop over the rules, mutating the fuzzy outputs -/
def opRules (inp : I) : List (Rule I D) → Fz D → Fz D
  | [], fz => fz
  | r :: rs, fz =>
    if r.loaded then
      let d := r.deg inp fz                                  -- activate_with
      opRules inp rs (if r.enabled then fz ++ r.concl d else fz)  -- trigger
    else opRules inp rs fz

/-- `Engine.process` up to defuzzification: clear, then the enabled blocks in order -/
def opProcess (inp : I) (blocks : List (Block I D)) (_stale : Fz D) : Fz D :=
  blocks.foldl (fun fz b => if b.enabled then opRules inp b.rules fz else fz) []

/-- the documented pipeline: contributions of the rules, each evaluated against the contributions before it -/
def specRules (inp : I) : List (Rule I D) → Fz D → Fz D
  | [], _ => []
  | r :: rs, pre =>
    let c := if r.loaded && r.enabled then r.concl (r.deg inp pre) else []
    c ++ specRules inp rs (pre ++ c)

def specBlocks (inp : I) : List (Block I D) → Fz D → Fz D
  | [], _ => []
  | b :: bs, pre =>
    let c := if b.enabled then specRules inp b.rules pre else []
    c ++ specBlocks inp bs (pre ++ c)

theorem opRules_eq_spec (inp : I) (rs : List (Rule I D)) (fz : Fz D) :
    opRules inp rs fz = fz ++ specRules inp rs fz := by
  induction rs generalizing fz with
  | nil => simp [opRules, specRules]
  | cons r rs ih =>
    simp only [opRules, specRules]
    cases hl : r.loaded <;> cases he : r.enabled <;> simp [ih, List.append_assoc]

theorem foldl_eq_spec (inp : I) (bs : List (Block I D)) (fz : Fz D) :
    bs.foldl (fun fz b => if b.enabled then opRules inp b.rules fz else fz) fz = fz ++ specBlocks inp bs fz := by
  induction bs generalizing fz with
  | nil => simp [specBlocks]
  | cons b bs ih =>
    simp only [List.foldl, specBlocks]
    cases hb : b.enabled
    · simp only [Bool.false_eq_true, if_false, List.nil_append, List.append_nil]; exact ih fz
    · simp only [if_true]; rw [ih, opRules_eq_spec]; simp [List.append_assoc]

/-- C01 `process_eq_pipeline` (wiring) and C13 history-freeness of the fuzzy outputs: whatever was left from
    earlier steps, the fuzzy outputs after `process` are the documented contributions for the current inputs -/
theorem process_eq_pipeline (inp : I) (bs : List (Block I D)) (stale : Fz D) :
    opProcess inp bs stale = specBlocks inp bs [] := by
  unfold opProcess; simpa using foldl_eq_spec inp bs []

theorem process_history_free (inp : I) (bs : List (Block I D)) (s s' : Fz D) :
    opProcess inp bs s = opProcess inp bs s' := by
  rw [process_eq_pipeline, process_eq_pipeline]

/-- a disabled rule contributes nothing and influences nothing (General activation) -/
theorem disabled_rule_noop (inp : I) (pre post : List (Rule I D)) (r : Rule I D) (hr : r.enabled = false)
    (fz : Fz D) : specRules inp (pre ++ r :: post) fz = specRules inp (pre ++ post) fz := by
  induction pre generalizing fz with
  | nil => simp [specRules, hr]
  | cons p pre ih => simp only [List.cons_append, specRules]; rw [ih]

theorem disabled_block_noop (inp : I) (pre post : List (Block I D)) (b : Block I D) (hb : b.enabled = false)
    (fz : Fz D) : specBlocks inp (pre ++ b :: post) fz = specBlocks inp (pre ++ post) fz := by
  induction pre generalizing fz with
  | nil => simp [specBlocks, hb]
  | cons p pre ih => simp only [List.cons_append, specBlocks]; rw [ih]

/-- "an output variable used in an antecedent sees exactly the contributions accumulated so far":
    the k-th rule's degree is evaluated on the contributions of the rules before it -/
theorem antecedent_sees_prefix (inp : I) (pre : List (Rule I D)) (r : Rule I D) (post : List (Rule I D)) (fz : Fz D)
    (hl : r.loaded = true) (he : r.enabled = true) :
    specRules inp (pre ++ r :: post) fz
      = specRules inp pre fz ++ r.concl (r.deg inp (fz ++ specRules inp pre fz))
        ++ specRules inp post (fz ++ specRules inp pre fz ++ r.concl (r.deg inp (fz ++ specRules inp pre fz))) := by
  induction pre generalizing fz with
  | nil => simp [specRules, hl, he]
  | cons p pre ih =>
    simp only [List.cons_append, specRules]
    rw [ih]
    simp [List.append_assoc]

#print axioms process_eq_pipeline
#print axioms antecedent_sees_prefix
#print axioms disabled_rule_noop
