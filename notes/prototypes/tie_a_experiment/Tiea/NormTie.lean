import Tiea.XAlg
import Tiea.NormSpec
import Tiea.NormGen
import Mathlib.Tactic.Ring
import Mathlib.Tactic.Linarith

/-! Tie A: the definitions regenerated from the code equal the documented formulas on [0,1]². -/

variable {α : Type} [Field α] [LinearOrder α] [IsStrictOrderedRing α]
open X

/-- one script for every norm: unfold, push `fin` through, discharge the denominators -/
macro "tie_norm" : tactic => `(tactic|
  (simp only [add_fin, sub_fin, mul_fin, npmin_fin, npmax_fin, lt_fin, le_fin, eq_fin, ne_fin, sq_fin, sel_decide]
   first | rfl | (congr 1; ring1) | (congr 1; grind [min_def, max_def]) | skip))

theorem tie_AlgebraicProduct (a b : α) : Gen.AlgebraicProduct (fin a) (fin b) = fin (tnorm .algebraicProduct a b) := by
  unfold Gen.AlgebraicProduct tnorm; tie_norm
theorem tie_BoundedDifference (a b : α) : Gen.BoundedDifference (fin a) (fin b) = fin (tnorm .boundedDifference a b) := by
  unfold Gen.BoundedDifference tnorm; tie_norm
theorem tie_DrasticProduct (a b : α) : Gen.DrasticProduct (fin a) (fin b) = fin (tnorm .drasticProduct a b) := by
  unfold Gen.DrasticProduct tnorm drastic; tie_norm
theorem tie_Minimum (a b : α) : Gen.Minimum (fin a) (fin b) = fin (tnorm .minimum a b) := by
  unfold Gen.Minimum tnorm; tie_norm
theorem tie_NilpotentMinimum (a b : α) : Gen.NilpotentMinimum (fin a) (fin b) = fin (tnorm .nilpotentMinimum a b) := by
  unfold Gen.NilpotentMinimum tnorm; tie_norm
theorem tie_EinsteinProduct {a b : α} (ha : I a) (hb : I b) :
    Gen.EinsteinProduct (fin a) (fin b) = fin (tnorm .einsteinProduct a b) := by
  unfold Gen.EinsteinProduct tnorm; tie_norm
  exact div_fin _ _ (einstein_den_pos ha hb).ne'
theorem tie_HamacherProduct {a b : α} (ha : I a) (hb : I b) :
    Gen.HamacherProduct (fin a) (fin b) = fin (tnorm .hamacherProduct a b) := by
  unfold Gen.HamacherProduct tnorm; tie_norm
  by_cases h : a + b ≠ 0
  · rw [div_fin _ _ (hamacher_den_pos ha hb h).ne']; simp [h]
  · simp [h]

theorem tie_AlgebraicSum (a b : α) : Gen.AlgebraicSum (fin a) (fin b) = fin (snorm .algebraicSum a b) := by
  unfold Gen.AlgebraicSum snorm; tie_norm
theorem tie_BoundedSum (a b : α) : Gen.BoundedSum (fin a) (fin b) = fin (snorm .boundedSum a b) := by
  unfold Gen.BoundedSum snorm; tie_norm
theorem tie_DrasticSum (a b : α) : Gen.DrasticSum (fin a) (fin b) = fin (snorm .drasticSum a b) := by
  unfold Gen.DrasticSum snorm; tie_norm
theorem tie_Maximum (a b : α) : Gen.Maximum (fin a) (fin b) = fin (snorm .maximum a b) := by
  unfold Gen.Maximum snorm; tie_norm
theorem tie_NilpotentMaximum (a b : α) : Gen.NilpotentMaximum (fin a) (fin b) = fin (snorm .nilpotentMaximum a b) := by
  unfold Gen.NilpotentMaximum snorm; tie_norm
theorem tie_UnboundedSum (a b : α) : Gen.UnboundedSum (fin a) (fin b) = fin (snorm .unboundedSum a b) := by
  unfold Gen.UnboundedSum snorm; tie_norm
theorem tie_EinsteinSum {a b : α} (ha : I a) (hb : I b) :
    Gen.EinsteinSum (fin a) (fin b) = fin (snorm .einsteinSum a b) := by
  unfold Gen.EinsteinSum snorm; tie_norm
  have : (0 : α) < 1 + a * b := by nlinarith [mul_nonneg ha.1 hb.1]
  exact div_fin _ _ this.ne'
theorem tie_HamacherSum {a b : α} (ha : I a) (hb : I b) :
    Gen.HamacherSum (fin a) (fin b) = fin (snorm .hamacherSum a b) := by
  unfold Gen.HamacherSum snorm; tie_norm
  by_cases h : a * b ≠ 1
  · have hd : (1 : α) - a * b ≠ 0 := sub_ne_zero.2 (Ne.symm h)
    rw [div_fin _ _ hd]; simp [h]
  · simp [h]
theorem tie_NormalizedSum {a b : α} (ha : I a) (hb : I b) :
    Gen.NormalizedSum (fin a) (fin b) = fin (snorm .normalizedSum a b) := by
  unfold Gen.NormalizedSum snorm; tie_norm
  have : (0 : α) < max 1 (a + b) := lt_of_lt_of_le one_pos (le_max_left _ _)
  exact div_fin _ _ this.ne'

/-- NaN behaviour of the code, read off the regenerated definitions (needed by the engine model) -/
theorem gen_Minimum_nan (b : X α) : Gen.Minimum nan b = nan := by cases b <;> rfl
theorem gen_NilpotentMinimum_nan (b : α) : Gen.NilpotentMinimum nan (fin b) = (fin 0 : X α) := by
  simp [Gen.NilpotentMinimum, add, lt, le, sel]
theorem gen_DrasticProduct_nan (b : α) : Gen.DrasticProduct nan (fin b) = (fin 0 : X α) := by
  simp [Gen.DrasticProduct, npmax, X.eq, sel]

#print axioms tie_HamacherSum
#print axioms tie_DrasticProduct
