import Tiea.XAlg
import Tiea.TermGen
import Mathlib.Tactic.Ring
import Mathlib.Tactic.Linarith
import Mathlib.Tactic.FieldSimp

/-! Tie A for terms (sample): regenerated membership functions equal the documented closed forms. -/

variable {α : Type} [Field α] [LinearOrder α] [IsStrictOrderedRing α]
open X

namespace Spec
def rectangle (s e h x : α) : α := if min s e ≤ x ∧ x ≤ max s e then h else 0
def ramp (s e h x : α) : α :=
  if s < e then (if x ≤ s then 0 else if x < e then h * ((x - s) / (e - s)) else h)
  else (if x ≥ s then 0 else if e < x then h * ((s - x) / (s - e)) else h)     -- e < s
def rampTsukamoto (s e h y : α) : α := s + (e - s) * y / h
end Spec

theorem tie_Rectangle (F : Fn α) (s e h x : α) :
    Gen.Rectangle_membership F (fin s) (fin e) (fin h) (fin x) = fin (Spec.rectangle s e h x) := by
  unfold Gen.Rectangle_membership Spec.rectangle
  simp only [lt_fin, le_fin, isnan, sel_false, mul_fin, mul_one, ofBool, decide_eq_true_eq]
  rcases lt_trichotomy s e with h1 | h1 | h1
  · have h2 : ¬ e < s := not_lt.2 h1.le
    simp only [h1, h2, if_true, if_false, min_eq_left h1.le, max_eq_right h1.le]
    by_cases hx : s ≤ x ∧ x ≤ e <;> simp [hx]
  · subst h1
    simp only [lt_irrefl, if_false, min_self, max_self]
    by_cases hx : s ≤ x ∧ x ≤ s <;> simp [hx]
  · have h2 : ¬ s < e := not_lt.2 h1.le
    simp only [h1, h2, if_true, if_false, min_eq_right h1.le, max_eq_left h1.le]
    by_cases hx : e ≤ x ∧ x ≤ s <;> simp [hx]

theorem tie_Ramp_nan (F : Fn α) (s e h : α) : Gen.Ramp_membership F (fin s) (fin e) (fin h) nan = nan := by
  simp [Gen.Ramp_membership, isnan, sel]

theorem tie_Ramp_tsukamoto (F : Fn α) (s e h y : α) (hh : h ≠ 0) :
    Gen.Ramp_tsukamoto F (fin s) (fin e) (fin h) (fin y) = fin (Spec.rampTsukamoto s e h y) := by
  unfold Gen.Ramp_tsukamoto Spec.rampTsukamoto
  simp only [sub_fin, mul_fin, div_fin _ _ hh, add_fin]

theorem tie_Ramp (F : Fn α) (s e h x : α) (hse : s ≠ e) :
    Gen.Ramp_membership F (fin s) (fin e) (fin h) (fin x) = fin (Spec.ramp s e h x) := by
  unfold Gen.Ramp_membership Spec.ramp
  rcases lt_or_gt_of_ne hse with h1 | h1
  · have h2 : ¬ e < s := not_lt.2 h1.le
    have hd : e - s ≠ 0 := sub_ne_zero.2 (Ne.symm hse)
    simp only [lt_fin, le_fin, isnan, sub_fin, div_fin _ _ hd, h1, h2, decide_true, decide_false, Bool.false_or,
      Bool.true_and, Bool.false_and, Bool.or_false, Bool.and_false, sel_false, if_true]
    by_cases hx1 : x ≤ s
    · have : ¬ s < x := not_lt.2 hx1
      have h3 : ¬ e ≤ x := not_le.2 (lt_of_le_of_lt hx1 h1)
      simp [hx1, this, h3, ofBool, sel]
    · have hx1' : s < x := not_le.1 hx1
      by_cases hx2 : x < e
      · simp [hx1, hx1', hx2, sel]
      · have : e ≤ x := not_lt.1 hx2
        simp [hx1, hx2, this, ofBool, sel]
  · have h2 : ¬ s < e := not_lt.2 h1.le
    have hd : s - e ≠ 0 := sub_ne_zero.2 hse
    simp only [lt_fin, le_fin, isnan, sub_fin, div_fin _ _ hd, h1, h2, decide_true, decide_false, Bool.false_or,
      Bool.true_and, Bool.false_and, Bool.or_false, Bool.and_false, sel_false, if_false, ge_iff_le]
    by_cases hx1 : s ≤ x
    · have : ¬ x < s := not_lt.2 hx1
      have h3 : ¬ x ≤ e := not_le.2 (lt_of_lt_of_le h1 hx1)
      simp [hx1, this, h3, ofBool, sel]
    · have hx1' : x < s := not_le.1 hx1
      by_cases hx2 : e < x
      · simp [hx1, hx1', hx2, sel]
      · have : x ≤ e := not_lt.1 hx2
        simp [hx1, hx2, this, ofBool, sel]

#print axioms tie_Rectangle
#print axioms tie_Ramp
