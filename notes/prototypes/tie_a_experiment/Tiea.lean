import Tiea.XAlg
import Tiea.NormSpec
import Tiea.NormGen
import Tiea.NormTie
