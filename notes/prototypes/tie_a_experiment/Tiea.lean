import Tiea.XAlg
import Tiea.NormSpec
import Tiea.NormGen
import Tiea.NormTie
import Tiea.TermGen
import Tiea.TermTie
