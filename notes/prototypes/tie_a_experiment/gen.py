"""Tie-A experiment: trace Norm.compute / Hedge.hedge of the live library and emit Lean definitions over `X α`."""
import sys
import numpy as np
import fuzzylite as fl
import fuzzylite.norm, fuzzylite.hedge, fuzzylite.term
from fractions import Fraction


class Ctx:
    decisions = []
    pos = 0


class Sym:
    __array_priority__ = 1000

    def __init__(s, op, *args):
        s.op = op
        s.args = args

    @staticmethod
    def lift(x):
        if isinstance(x, Sym):
            return x
        if isinstance(x, (bool, np.bool_)):
            return Sym("constb", bool(x))
        if isinstance(x, (int, float, np.floating, np.integer)):
            return Sym("const", float(x))
        if isinstance(x, np.ndarray) and x.ndim == 0:
            return Sym.lift(x.item())
        raise TypeError(f"cannot lift {type(x)} {x!r}")

    def _b(op):
        def f(s, o):
            return Sym(op, s, Sym.lift(o))

        def r(s, o):
            return Sym(op, Sym.lift(o), s)

        return f, r

    __add__, __radd__ = _b("add")
    __sub__, __rsub__ = _b("sub")
    __mul__, __rmul__ = _b("mul")
    __truediv__, __rtruediv__ = _b("div")
    __pow__, __rpow__ = _b("pow")
    __and__, __rand__ = _b("and")
    __or__, __ror__ = _b("or")

    def __lt__(s, o): return Sym("lt", s, Sym.lift(o))
    def __le__(s, o): return Sym("le", s, Sym.lift(o))
    def __gt__(s, o): return Sym("lt", Sym.lift(o), s)
    def __ge__(s, o): return Sym("le", Sym.lift(o), s)
    def __eq__(s, o): return Sym("eq", s, Sym.lift(o))
    def __ne__(s, o): return Sym("ne", s, Sym.lift(o))
    __hash__ = object.__hash__
    def __neg__(s): return Sym("neg", s)
    def __abs__(s): return Sym("abs", s)
    def __invert__(s): return Sym("not", s)

    def __bool__(s):
        if Ctx.pos < len(Ctx.decisions):
            d = Ctx.decisions[Ctx.pos][1]
        else:
            Ctx.decisions.append([s, True]); d = True
        Ctx.decisions[Ctx.pos][0] = s
        Ctx.pos += 1
        return d

    UF = {"add": "add", "subtract": "sub", "multiply": "mul", "true_divide": "div", "divide": "div",
          "maximum": "npmax", "minimum": "npmin", "sqrt": "sqrt", "exp": "exp", "log": "log", "cos": "cos",
          "square": "square", "absolute": "abs", "fabs": "abs", "isnan": "isnan", "isfinite": "isfinite",
          "power": "pow", "float_power": "pow", "negative": "neg", "less": "lt", "less_equal": "le",
          "greater": "gt", "greater_equal": "ge", "equal": "eq", "not_equal": "ne", "logical_and": "and",
          "logical_or": "or", "bitwise_and": "and", "bitwise_or": "or", "logical_not": "not"}

    def __array_ufunc__(s, ufunc, method, *inputs, **kw):
        if method != "__call__":
            return NotImplemented
        name = ufunc.__name__
        if name not in Sym.UF:
            raise TypeError("unsupported ufunc " + name)
        op = Sym.UF[name]
        args = [Sym.lift(i) for i in inputs]
        if op == "gt": return Sym("lt", args[1], args[0])
        if op == "ge": return Sym("le", args[1], args[0])
        return Sym(op, *args)

    def __array_function__(s, func, types, args, kwargs):
        name = func.__name__
        if name == "where":
            return Sym("ite", *[Sym.lift(a) for a in args])
        if name == "full_like":
            return Sym.lift(args[1] if len(args) > 1 else kwargs["fill_value"])
        raise TypeError("unsupported array function " + name)


def sym_scalar(x, **kw):
    if isinstance(x, Sym):
        return x
    return np.asarray(x, dtype=np.float64, **kw)


for m in (fuzzylite.norm, fuzzylite.hedge, fuzzylite.term):
    m.scalar = sym_scalar


def paths(f):
    Ctx.decisions = []
    out = []
    while True:
        Ctx.pos = 0
        r = f()
        out.append(([(c, d) for c, d in Ctx.decisions[: Ctx.pos]], r))
        Ctx.decisions = Ctx.decisions[: Ctx.pos]
        while Ctx.decisions and Ctx.decisions[-1][1] is False:
            Ctx.decisions.pop()
        if not Ctx.decisions:
            break
        Ctx.decisions[-1][1] = False
    return out


BOOL_OPS = {"lt", "le", "eq", "ne", "and", "or", "not", "isnan", "isfinite", "constb"}


def ty(e):
    if e.op in BOOL_OPS:
        return "B"
    if e.op == "ite":
        return "B" if ty(e.args[1]) == "B" and ty(e.args[2]) == "B" else "F"
    return "F"


def num(c):
    if c != c: return "X.nan"
    if c == float("inf"): return "X.pinf"
    if c == float("-inf"): return "X.ninf"
    fr = Fraction(c)
    return f"(X.fin ({fr.numerator} : α))" if fr.denominator == 1 else f"(X.fin (({fr.numerator} : α) / {fr.denominator}))"


def emitF(e):
    """emit an X α valued expression"""
    if ty(e) == "B":
        return f"(X.ofBool {emitB(e)})"
    o, a = e.op, e.args
    if o == "var": return a[0]
    if o == "const": return num(a[0])
    if o in ("add", "sub", "mul", "div", "npmin", "npmax"):
        return f"(X.{o} {emitF(a[0])} {emitF(a[1])})"
    if o == "pow":
        if a[1].op == "const" and a[1].args[0] == 2.0:
            return f"(X.sq {emitF(a[0])})"
        raise TypeError("pow with exponent other than 2")
    if o == "square": return f"(X.sq {emitF(a[0])})"
    if o == "neg": return f"(X.neg {emitF(a[0])})"
    if o == "ite": return f"(X.sel {emitB(a[0])} {emitF(a[1])} {emitF(a[2])})"
    raise TypeError("cannot emit " + o)


def emitB(e):
    o, a = e.op, e.args
    if o == "constb": return "true" if a[0] else "false"
    if o in ("lt", "le", "eq", "ne"): return f"(X.{o} {emitF(a[0])} {emitF(a[1])})"
    if o == "and": return f"({emitB(a[0])} && {emitB(a[1])})"
    if o == "or": return f"({emitB(a[0])} || {emitB(a[1])})"
    if o == "not": return f"(!{emitB(a[0])})"
    if o == "isnan": return f"(X.isnan {emitF(a[0])})"
    if o == "ite": return f"(if {emitB(a[0])} then {emitB(a[1])} else {emitB(a[2])})"
    raise TypeError("cannot emit bool " + o)


V = lambda n: Sym("var", n)
out = ["import Tiea.XAlg", "", "/-! GENERATED by gen.py from the live `fuzzylite.norm` / `fuzzylite.hedge` – do not edit -/", "",
       "namespace Gen", "variable {α : Type} [Field α] [LinearOrder α] [IsStrictOrderedRing α]", ""]
fm = fl.settings.factory_manager
for kind, factory in (("TNorm", fm.tnorm), ("SNorm", fm.snorm)):
    for name in sorted(factory.constructors):
        ps = paths(lambda: factory.construct(name).compute(V("a"), V("b")))
        assert len(ps) == 1, (name, ps)
        out.append(f"def {name} (a b : X α) : X α := {emitF(ps[0][1])}")
for name in ["very", "not", "extremely", "any"]:
    ps = paths(lambda: fm.hedge.construct(name).hedge(V("x")))
    assert len(ps) == 1
    out.append(f"def hedge_{name} (x : X α) : X α := {emitF(ps[0][1])}")
out += ["", "end Gen", ""]
open(sys.argv[1], "w").write("\n".join(out))
print("\n".join(out))
