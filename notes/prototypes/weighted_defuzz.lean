import Mathlib.Algebra.Order.Field.Basic
import Mathlib.Algebra.Order.Field.Rat
import Mathlib.Tactic.Ring
import Mathlib.Tactic.Linarith
import Mathlib.Tactic.FieldSimp

/-! Feasibility prototype for C10: grouping of activations by term name, weighted average / sum. -/

variable {α : Type} [Field α] [LinearOrder α] [IsStrictOrderedRing α]

/-- `Aggregated.grouped_terms`: first-occurrence order, degrees of a repeated name combined with `agg` -/
def insertGroup (agg : α → α → α) (name : Nat) (w : α) : List (Nat × α) → List (Nat × α)
  | [] => [(name, w)]
  | (n, v) :: gs => if n = name then (n, agg v w) :: gs else (n, v) :: insertGroup agg name w gs

def grouped (agg : α → α → α) (acts : List (Nat × α)) : List (Nat × α) :=
  acts.foldl (fun gs a => insertGroup agg a.1 a.2 gs) []

def sumWZ (z : Nat → α → α) : List (Nat × α) → α
  | [] => 0
  | (n, w) :: gs => w * z n w + sumWZ z gs
def sumW : List (Nat × α) → α
  | [] => 0
  | (_, w) :: gs => w + sumW gs

/-- `none` = NaN -/
def weightedAverage (z : Nat → α → α) (gs : List (Nat × α)) : Option α :=
  if sumW gs = 0 then none else some (sumWZ z gs / sumW gs)

/-- inserting a zero-degree activation into the groups changes neither sum, for every operator with identity 0 -/
theorem insert_zero_sums (agg : α → α → α) (hagg : ∀ v, agg v 0 = v) (z : Nat → α → α) (name : Nat)
    (gs : List (Nat × α)) :
    sumW (insertGroup agg name 0 gs) = sumW gs ∧ sumWZ z (insertGroup agg name 0 gs) = sumWZ z gs := by
  induction gs with
  | nil => simp [insertGroup, sumW, sumWZ]
  | cons g gs ih =>
    obtain ⟨n, v⟩ := g
    simp only [insertGroup]
    split
    · simp [sumW, sumWZ, hagg]
    · simp [sumW, sumWZ, ih.1, ih.2]

theorem average_zero_degree_noop (agg : α → α → α) (hagg : ∀ v, agg v 0 = v) (z : Nat → α → α) (name : Nat)
    (gs : List (Nat × α)) :
    weightedAverage z (insertGroup agg name 0 gs) = weightedAverage z gs := by
  unfold weightedAverage
  rw [(insert_zero_sums agg hagg z name gs).1, (insert_zero_sums agg hagg z name gs).2]

/-- a weighted average of constants lies between the smallest and the largest of them -/
theorem average_bounds (k : Nat → α) (lo hi : α) (gs : List (Nat × α))
    (hw : ∀ g ∈ gs, 0 ≤ g.2) (hk : ∀ g ∈ gs, lo ≤ k g.1 ∧ k g.1 ≤ hi) (y : α)
    (hy : weightedAverage (fun n _ => k n) gs = some y) : lo ≤ y ∧ y ≤ hi := by
  have hb : lo * sumW gs ≤ sumWZ (fun n _ => k n) gs ∧ sumWZ (fun n _ => k n) gs ≤ hi * sumW gs ∧ 0 ≤ sumW gs := by
    clear hy
    induction gs with
    | nil => simp [sumW, sumWZ]
    | cons g gs ih =>
      obtain ⟨n, w⟩ := g
      have h1 := hw (n, w) (by simp)
      have h2 := hk (n, w) (by simp)
      have ih' := ih (fun q hq => hw q (by simp [hq])) (fun q hq => hk q (by simp [hq]))
      simp only [sumW, sumWZ] at *
      refine ⟨?_, ?_, by linarith⟩
      · nlinarith [mul_nonneg h1 (sub_nonneg.2 h2.1)]
      · nlinarith [mul_nonneg h1 (sub_nonneg.2 h2.2)]
  unfold weightedAverage at hy
  split_ifs at hy with h0
  cases hy
  have hpos : 0 < sumW gs := lt_of_le_of_ne hb.2.2 (Ne.symm h0)
  exact ⟨by rw [le_div_iff₀ hpos]; exact hb.1, by rw [div_le_iff₀ hpos]; exact hb.2.1⟩

#print axioms average_zero_degree_noop
#print axioms average_bounds
#eval grouped (α := ℚ) max [(1, 1/2), (2, 1/4), (1, 3/4), (3, 0)]
