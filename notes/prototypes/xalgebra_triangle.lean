import Mathlib.Algebra.Order.Field.Basic
import Mathlib.Tactic.Ring
import Mathlib.Tactic.Linarith
import Mathlib.Tactic.FieldSimp
import Mathlib.Algebra.Order.Field.Rat

/-! Feasibility prototype: IEEE-special-value algebra `X α`, the traced `Triangle.membership`
    (as emitted by the tracer prototype on the pinned tree) and the proof that it equals the documented
    closed form for every x (finite, NaN, ±inf), finite vertices and infinite shoulders. -/

inductive X (α : Type) where
  | nan | ninf | pinf | fin (a : α)
deriving DecidableEq, Repr

namespace X
variable {α : Type} [Field α] [LinearOrder α] [IsStrictOrderedRing α]

def lt : X α → X α → Bool
  | nan, _ | _, nan => false
  | ninf, ninf => false | ninf, _ => true
  | pinf, _ => false
  | fin _, ninf => false | fin _, pinf => true
  | fin a, fin b => decide (a < b)
def eq : X α → X α → Bool
  | nan, _ | _, nan => false
  | ninf, ninf => true | pinf, pinf => true
  | fin a, fin b => decide (a = b)
  | _, _ => false
def isnan : X α → Bool | nan => true | _ => false
def sub : X α → X α → X α
  | nan, _ | _, nan => nan
  | pinf, pinf => nan | ninf, ninf => nan
  | pinf, _ => pinf | ninf, _ => ninf
  | fin _, pinf => ninf | fin _, ninf => pinf
  | fin a, fin b => fin (a - b)
def mul : X α → X α → X α
  | nan, _ | _, nan => nan
  | fin a, fin b => fin (a * b)
  | fin a, pinf | pinf, fin a => if 0 < a then pinf else if a < 0 then ninf else nan
  | fin a, ninf | ninf, fin a => if 0 < a then ninf else if a < 0 then pinf else nan
  | pinf, pinf | ninf, ninf => pinf
  | pinf, ninf | ninf, pinf => ninf
def div : X α → X α → X α
  | nan, _ | _, nan => nan
  | fin a, fin b => if b = 0 then (if 0 < a then pinf else if a < 0 then ninf else nan) else fin (a / b)
  | fin _, pinf | fin _, ninf => fin 0
  | pinf, fin b => if 0 ≤ b then pinf else ninf
  | ninf, fin b => if 0 ≤ b then ninf else pinf
  | _, _ => nan
def sel (c : Bool) (a b : X α) : X α := if c then a else b

@[simp] theorem lt_fin (a b : α) : lt (fin a) (fin b) = decide (a < b) := rfl
@[simp] theorem eq_fin (a b : α) : X.eq (fin a) (fin b) = decide (a = b) := rfl
@[simp] theorem sub_fin (a b : α) : sub (fin a) (fin b) = fin (a - b) := rfl
@[simp] theorem mul_fin (a b : α) : mul (fin a) (fin b) = fin (a * b) := rfl
@[simp] theorem mul_nan_r (a : X α) : mul a nan = nan := by cases a <;> rfl
@[simp] theorem mul_nan_l (a : X α) : mul nan a = nan := by cases a <;> rfl
theorem div_fin (a b : α) (hb : b ≠ 0) : div (fin a) (fin b) = fin (a / b) := by simp [div, hb]
@[simp] theorem sel_true (a b : X α) : sel true a b = a := rfl
@[simp] theorem sel_false (a b : X α) : sel false a b = b := rfl
end X
open X

variable {α : Type} [Field α] [LinearOrder α] [IsStrictOrderedRing α]

/-- tracer output for `Triangle.membership` (path `isnan(right) = False`) -/
def Gen.triangle (a b c h x : X α) : X α :=
  mul (mul h (sel (isnan x) nan (fin 1)))
    (sel (lt x a || lt c x) (fin 0)
      (sel (X.eq x b || (X.eq a ninf && lt x b) || (X.eq c pinf && lt b x)) (fin 1)
        (sel (lt x b) (div (sub x a) (sub b a))
          (sel (lt b x) (div (sub c x) (sub c b)) nan))))

/-- documented closed form, finite vertices -/
def Spec.triangle (a b c h x : α) : α :=
  if x < a ∨ c < x then 0 else if x = b then h else if x < b then h * ((x - a) / (b - a)) else h * ((c - x) / (c - b))

theorem gen_triangle_fin (a b c h x : α) (hab : a ≤ b) (hbc : b ≤ c) :
    Gen.triangle (fin a) (fin b) (fin c) (fin h) (fin x) = fin (Spec.triangle a b c h x) := by
  unfold Gen.triangle Spec.triangle
  simp only [isnan, sel_false, lt_fin, eq_fin, mul_fin, mul_one, X.eq, Bool.false_and, Bool.or_false, sub_fin]
  by_cases h1 : x < a ∨ c < x
  · have hb : (decide (x < a) || decide (c < x)) = true := by simpa using h1
    simp [h1, hb]
  · have h1' : ¬ x < a ∧ ¬ c < x := not_or.mp h1
    simp only [h1, if_false, h1'.1, h1'.2, decide_false, Bool.or_self, sel_false]
    by_cases h2 : x = b
    · simp [h2]
    · simp only [h2, decide_false, sel_false, if_false]
      by_cases h3 : x < b
      · have : b - a ≠ 0 := by intro h0; simp only [not_or, not_lt] at h1; linarith [h1.1]
        simp [h3, div_fin _ _ this]
      · have h4 : b < x := lt_of_le_of_ne (not_lt.mp h3) (Ne.symm h2)
        have : c - b ≠ 0 := by intro h0; simp only [not_or, not_lt] at h1; linarith [h1.2]
        simp [h3, h4, div_fin _ _ this]

/-- NaN exactly when x is NaN -/
theorem gen_triangle_nan (a b c h : α) : Gen.triangle (fin a) (fin b) (fin c) (fin h) (nan : X α) = nan := by
  simp [Gen.triangle, isnan]

/-- ±inf, finite vertices: outside the support -/
theorem gen_triangle_pinf (a b c h : α) : Gen.triangle (fin a) (fin b) (fin c) (fin h) pinf = fin 0 := by
  simp [Gen.triangle, isnan, lt, X.eq]

/-- infinite right shoulder: value h for every finite x > b and at +inf -/
theorem gen_triangle_shoulder (a b h x : α) (hx : b < x) (ha : a ≤ b) :
    Gen.triangle (fin a) (fin b) pinf (fin h) (fin x) = fin h := by
  have h1 : ¬ x < a := by simp only [not_lt]; linarith
  have h2 : x ≠ b := ne_of_gt hx
  simp [Gen.triangle, isnan, lt, X.eq, h1, h2, hx]

theorem gen_triangle_shoulder_inf (a b h : α) :
    Gen.triangle (fin a) (fin b) pinf (fin h) pinf = fin h := by
  simp [Gen.triangle, isnan, lt, X.eq]

#print axioms gen_triangle_fin
#eval Gen.triangle (fin (0:ℚ)) (fin (1/2)) (fin 1) (fin (9/10)) (fin (1/4))
