import Mathlib.Algebra.Order.Field.Basic
import Mathlib.Tactic.Ring
import Mathlib.Tactic.Linarith
import Mathlib.Tactic.FieldSimp

/-- IEEE-like extended values (no signed zero, no overflow). -/
inductive X (α : Type) where
  | nan | ninf | pinf | fin (a : α)
deriving DecidableEq, Repr

namespace X
variable {α : Type} [Field α] [LinearOrder α] [IsStrictOrderedRing α]

def lt : X α → X α → Bool
  | nan, _ | _, nan => false
  | ninf, ninf => false | ninf, _ => true
  | pinf, _ => false
  | fin _, ninf => false | fin _, pinf => true
  | fin a, fin b => decide (a < b)
def eq : X α → X α → Bool
  | nan, _ | _, nan => false
  | ninf, ninf => true | pinf, pinf => true
  | fin a, fin b => decide (a = b)
  | _, _ => false
def isnan : X α → Bool | nan => true | _ => false
def sub : X α → X α → X α
  | nan, _ | _, nan => nan
  | pinf, pinf => nan | ninf, ninf => nan
  | pinf, _ => pinf | ninf, _ => ninf
  | fin _, pinf => ninf | fin _, ninf => pinf
  | fin a, fin b => fin (a - b)
def sgn (a : α) : Int := if 0 < a then 1 else if a < 0 then -1 else 0
def mul : X α → X α → X α
  | nan, _ | _, nan => nan
  | fin a, fin b => fin (a * b)
  | fin a, pinf | pinf, fin a => if 0 < a then pinf else if a < 0 then ninf else nan
  | fin a, ninf | ninf, fin a => if 0 < a then ninf else if a < 0 then pinf else nan
  | pinf, pinf | ninf, ninf => pinf
  | pinf, ninf | ninf, pinf => ninf
def div : X α → X α → X α
  | nan, _ | _, nan => nan
  | fin a, fin b => if b = 0 then (if 0 < a then pinf else if a < 0 then ninf else nan) else fin (a / b)
  | fin _, pinf | fin _, ninf => fin 0
  | pinf, fin b => if 0 ≤ b then pinf else ninf
  | ninf, fin b => if 0 ≤ b then ninf else pinf
  | _, _ => nan
def sel (c : Bool) (a b : X α) : X α := if c then a else b
end X
open X

variable {α : Type} [Field α] [LinearOrder α] [IsStrictOrderedRing α]

/-- what the tracer would emit for Triangle.membership -/
def Gen.triangle (a b c h x : X α) : X α :=
  mul (mul h (sel (isnan x) nan (fin 1)))
    (sel (lt x a || lt c x) (fin 0)
      (sel (X.eq x b || (X.eq a ninf && lt x b) || (X.eq c pinf && lt b x)) (fin 1)
        (sel (lt x b) (div (sub x a) (sub b a))
          (sel (lt b x) (div (sub c x) (sub c b)) nan))))

/-- documented closed form on finite x, finite vertices -/
def Spec.triangle (a b c h x : α) : α :=
  if x < a ∨ c < x then 0 else if x = b then h else if x < b then h * ((x - a) / (b - a)) else h * ((c - x) / (c - b))

theorem gen_triangle_fin (a b c h x : α) :
    Gen.triangle (fin a) (fin b) (fin c) (fin h) (fin x) = fin (Spec.triangle a b c h x) := by
  unfold Gen.triangle Spec.triangle
  by_cases h1 : x < a <;> by_cases h2 : c < x <;> by_cases h3 : x = b <;> by_cases h4 : x < b <;>
    by_cases h5 : b < x <;> by_cases h6 : b - a = 0 <;> by_cases h7 : c - b = 0 <;>
    simp [X.lt, X.eq, X.isnan, X.sel, X.mul, X.div, X.sub, h1, h2, h3, h4, h5, h6, h7] <;>
    first | done | (exfalso; linarith) | skip
  all_goals trace_state
  all_goals sorry
