/-! Feasibility prototype 2: shunting-yard correctness with
    binary operators of either associativity, unary prefix operators, calls f(e), f(e1,e2), parentheses.
    Mirrors `Function.infix_to_postfix` of pyfuzzylite (operand / function / comma / operator / ( / ) / drain).
    Core Lean only. -/

structure OpInfo where
  id : Nat
  prec : Nat
  rassoc : Bool
deriving DecidableEq, Repr

inductive Tok where
  | operand (n : Nat)
  | op (o : OpInfo)          -- unary or binary operator: the loop treats them alike
  | fn (id : Nat)
  | comma | lp | rp
deriving DecidableEq, Repr

open Tok

/-- precedence every function carries in the factory (100 in pyfuzzylite) -/
def FP : Nat := 100

/-- level of an operator when it is the incoming token -/
def OpInfo.L (o : OpInfo) : Nat := 2 * o.prec + (if o.rassoc then 1 else 0)
/-- level of an operator when it is on the stack -/
def OpInfo.R (o : OpInfo) : Nat := 2 * o.prec

/-- stack level of a stack entry that the operator loop may pop (`stack[-1] in factory.objects`) -/
def stackR : Tok → Option Nat
  | op o => some o.R
  | fn _ => some (2 * FP)
  | _ => none

/-- `while stack and stack[-1] in objects and (assoc<0 ∧ p ≤ top.p ∨ assoc>0 ∧ p < top.p): queue.append(stack.pop())`
    the two disjuncts are `l ≤ R top` with `l = L incoming`. -/
def popWhile (l : Nat) : List Tok → List Tok × List Tok
  | [] => ([], [])
  | t :: st =>
    match stackR t with
    | some r => if l ≤ r then (t :: (popWhile l st).1, (popWhile l st).2) else ([], t :: st)
    | none => ([], t :: st)

/-- pop until "(" ; the paren is kept (`,`) -/
def popToParenKeep : List Tok → Option (List Tok × List Tok)
  | [] => none
  | lp :: st => some ([], lp :: st)
  | t :: st => (popToParenKeep st).map (fun ar => (t :: ar.1, ar.2))

def isObj (t : Tok) : Bool := (stackR t).isSome

def sy : List Tok → List Tok → List Tok → Option (List Tok)
  | [], q, st => if st.all isObj then some (q ++ st) else none
  | operand n :: ts, q, st => sy ts (q ++ [operand n]) st
  | fn f :: ts, q, st => sy ts q (fn f :: st)
  | comma :: ts, q, st =>
      match popToParenKeep st with
      | none => none
      | some (a, r) => sy ts (q ++ a) r
  | op o :: ts, q, st => sy ts (q ++ (popWhile o.L st).1) (op o :: (popWhile o.L st).2)
  | lp :: ts, q, st => sy ts q (lp :: st)
  | rp :: ts, q, st =>
      match popToParenKeep st with
      | some (a, lp :: fn f :: r) => sy ts (q ++ a ++ [fn f]) r
      | some (a, lp :: r) => sy ts (q ++ a) r
      | _ => none

inductive E where
  | operand (n : Nat)
  | un (u : OpInfo) (e : E)
  | bin (o : OpInfo) (l r : E)
  | call0 (f : Nat)            -- arity-0 function used as a constant (`pi`)
  | call1 (f : Nat) (e : E)
  | call2 (f : Nat) (e1 e2 : E)
deriving Repr

def pfx : E → List Tok
  | .operand n => [operand n]
  | .un u e => pfx e ++ [op u]
  | .bin o l r => pfx l ++ pfx r ++ [op o]
  | .call0 f => [fn f]
  | .call1 f e => pfx e ++ [fn f]
  | .call2 f e1 e2 => pfx e1 ++ pfx e2 ++ [fn f]

/-- printer with exactly the parentheses the loop needs.
    `a`: operators read at the top level of the expression must have `L ≥ a` (else they would pop what is pending below);
    `b`: operators left pending by the expression must have `R ≥ b` (else the operator that follows would not pop them). -/
def pr (a b : Nat) : E → List Tok
  | .operand n => [operand n]
  | .un u e =>
    if u.L < a ∨ u.R < b then [lp] ++ ([op u] ++ pr (u.R + 1) 0 e) ++ [rp]
    else [op u] ++ pr (u.R + 1) b e
  | .bin o l r =>
    if o.L < a ∨ o.R < b then [lp] ++ (pr 0 o.L l ++ [op o] ++ pr (o.R + 1) 0 r) ++ [rp]
    else pr a o.L l ++ [op o] ++ pr (o.R + 1) b r
  | .call0 f => if 2 * FP < b then [lp, fn f, rp] else [fn f]
  | .call1 f e => [fn f, lp] ++ pr 0 0 e ++ [rp]
  | .call2 f e1 e2 => [fn f, lp] ++ pr 0 0 e1 ++ [comma] ++ pr 0 0 e2 ++ [rp]

/-- every pending entry is an operator or an arity-0 function with stack level `≥ b` -/
def Pend (b : Nat) (pend : List Tok) : Prop := ∀ t ∈ pend, ∃ r, stackR t = some r ∧ b ≤ r

/-- nothing at the top of `st` is popped by an incoming operator of level `≥ a` -/
def Adm (a : Nat) (st : List Tok) : Prop := ∀ l, a ≤ l → popWhile l st = ([], st)

theorem popWhile_pend (l : Nat) (pend st : List Tok) (h : Pend l pend) (ha : Adm l st) :
    popWhile l (pend ++ st) = (pend, st) := by
  induction pend with
  | nil => simpa using ha l (Nat.le_refl _)
  | cons t pend ih =>
    obtain ⟨r, hr, ho⟩ := h t (by simp)
    have ih' := ih (fun t ht => h t (by simp [ht]))
    simp [popWhile, hr, ho, ih']

theorem popToParenKeep_pend (b : Nat) (pend st : List Tok) (h : Pend b pend) :
    popToParenKeep (pend ++ lp :: st) = some (pend, lp :: st) := by
  induction pend with
  | nil => simp [popToParenKeep]
  | cons t pend ih =>
    obtain ⟨r, hr, _⟩ := h t (by simp)
    have ih' := ih (fun t ht => h t (by simp [ht]))
    cases t <;> simp [stackR] at hr <;> simp [popToParenKeep, ih']

theorem adm_mono {a a' : Nat} {st} (h : Adm a st) (hc : a ≤ a') : Adm a' st :=
  fun l h' => h l (Nat.le_trans hc h')

theorem adm_lp (a : Nat) (st : List Tok) : Adm a (lp :: st) := fun _ _ => by simp [popWhile, stackR]

theorem adm_push (o : OpInfo) (st : List Tok) : Adm (o.R + 1) (op o :: st) := by
  intro l hl
  have : ¬ l ≤ o.R := by omega
  simp [popWhile, stackR, this]

theorem pend_weaken {b b' : Nat} {pend} (h : Pend b pend) (hb : b' ≤ b) : Pend b' pend := by
  intro t ht; obtain ⟨r, hr, ho⟩ := h t ht; exact ⟨r, hr, Nat.le_trans hb ho⟩

theorem pend_snoc {b : Nat} {pend} {o : OpInfo} (h : Pend b pend) (ho : b ≤ o.R) : Pend b (pend ++ [op o]) := by
  intro t ht
  rcases List.mem_append.1 ht with h' | h'
  · exact h t h'
  · simp at h'; exact ⟨o.R, by simp [h', stackR], ho⟩

/-- a group `( body )` where `body` leaves `pend` pending above the paren and the entry below the paren is not a function -/
theorem close_group (ts q pend st : List Tok) (b : Nat) (h : Pend b pend) (hst : ∀ f r, st ≠ fn f :: r) :
    sy (rp :: ts) q (pend ++ lp :: st) = sy ts (q ++ pend) st := by
  cases st with
  | nil => simp only [sy, popToParenKeep_pend b pend [] h]
  | cons t r =>
    cases t with
    | fn f => exact absurd rfl (hst f r)
    | _ => simp only [sy, popToParenKeep_pend b pend _ h]

theorem close_call (ts q pend st : List Tok) (b f : Nat) (h : Pend b pend) :
    sy (rp :: ts) q (pend ++ lp :: fn f :: st) = sy ts (q ++ pend ++ [fn f]) st := by
  simp only [sy, popToParenKeep_pend b pend (fn f :: st) h]

/-- stacks whose top is not a function (true whenever an operand is expected, except right after `f`) -/
def NoFnTop (st : List Tok) : Prop := ∀ f r, st ≠ fn f :: r

theorem main (e : E) : ∀ (a b : Nat) (q st ts : List Tok), Adm a st → NoFnTop st →
    ∃ q' pend, Pend b pend ∧ sy (pr a b e ++ ts) q st = sy ts q' (pend ++ st) ∧ q' ++ pend = q ++ pfx e := by
  induction e with
  | operand n =>
    intro a b q st ts _ _
    exact ⟨q ++ [operand n], [], by simp [Pend], by simp [pr, sy], by simp [pfx]⟩
  | un u e ih =>
    intro a b q st ts hadm hnf
    -- unparenthesised body in a context (a', b') with u.L ≥ a', u.R ≥ b'
    have body : ∀ (a' b' : Nat) (q st ts : List Tok), Adm a' st → a' ≤ u.L → b' ≤ u.R →
        ∃ q' pend, Pend b' pend ∧ sy (([op u] ++ pr (u.R + 1) b' e) ++ ts) q st = sy ts q' (pend ++ st)
          ∧ q' ++ pend = q ++ pfx (.un u e) := by
      intro a' b' q st ts hadm ha hb
      have hpop : popWhile u.L st = ([], st) := hadm u.L ha
      obtain ⟨q1, pe, hpe, hrun, hq1⟩ := ih (u.R + 1) b' q (op u :: st) ts (adm_push u st)
        (by intro f r h; cases h)
      refine ⟨q1, pe ++ [op u], pend_snoc hpe hb, ?_, ?_⟩
      · have e1 : ([op u] ++ pr (u.R + 1) b' e) ++ ts = op u :: (pr (u.R + 1) b' e ++ ts) := by simp
        rw [e1]; simp only [sy, hpop, List.append_nil]; rw [hrun]; simp [List.append_assoc]
      · simp only [pfx, ← List.append_assoc]; rw [hq1]
    by_cases hpar : u.L < a ∨ u.R < b
    · obtain ⟨q', pend, hp, hrun, hq⟩ := body 0 0 q (lp :: st) ([rp] ++ ts) (adm_lp 0 st) (Nat.zero_le _) (Nat.zero_le _)
      refine ⟨q' ++ pend, [], by simp [Pend], ?_, by simpa using hq⟩
      simp only [pr, hpar, if_true]
      have e1 : [lp] ++ ([op u] ++ pr (u.R + 1) 0 e) ++ [rp] ++ ts
          = lp :: (([op u] ++ pr (u.R + 1) 0 e) ++ ([rp] ++ ts)) := by simp [List.append_assoc]
      rw [e1]; simp only [sy]; rw [hrun]
      have e2 : [rp] ++ ts = rp :: ts := rfl
      rw [e2, close_group ts q' pend st 0 hp hnf]; simp
    · have h1 : a ≤ u.L := by omega
      have h2 : b ≤ u.R := by omega
      obtain ⟨q', pend, hp, hrun, hq⟩ := body a b q st ts hadm h1 h2
      exact ⟨q', pend, hp, by simp only [pr, hpar, if_false]; exact hrun, hq⟩
  | bin o l r ihl ihr =>
    intro a b q st ts hadm hnf
    have body : ∀ (a' b' : Nat) (q st ts : List Tok), Adm a' st → NoFnTop st → a' ≤ o.L → b' ≤ o.R →
        ∃ q' pend, Pend b' pend ∧
          sy ((pr a' o.L l ++ [op o] ++ pr (o.R + 1) b' r) ++ ts) q st = sy ts q' (pend ++ st) ∧
          q' ++ pend = q ++ pfx (.bin o l r) := by
      intro a' b' q st ts hadm hnf ha hb
      obtain ⟨q1, pl, hpl, hrun1, hq1⟩ := ihl a' o.L q st ([op o] ++ pr (o.R + 1) b' r ++ ts) hadm hnf
      obtain ⟨q3, prr, hpr, hrun3, hq3⟩ :=
        ihr (o.R + 1) b' (q1 ++ pl) (op o :: st) ts (adm_push o st) (by intro f r h; cases h)
      refine ⟨q3, prr ++ [op o], pend_snoc hpr hb, ?_, ?_⟩
      · have e1 : (pr a' o.L l ++ [op o] ++ pr (o.R + 1) b' r) ++ ts
            = pr a' o.L l ++ ([op o] ++ pr (o.R + 1) b' r ++ ts) := by simp [List.append_assoc]
        rw [e1, hrun1]
        have e2 : [op o] ++ pr (o.R + 1) b' r ++ ts = op o :: (pr (o.R + 1) b' r ++ ts) := by simp
        rw [e2]
        simp only [sy, popWhile_pend o.L pl st hpl (adm_mono hadm ha)]
        rw [hrun3]; simp [List.append_assoc]
      · simp only [pfx, ← List.append_assoc]; rw [hq3, hq1]
    by_cases hpar : o.L < a ∨ o.R < b
    · obtain ⟨q', pend, hp, hrun, hq⟩ := body 0 0 q (lp :: st) ([rp] ++ ts) (adm_lp 0 st)
        (by intro f r h; cases h) (Nat.zero_le _) (Nat.zero_le _)
      refine ⟨q' ++ pend, [], by simp [Pend], ?_, by simpa using hq⟩
      simp only [pr, hpar, if_true]
      have e1 : [lp] ++ (pr 0 o.L l ++ [op o] ++ pr (o.R + 1) 0 r) ++ [rp] ++ ts
          = lp :: ((pr 0 o.L l ++ [op o] ++ pr (o.R + 1) 0 r) ++ ([rp] ++ ts)) := by simp [List.append_assoc]
      rw [e1]; simp only [sy]; rw [hrun]
      have e2 : [rp] ++ ts = rp :: ts := rfl
      rw [e2, close_group ts q' pend st 0 hp hnf]; simp
    · have h1 : a ≤ o.L := by omega
      have h2 : b ≤ o.R := by omega
      obtain ⟨q', pend, hp, hrun, hq⟩ := body a b q st ts hadm hnf h1 h2
      exact ⟨q', pend, hp, by simp only [pr, hpar, if_false]; exact hrun, hq⟩
  | call0 f =>
    intro a b q st ts _ hnf
    by_cases hb : 2 * FP < b
    · refine ⟨q ++ [fn f], [], by simp [Pend], ?_, by simp [pfx]⟩
      have hp1 : Pend 0 [fn f] := by intro t ht; simp at ht; exact ⟨2 * FP, by simp [ht, stackR], Nat.zero_le _⟩
      have := close_group ts q [fn f] st 0 hp1 hnf
      simp only [pr, hb, if_true, List.cons_append, List.nil_append]
      show sy (lp :: fn f :: rp :: ts) q st = _
      have e : ([fn f] : List Tok) ++ lp :: st = fn f :: lp :: st := rfl
      rw [e] at this
      have step1 : sy (lp :: fn f :: rp :: ts) q st = sy (rp :: ts) q (fn f :: lp :: st) := by simp only [sy]
      rw [step1, this]
    · refine ⟨q, [fn f], ?_, by simp [pr, hb, sy], by simp [pfx]⟩
      intro t ht; simp at ht; exact ⟨2 * FP, by simp [ht, stackR], by omega⟩
  | call1 f e ih =>
    intro a b q st ts _ _
    obtain ⟨q1, pe, hpe, hrun, hq1⟩ := ih 0 0 q (lp :: fn f :: st) ([rp] ++ ts) (adm_lp 0 _) (by intro f r h; cases h)
    refine ⟨q1 ++ pe ++ [fn f], [], by simp [Pend], ?_, ?_⟩
    · have e1 : pr a b (.call1 f e) ++ ts = fn f :: lp :: (pr 0 0 e ++ ([rp] ++ ts)) := by
        simp [pr, List.append_assoc]
      rw [e1]; simp only [sy]; rw [hrun]
      have e2 : [rp] ++ ts = rp :: ts := rfl
      rw [e2, close_call ts q1 pe st 0 f hpe]; simp
    · simp only [pfx, List.append_nil, ← List.append_assoc]; rw [hq1]
  | call2 f e1 e2 ih1 ih2 =>
    intro a b q st ts _ _
    obtain ⟨q1, p1, hp1, hrun1, hq1⟩ := ih1 0 0 q (lp :: fn f :: st) ([comma] ++ pr 0 0 e2 ++ [rp] ++ ts)
      (adm_lp 0 _) (by intro f r h; cases h)
    obtain ⟨q2, p2, hp2, hrun2, hq2⟩ := ih2 0 0 (q1 ++ p1) (lp :: fn f :: st) ([rp] ++ ts)
      (adm_lp 0 _) (by intro f r h; cases h)
    refine ⟨q2 ++ p2 ++ [fn f], [], by simp [Pend], ?_, ?_⟩
    · have e1 : pr a b (.call2 f e1 e2) ++ ts
          = fn f :: lp :: (pr 0 0 e1 ++ ([comma] ++ pr 0 0 e2 ++ [rp] ++ ts)) := by
        simp [pr, List.append_assoc]
      rw [e1]; simp only [sy]; rw [hrun1]
      have e2' : [comma] ++ pr 0 0 e2 ++ [rp] ++ ts = comma :: (pr 0 0 e2 ++ ([rp] ++ ts)) := by
        simp [List.append_assoc]
      rw [e2']; simp only [sy, popToParenKeep_pend 0 p1 (fn f :: st) hp1]
      rw [hrun2]
      have e3 : [rp] ++ ts = rp :: ts := rfl
      rw [e3, close_call ts q2 p2 st 0 f hp2]; simp
    · simp only [pfx, List.append_nil, ← List.append_assoc]; rw [hq2, hq1]

theorem sy_correct (e : E) : sy (pr 0 0 e) [] [] = some (pfx e) := by
  obtain ⟨q', pend, hp, hrun, hq⟩ := main e 0 0 [] [] [] (fun _ _ => by simp [popWhile]) (by intro f r h; cases h)
  have : pr 0 0 e = pr 0 0 e ++ [] := by simp
  rw [this, hrun]
  have hall : (pend ++ []).all isObj = true := by
    simp only [List.append_nil, List.all_eq_true]
    intro t ht; obtain ⟨r, hr, _⟩ := hp t ht; simp [isObj, hr]
  simp only [sy, hall, if_true]
  simpa using hq

#print axioms sy_correct

-- the pyfuzzylite table on a few shapes
def oNot : OpInfo := ⟨0, 100, true⟩   -- !
def oPow : OpInfo := ⟨1, 90, true⟩    -- ^
def oNeg : OpInfo := ⟨2, 90, true⟩    -- .-
def oMul : OpInfo := ⟨3, 80, false⟩
def oAdd : OpInfo := ⟨4, 70, false⟩
def oSub : OpInfo := ⟨5, 70, false⟩
open E in
#eval pr 0 0 (bin oSub (operand 0) (bin oSub (operand 1) (operand 2)))          -- a - ( b - c )
open E in
#eval pr 0 0 (bin oPow (bin oPow (operand 0) (operand 1)) (operand 2))          -- ( a ^ b ) ^ c
open E in
#eval pr 0 0 (bin oPow (operand 0) (bin oPow (operand 1) (operand 2)))          -- a ^ b ^ c
open E in
#eval pr 0 0 (un oNot (un oNeg (operand 0)))                                    -- ! ( .- a )
open E in
#eval pr 0 0 (un oNeg (bin oPow (operand 0) (operand 1)))                       -- .- a ^ b
open E in
#eval pr 0 0 (un oNeg (bin oMul (operand 0) (operand 1)))                       -- .- ( a * b )
open E in
#eval (pr 0 0 (bin oMul (bin oPow (operand 2) (call0 9)) (call1 8 (call0 9))), sy (pr 0 0 (bin oMul (bin oPow (operand 2) (call0 9)) (call1 8 (call0 9)))) [] [])
open E in
#eval pr 0 0 (bin oMul (un oNeg (operand 0)) (call2 7 (operand 1) (bin oAdd (operand 2) (operand 3))))
