import Mathlib.Algebra.Order.Field.Basic
import Mathlib.Algebra.Order.Field.Rat
variable {α : Type} [Field α] [LinearOrder α] [IsStrictOrderedRing α]
def einsteinProduct (a b : α) : α := (a * b) / (2 - (a + b - a * b))
def parseRat (s : String) : Option ℚ :=
  match s.splitOn "/" with
  | [n, d] => do let n ← n.toInt?; let d ← d.toNat?; pure (mkRat n d)
  | _ => none
partial def loop (h : IO.FS.Stream) (acc : Nat) : IO Unit := do
  let line ← h.getLine
  if line.isEmpty then return ()
  match (line.trimAscii.toString.splitOn " ") with
  | [a, b] =>
    match parseRat a, parseRat b with
    | some a, some b => let r := einsteinProduct a b; IO.println s!"{r.num}/{r.den}"
    | _, _ => IO.println "bad"
  | _ => IO.println "bad"
  loop h (acc+1)
def main : IO Unit := do loop (← IO.getStdin) 0
