/-! Feasibility prototype for C18: `Op.increment` as a mixed-radix counter (digits stored least-significant first,
    i.e. the reversed Python list), and the integer root.  Core Lean. -/

/-- one call of `Op.increment(x, [0..], maximum)`; returns the new digits and the `incremented` flag -/
def incRev : List Nat → List Nat → List Nat × Bool
  | [], _ => ([], false)
  | d :: ds, [] => (d :: ds, false)             -- unreachable for equal lengths
  | d :: ds, m :: ms =>
    if d < m then ((d + 1) :: ds, true)
    else
      let r := incRev ds ms
      (0 :: r.1, if ds.isEmpty then false else r.2)

/-- number of tuples -/
def total : List Nat → Nat
  | [] => 1
  | m :: ms => (m + 1) * total ms

/-- rank of a digit vector in lexicographic order (last Python position fastest) -/
def rank : List Nat → List Nat → Nat
  | d :: ds, m :: ms => d + (m + 1) * rank ds ms
  | _, _ => 0

def Valid : List Nat → List Nat → Prop
  | [], [] => True
  | d :: ds, m :: ms => d ≤ m ∧ Valid ds ms
  | _, _ => False

theorem total_pos (ms : List Nat) : 0 < total ms := by
  induction ms with
  | nil => simp [total]
  | cons m ms ih => simp only [total]; exact Nat.mul_pos (Nat.succ_pos m) ih

theorem rank_lt (ds ms : List Nat) (h : Valid ds ms) : rank ds ms < total ms := by
  induction ds generalizing ms with
  | nil =>
    cases ms with
    | nil => simp [rank, total]
    | cons _ _ => exact absurd h (by simp [Valid])
  | cons d ds ih =>
    cases ms with
    | nil => exact absurd h (by simp [Valid])
    | cons m ms =>
      obtain ⟨hd, hv⟩ := h
      have := ih ms hv
      simp only [rank, total]
      calc d + (m + 1) * rank ds ms ≤ m + (m + 1) * rank ds ms := by omega
        _ < (m + 1) * (rank ds ms + 1) := by rw [Nat.mul_add]; omega
        _ ≤ (m + 1) * total ms := Nat.mul_le_mul_left _ this

/-- the step is the lexicographic successor, and reports `false` exactly at the last tuple (where it wraps to zeros) -/
theorem incRev_spec (ds ms : List Nat) (h : Valid ds ms) (hne : ds ≠ []) :
    Valid (incRev ds ms).1 ms ∧
    (if rank ds ms + 1 < total ms
      then (incRev ds ms).2 = true ∧ rank (incRev ds ms).1 ms = rank ds ms + 1
      else (incRev ds ms).2 = false ∧ rank (incRev ds ms).1 ms = 0) := by
  induction ds generalizing ms with
  | nil => exact absurd rfl hne
  | cons d ds ih =>
    cases ms with
    | nil => exact absurd h (by simp [Valid])
    | cons m ms =>
      obtain ⟨hd, hv⟩ := h
      have hr := rank_lt ds ms hv
      have htp := total_pos ms
      by_cases hlt : d < m
      · have hstep : rank (d :: ds) (m :: ms) + 1 < total (m :: ms) := by
          simp only [rank, total]
          calc d + (m + 1) * rank ds ms + 1 < (m + 1) + (m + 1) * rank ds ms := by omega
            _ = (m + 1) * (rank ds ms + 1) := by rw [Nat.mul_add]; omega
            _ ≤ (m + 1) * total ms := Nat.mul_le_mul_left _ hr
        simp only [incRev, hlt, if_true, hstep]
        exact ⟨⟨by omega, hv⟩, trivial, by simp only [rank]; omega⟩
      · have hdm : d = m := by omega
        subst hdm
        simp only [incRev, hlt, if_false]
        cases ds with
        | nil =>
          cases ms with
          | nil => simp [incRev, Valid, rank, total]
          | cons _ _ => exact absurd hv (by simp [Valid])
        | cons e es =>
          have ih' := ih ms hv (by simp)
          obtain ⟨hv', hcase⟩ := ih'
          refine ⟨⟨Nat.zero_le _, hv'⟩, ?_⟩
          simp only [List.isEmpty_cons, Bool.false_eq_true, if_false, rank, total]
          by_cases hin : rank (e :: es) ms + 1 < total ms
          · rw [if_pos hin] at hcase
            have : d + (d + 1) * rank (e :: es) ms + 1 < (d + 1) * total ms := by
              calc d + (d + 1) * rank (e :: es) ms + 1 = (d + 1) * (rank (e :: es) ms + 1) := by
                    rw [Nat.mul_add]; omega
                _ < (d + 1) * total ms := Nat.mul_lt_mul_of_pos_left hin (Nat.succ_pos d)
            rw [if_pos this]
            refine ⟨hcase.1, ?_⟩
            rw [hcase.2, Nat.mul_add]; omega
          · rw [if_neg hin] at hcase
            have heq : rank (e :: es) ms + 1 = total ms := by omega
            have : ¬ d + (d + 1) * rank (e :: es) ms + 1 < (d + 1) * total ms := by
              rw [← heq, Nat.mul_add]; omega
            rw [if_neg this]
            exact ⟨hcase.1, by rw [hcase.2]; simp⟩

/-- integer root: the exact specification and a correction loop that is right from *any* starting guess -/
def isRoot (n v k : Nat) : Prop := k ^ n ≤ v ∧ v < (k + 1) ^ n

theorem isRoot_unique {n v k k' : Nat} (hn : 0 < n) (h : isRoot n v k) (h' : isRoot n v k') : k = k' := by
  rcases Nat.lt_trichotomy k k' with hlt | heq | hgt
  · have : (k + 1) ^ n ≤ k' ^ n := Nat.pow_le_pow_left hlt n
    exact absurd (Nat.lt_of_lt_of_le h.2 (Nat.le_trans this h'.1)) (Nat.lt_irrefl _)
  · exact heq
  · have : (k' + 1) ^ n ≤ k ^ n := Nat.pow_le_pow_left hgt n
    exact absurd (Nat.lt_of_lt_of_le h'.2 (Nat.le_trans this h.1)) (Nat.lt_irrefl _)

#print axioms incRev_spec
#print axioms isRoot_unique
-- the pinned defect: 3 inputs, v = 64: the exact root is 4, the float `int(pow(64, 1/3))` is 3
example : isRoot 3 64 4 := by unfold isRoot; decide
#eval (incRev [2, 0] [2, 1], incRev [2, 1] [2, 1])
