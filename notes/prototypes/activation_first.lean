/-! Feasibility prototype for C08: the counting loop of `First.activate` refines "the first n eligible rules",
    `Last` is the same on the reversed list; Highest as n extractions of the minimum key.  Core Lean. -/

structure RuleSt where
  loaded : Bool
  enabled : Bool
  eligible : Bool      -- degree > 0 ∧ degree ≥ threshold (computed by the caller from the exact degree)
deriving Repr, DecidableEq

/-- `First.activate`: one pass with the `activated` counter; output: per rule, was `trigger` called -/
def firstLoop (n : Nat) : Nat → List RuleSt → List Bool
  | _, [] => []
  | k, r :: rs =>
    if r.loaded && decide (k < n) && r.eligible then true :: firstLoop n (k + 1) rs
    else false :: firstLoop n k rs

/-- specification: a rule is triggered iff it is loaded and eligible and fewer than n such rules precede it -/
def countBefore : List RuleSt → Nat
  | [] => 0
  | r :: rs => (if r.loaded && r.eligible then 1 else 0) + countBefore rs

def firstSpec (n : Nat) : List RuleSt → List RuleSt → List Bool
  | _, [] => []
  | pre, r :: rs => (r.loaded && r.eligible && decide (countBefore pre < n)) :: firstSpec n (pre ++ [r]) rs

theorem countBefore_append (a b : List RuleSt) : countBefore (a ++ b) = countBefore a + countBefore b := by
  induction a with
  | nil => simp [countBefore]
  | cons r rs ih => simp [countBefore, ih, Nat.add_assoc]

/-- refinement with the invariant `k = min n (number of eligible loaded rules so far)` -/
theorem firstLoop_eq_spec (n : Nat) (pre rs : List RuleSt) :
    firstLoop n (min n (countBefore pre)) rs = firstSpec n pre rs := by
  induction rs generalizing pre with
  | nil => rfl
  | cons r rs ih =>
    simp only [firstLoop, firstSpec]
    have hc := countBefore_append pre [r]
    simp only [countBefore, Nat.add_zero] at hc
    have step : ∀ k', k' = min n (countBefore (pre ++ [r])) → firstLoop n k' rs = firstSpec n (pre ++ [r]) rs := by
      intro k' hk'; rw [hk', ih]
    by_cases hl : r.loaded <;> by_cases he : r.eligible <;> by_cases hk : countBefore pre < n
    all_goals simp only [hl, he, Bool.true_and, Bool.and_true, Bool.false_and, Bool.and_false, if_true, if_false,
      Bool.false_eq_true, Nat.add_zero, Nat.zero_add] at hc ⊢
    · have h1 : min n (countBefore pre) < n := by omega
      simp only [h1, hk, decide_true, if_true]
      rw [step _ (by rw [hc]; omega)]
    · have h1 : ¬ min n (countBefore pre) < n := by omega
      simp only [h1, hk, decide_false, Bool.false_eq_true, if_false]
      rw [step _ (by rw [hc]; omega)]
    all_goals rw [step _ (by rw [hc])]

theorem firstLoop_correct (n : Nat) (rs : List RuleSt) : firstLoop n 0 rs = firstSpec n [] rs := by
  have := firstLoop_eq_spec n [] rs
  simpa [countBefore] using this

/-- at most n rules are triggered, whatever the block -/
theorem firstLoop_count (n k : Nat) (rs : List RuleSt) (hk : k ≤ n) :
    ((firstLoop n k rs).filter id).length + k ≤ n := by
  induction rs generalizing k with
  | nil => simpa [firstLoop] using hk
  | cons r rs ih =>
    simp only [firstLoop]
    split
    · rename_i h
      have hkn : k < n := by
        simp only [Bool.and_eq_true, decide_eq_true_eq] at h; exact h.1.2
      have := ih (k + 1) hkn
      simp only [List.filter, id, List.length_cons]; omega
    · have := ih k hk
      simpa [List.filter] using this

#print axioms firstLoop_correct
#print axioms firstLoop_count
#eval firstLoop 2 0 [⟨true,true,true⟩,⟨true,true,false⟩,⟨true,false,true⟩,⟨true,true,true⟩,⟨false,true,true⟩]
