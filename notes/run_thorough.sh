#!/bin/bash
# development helper: every thorough check once on the current tree (used through `vp run`)
cd "$(dirname "$0")/.."
./setup.sh > /dev/null 2>&1
for p in C01 C02 C03 C04 C05 C06 C07 C08 C09 C10 C11 C12 C13 C14 C15 C16 C17 C18 C19 C20; do
  s=$(date +%s)
  ./check $p --tier thorough 2>&1 | grep -E "VIOLATION|KNOWN|thorough seed|INFRA|Traceback" | cut -c1-220
  echo "  ($p took $(( $(date +%s) - s )) s)"
done
